#!/bin/bash
# benigneval.sh <dir-with-A/B/C> : apply each behaviour-preserving patch (kept under /verif/benign/<round-dir>/<A|B|C>/) to a scratch worktree ($DEV),
# run every claimed check, list failed obligations (= false alarms), revert.
# Usage: git -C /repo worktree add --detach /tmp/sv/dev HEAD; for d in benign/*; do tools/benigneval.sh $d; done
# (C14n/B was written before fix F10 and no longer applies; C19n/A re-reports the known keep-session finding under a new key)
DEV=${DEV:-/tmp/sv/dev}
mkdir -p /tmp/sv/vtmp && cp /verif/known_findings.txt /tmp/sv/vtmp/
P=$(python3 -c "import json;print(','.join(c['property_id'] for c in json.load(open('/verif/MANIFEST.json'))['checks']))")
for d in "$1"/*/; do
  [ -f "$d/patch.diff" ] || continue
  cd $DEV && git checkout -q -- . && git reset -q
  if git apply "$d/patch.diff" 2>/dev/null || git apply --3way "$d/patch.diff" 2>/dev/null; then
    if ! (cd $DEV && GOFLAGS=-mod=mod GOPROXY=off GOSUMDB=off GOTOOLCHAIN=local go build ./... >/dev/null 2>&1); then echo "$d: DOES NOT BUILD"; git checkout -q -- .; continue; fi
    r=$(${BIN:-/verif/bin/gaeacheck} -prop "$P" -repo $DEV -verif /tmp/sv/vtmp -no-evidence 2>&1 | grep "^FAILED-OBLIGATION" | cut -c1-330)
    if [ -z "$r" ]; then echo "$d: quiet"; else echo "$d: FALSE ALARM"; echo "$r"; fi
  else
    echo "$d: PATCH DOES NOT APPLY"
  fi
  git checkout -q -- . ; git reset -q; git clean -fdq -e parser/goyacc/goyacc 2>/dev/null
done
