#!/usr/bin/env python3
"""mut.py <prop[,prop]> <repo-relative-file> <python-regex> <replacement> [count]
Analyse /repo with one file replaced (go/packages overlay; /repo is not touched) and print the non-ok obligations."""
import sys, re, subprocess, tempfile, os
props, rel, pat, rep = sys.argv[1:5]
cnt = int(sys.argv[5]) if len(sys.argv) > 5 else 1
src = open(os.path.join("/repo", rel)).read()
new, n = re.subn(pat, rep, src, count=cnt, flags=re.S)
if n == 0:
    print("pattern not found"); sys.exit(2)
tf = tempfile.NamedTemporaryFile("w", suffix=".go", delete=False); tf.write(new); tf.close()
p = subprocess.run(["/verif/bin/gaeacheck", "-prop", props, "-no-evidence", "-overlay", rel + "=" + tf.name], capture_output=True, text=True)
os.unlink(tf.name)
for l in p.stdout.splitlines():
    if l.startswith("summary") or "[violation" in l or "[undecided" in l:
        print(l[:300])
print("exit", p.returncode)
