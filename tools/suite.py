#!/usr/bin/env python3
"""Run the repository's go test suite in DIR (default /repo) and compare with the
stable_pass list of /root/.vp/BASELINE.json. Exit 0 iff every stable test passed.
usage: suite.py [DIR] [pkgpattern ...]   (default pattern ./...)
When package patterns are given, only stable tests of the packages that ran are compared."""
import json, os, subprocess, sys
d = sys.argv[1] if len(sys.argv) > 1 else "/repo"
pats = sys.argv[2:] or ["./..."]
base = json.load(open("/root/.vp/BASELINE.json"))
stable = set(base["stable_pass"])
env = dict(os.environ, GOFLAGS="-mod=mod", GOPROXY="off", GOSUMDB="off", GOTOOLCHAIN="local")
env.pop("GOWORK", None)
p = subprocess.run(["go", "test", "-json", "-vet=off", "-count=1", "-timeout", "25m"] + pats,
                   cwd=d, env=env, stdout=subprocess.PIPE, stderr=subprocess.PIPE, text=True)
res = {}
pkgs = set()
buildfail = []
for line in p.stdout.splitlines():
    try:
        e = json.loads(line)
    except Exception:
        continue
    pk = e.get("Package")
    if pk:
        pkgs.add(pk)
    if e.get("Action") in ("pass", "fail", "skip") and e.get("Test"):
        res[pk + "::" + e["Test"]] = e["Action"]
    if e.get("Action") == "fail" and not e.get("Test"):
        buildfail.append(pk)
want = {t for t in stable if t.split("::")[0] in pkgs} if pats != ["./..."] else stable
bad = sorted(t for t in want if res.get(t) != "pass")
newfail = sorted(t for t, a in res.items() if a == "fail" and t not in stable)
print("packages run: %d  tests seen: %d  stable compared: %d  stable not passing: %d" % (len(pkgs), len(res), len(want), len(bad)))
for t in bad[:60]:
    print("  NOT-PASS", t, res.get(t))
print("failing tests outside the stable set (pre-existing failures expected here): %d" % len(newfail))
for t in newfail[:40]:
    print("  other-fail", t)
sys.exit(1 if bad else 0)
