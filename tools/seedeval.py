#!/usr/bin/env python3
"""seedeval.py <seed-dir> <seed-id>
Confirm a seeded defect produced by a sub-agent and evaluate the checks against it.

 1. scratch worktree of /repo HEAD (outside /repo and /verif): apply patch.diff, build, run the whole baseline suite
    (must pass), place the demonstration and run it (must FAIL); revert the patch, run it again (must PASS).
 2. apply the patch to /repo itself, run ./check.sh <property> quick and every other claimed check, undo the patch.
 3. if confirmed, store /verif/seeded/<seed-id>/ {patch.diff, demo, meta.json (what it needs, what was run, who caught it)}.
"""
import json, os, shutil, subprocess, sys, glob, time

ENV = dict(os.environ, GOFLAGS="-mod=mod", GOPROXY="off", GOSUMDB="off", GOTOOLCHAIN="local")
ENV.pop("GOWORK", None)

def run(cmd, cwd, timeout=1800, shell=False):
    p = subprocess.run(cmd, cwd=cwd, env=ENV, shell=shell, stdout=subprocess.PIPE, stderr=subprocess.STDOUT, text=True, timeout=timeout)
    return p.returncode, p.stdout

def main():
    sd, sid = sys.argv[1].rstrip("/"), sys.argv[2]
    skip_confirm = "--skip-confirm" in sys.argv
    meta = json.load(open(os.path.join(sd, "meta.json")))
    prop = meta["property"]
    patch = os.path.join(sd, "patch.diff")
    demos = [f for f in glob.glob(os.path.join(sd, "**", "*.go"), recursive=True)]
    demo_path = meta.get("demo_path")
    demo_cmd = meta["demo_cmd"]
    log = {"seed": sid, "property": prop}
    wt = "/tmp/sv/" + sid
    if not skip_confirm:
        shutil.rmtree(wt, ignore_errors=True)
        os.makedirs("/tmp/sv", exist_ok=True)
        rc, out = run(["git", "-C", "/repo", "worktree", "add", "--detach", wt, "HEAD"], "/repo")
        try:
            rc, out = run(["git", "apply", patch], wt)
            if rc != 0:
                rc, out = run(["git", "apply", "--3way", patch], wt)
            log["patch_applies"] = rc == 0
            if rc != 0:
                print("PATCH DOES NOT APPLY:", out[-2000:]); print(json.dumps(log)); return 1
            rc, out = run("go build ./... && go test -vet=off -count=1 -run '^$' ./... >/dev/null", wt, shell=True)
            log["builds"] = rc == 0
            if rc != 0:
                print("BUILD FAILS", out[-2000:]); print(json.dumps(log)); return 1
            rc, out = run(["python3", "/verif/tools/suite.py", wt], wt)
            if rc != 0:  # timing-sensitive tests flake under load: one retry
                rc, out = run(["python3", "/verif/tools/suite.py", wt], wt)
            log["suite_passes_with_change"] = rc == 0
            log["suite_tail"] = out.strip().splitlines()[:3]
            for d in demos:
                dst = os.path.join(wt, demo_path if len(demos) == 1 else os.path.join(os.path.dirname(demo_path), os.path.basename(d)))
                shutil.copy(d, dst)
            rc, out = run(demo_cmd, wt, shell=True, timeout=900)
            log["demo_fails_with_change"] = rc != 0
            log["demo_with_change_tail"] = out.strip().splitlines()[-6:]
            run(["git", "apply", "-R", patch], wt)
            rc2, out2 = run(demo_cmd, wt, shell=True, timeout=900)
            log["demo_passes_without_change"] = rc2 == 0
            if rc2 != 0:
                log["demo_without_change_tail"] = out2.strip().splitlines()[-6:]
        finally:
            run(["git", "-C", "/repo", "worktree", "remove", "--force", wt], "/repo")
            shutil.rmtree(wt, ignore_errors=True)
        confirmed = all(log.get(k) for k in ("builds", "suite_passes_with_change", "demo_fails_with_change", "demo_passes_without_change"))
        log["confirmed"] = confirmed
    else:
        log["confirmed"] = True
    # evaluate checks against /repo with the patch applied
    rc, out = run(["git", "-C", "/repo", "status", "--porcelain", "--untracked-files=no"], "/repo")
    if out.strip():
        print("refusing: /repo has local modifications:", out); return 2
    caught = {}
    try:
        rc, out = run(["git", "-C", "/repo", "apply", patch], "/repo")
        if rc != 0:
            rc, out = run(["git", "-C", "/repo", "apply", "--3way", patch], "/repo")
        if rc != 0:
            # a later fix changed the same lines: keep the stored result, only note it
            run(["git", "-C", "/repo", "reset", "-q"], "/repo")
            run(["git", "-C", "/repo", "checkout", "--", "."], "/repo")
            mp = os.path.join("/verif/seeded", sid, "meta.json")
            if os.path.exists(mp):
                m = json.load(open(mp))
                head = run(["git", "-C", "/repo", "rev-parse", "--short", "HEAD"], "/repo")[1].strip()
                m["check_result_note"] = "patch no longer applies to /repo HEAD %s (the same lines were changed by a later fix); check_result is from the last HEAD it applied to" % head
                json.dump(m, open(mp, "w"), indent=1)
            print("PATCH NO LONGER APPLIES", sid)
            return 0
        claimed = [c["property_id"] for c in json.load(open("/verif/MANIFEST.json"))["checks"]]
        rc, out = run(["/verif/bin/gaeacheck", "-prop", ",".join(claimed), "-no-evidence"], "/verif")
        cur = None
        for line in out.splitlines():
            if line.startswith("gaeacheck property="):
                cur = line.split("property=")[1].split()[0]
            if line.startswith("FAILED-OBLIGATION") and cur:
                caught.setdefault(cur, []).append(line[:400])
        # the registered quick command of the targeted property (on refresh runs the exit status is derived from the
        # combined run above: 1 iff the target property reported a failed obligation)
        if skip_confirm:
            log["quick_cmd_exit"] = 1 if prop in caught else 0
        else:
            # same binary and arguments as ./check.sh <prop> quick, but without rewriting /verif/evidence from a patched tree
            rcq, outq = run(["/verif/bin/gaeacheck", "-prop", prop, "-tier", "quick", "-no-evidence"], "/verif")
            log["quick_cmd_exit"] = rcq
    finally:
        # --3way stages its result: unstage first, then restore the files
        run(["git", "-C", "/repo", "reset", "-q"], "/repo")
        run(["git", "-C", "/repo", "checkout", "--", "."], "/repo")
    log["caught_by"] = {k: v for k, v in caught.items()}
    log["caught"] = bool(caught)
    log["caught_by_target_property"] = prop in caught
    out_dir = os.path.join("/verif/seeded", sid)
    if log["confirmed"]:
        os.makedirs(out_dir, exist_ok=True)
        if os.path.abspath(sd) != os.path.abspath(out_dir):
            shutil.copy(patch, os.path.join(out_dir, "patch.diff"))
            for d in demos:
                shutil.copy(d, os.path.join(out_dir, os.path.basename(d)))
        m = dict(meta)
        m["seed_id"] = sid
        if skip_confirm and meta.get("confirmed_by_me"):
            m["confirmed_by_me"] = meta["confirmed_by_me"]
        else:
            m["confirmed_by_me"] = {k: log.get(k) for k in ("builds", "suite_passes_with_change", "demo_fails_with_change", "demo_passes_without_change")}
        m["what_i_ran"] = ["git apply patch.diff in a scratch worktree of /repo HEAD; go build ./...; python3 tools/suite.py <worktree> (1863 stable tests)",
                           demo_cmd + "  (with the change: fails; after git apply -R: passes)",
                           "git -C /repo apply patch.diff; ./check.sh %s quick and gaeacheck on every claimed property; git -C /repo checkout -- ." % prop]
        prev = {}
        try:
            prev = json.load(open(os.path.join(out_dir, "meta.json")))
        except Exception:
            pass
        m["check_result_at_arrival"] = prev.get("check_result_at_arrival") or prev.get("check_result") or None
        m["check_result"] = {"quick_cmd_exit": log.get("quick_cmd_exit"), "caught": log["caught"], "caught_by_target_property": log["caught_by_target_property"],
                             "failed_obligations": log["caught_by"]}
        if m["check_result_at_arrival"] is None:
            m["check_result_at_arrival"] = m["check_result"]
        json.dump(m, open(os.path.join(out_dir, "meta.json"), "w"), indent=1)
    print(json.dumps(log, indent=1))
    return 0

sys.exit(main())
