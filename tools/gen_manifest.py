#!/usr/bin/env python3
"""Generate /verif/MANIFEST.json from the table below and the list of properties the built checker registers
(`bin/gaeacheck -prop list`). A property of CLAIMS that the binary does not (yet) register is listed under
not_applicable with the reason 'engine not built yet'."""
import json, subprocess, os, sys

HERE = os.path.dirname(os.path.dirname(os.path.abspath(__file__)))

# id -> (technique, level text, level note, design ref)
CLAIMS = {
 "C01": ("def-use shape of every success return of the comparison route function (all tables / the key's table / makeList(first, idx+1) / makeList(idx, last+1)) + edge dominance (downward adjustment only on the op==LT edge and only under EqualStart) + tautology detection across siblings (no RangeShard.EqualStart may be `FindForKey(key) == index`) + constant table of inverseOperator, over SSA",
         "Decides only the shape of the pruning for a single comparison on the sharding column: which tables may be dropped and under which test. NOT decided: which interval a key value belongs to (range edges, calendar arithmetic, time zones), AND/OR/NOT composition of conditions, IN / BETWEEN lists, joins, ON conditions, and whether the non-tautological EqualStart test is itself exact.",
         "", "§4 C01 (history in §9)"),
 "C02": ("ordering/dominance of the merge pipeline in MergeSelectResult (concatenate, distinct, fold groups, sort, limit, trim; a failed step never falls through) + must-follow rule in HandleSelectStmt (functions that append helper columns are followed by the registration of aggregate mergers) + edge dominance for the LIMIT push-down (cleared under GroupBy != nil) + the first-of-several-results rule (PC5d), over SSA",
         "Decides the structure of the cross-shard merge only. NOT decided: the merged values (aggregate arithmetic, DISTINCT aggregates, NULL ordering, collations, decimal precision), UNION, joins, which queries are rejected. One structural clause is violated on the tree and recorded as a known finding (LIMIT pushed to the shards together with GROUP BY; a stable test pins the generated text).",
         "", "§4 C02 (history in §9)"),
 "C03": ("must-pass-through over the SSA CFG of the VALUES loop (R-path) + dominance of rejection calls",
         "Structural necessary condition only: no row of an INSERT ... VALUES list can take a path through the routing loop that neither places the row in a rewritten statement nor fails the statement; the shard-column rejections dominate SQL generation. Not a proof that the routed index equals the lookup index.",
         "SSA/CFG of proxy/plan is a faithful model of control flow; runtime panics are not modelled as exits.", "§4 C03"),
 "C04": ("def-use of the routed index list (all copies = unmodified Rule.GetSubTableIndexes(), one copy = one-element slice) + edge dominance / who-may-call per statement type at every generateShardingSQLs call site + error-edge must-pass in HandleInsertStmt + loop must-pass (every taken index files a statement) + cursor shape (HasNext/Next/GetCurrentTableIndex) + dominance of the schema rewrite by GetType()==\"global\" over SSA",
         "Decides the route structure only: which handler (all copies / one copy) each statement type goes through, that the all-copies route is the rule's full index list, that generateShardingSQLs emits one statement per routed index filed under that index's slice and database with the text restored before the cursor advances, and that the decorators write GetDatabaseNameByTableIndex(current index) for global rules. Not decided: which physical databases a layout configures, statements mixing global and sharded tables, aliases, the rewritten text.",
         "", "§4 C04 (history in §9)"),
 "C05": ("edge dominance + error-edge must-pass in the two shard-column rejection functions",
         "Decides only the rejection gate of the property's second sentence: an assignment whose column is the rule's sharding column reaches only error returns, inside the loop over all assignments, and these checks dominate SQL generation. That exactly the matching rows change and the affected-row count are row-level equivalence and are not decided.",
         "", "§4 C05 (history in §9)"),
 "C06": ("edge dominance on the fast-path gates (token pre-check result -> unshard plan)",
         "Decides only the gates: a table with a sharding rule makes the token pre-check answer 'not unsharded' on every path, and the unshard fast plan is chosen only on the pre-check's positive answer (or when the router has no rules). Whether the whitespace tokenizer sees every table the SQL grammar sees (letter case, comments glued to names, quoting) is a language-equivalence question and is not decided.",
         "", "§4 C06 (history in §9)"),
 "C07": ("effect analysis: writers of routing configuration (SSA stores/map updates rooted at protected types) must be unreachable in the VTA call graph from the session roots",
         "Decides 'planning never writes routing configuration shared between sessions' for every call path the VTA call graph admits; plan equality follows from absence of shared mutable state and is not separately checked.",
         "VTA call graph over-approximates dynamic calls (no reflection/unsafe dispatch in the analysed packages); writes through unsafe or reflection are not seen.", "§4 C07"),
 "C08": ("unit (dimension) analysis by def-use over SSA: the sequence whose elements enter Mycat's string hash / murmur hash is traced through every call site to utf16.Encode (Java chars), a []rune conversion or raw bytes; lengths feeding the relative hash-slice bounds must be lengths of the very sequence that is indexed",
         "Decides only the unit in which the key's characters are counted and indexed (UTF-16 code units as in Java, consistently between bound computation and indexing). NOT decided: the hash arithmetic itself, the partition tables (counts/lengths summing to 1024), PartitionByMod/Long on numeric keys, murmur seeds and bucket maps — all values.",
         "Java's String.length()/charAt() semantics (UTF-16 code units) are taken from the Java language specification.", "§4 C08 (history in §9)"),
 "C09": ("path-sensitive linear bounds prover over SSA for slice expressions on untrusted key strings",
         "Decides only 'a malformed calendar key cannot cause an out-of-range slice panic' in the three date-shard key parsers; interval arithmetic and placement are not covered.",
         "time.Format(\"2006-01-02\") yields at least 10 bytes (axiom).", "§4 C09"),
 "C10": ("agreement of two tables extracted from the code (validation's accepted rule types vs. the router's constructor switch)",
         "Decides 'every rule type the control plane's validation accepts has a constructor in the proxy router'. Value-level acceptance (locations, slices, names) is not covered.",
         "Tables are read from map literals and switch cases by constant evaluation; a table built at run time would make the rule UNDECIDED (fails).", "§4 C10"),
 "C11": ("edge dominance + must-pass-through in (*mysql.Conn).readHeaderFrom",
         "Decides 'every frame the reader accepts passed the sequence-id comparison and advanced the expected sequence exactly once'. Framing arithmetic over payload lengths is not covered.",
         "Single reader of 4-byte headers (who-may-call table).", "§4 C11"),
 "C12": ("path-sensitive linear bounds prover over SSA (index/slice/make obligations) with overflow side conditions, second pass GOARCH=386 in the thorough tier",
         "Decides the decoding half: every index and slice expression of the length-encoded decoders in mysql/encoding.go is proven in bounds from dominating comparisons for all inputs (any data, any pos >= 0, any size). The round-trip half is value equality and not covered.",
         "Preconditions 0 <= pos <= 2^62 and len(data) <= 2^62; prover is sound but incomplete (unproven = reported).", "§4 C12"),
 "C13": ("writer/reader table extraction from SSA (body selected by `type == K` for every Type* constant of package mysql, classified by what it appends / how it advances) and agreement of the two tables (mysql.AppendBinaryValue vs RowData.ParseBinary)",
         "Decides only the wire class per column type (1/2/4/8 fixed bytes, length-encoded string, self-length-prefixed temporal): a value written without the length prefix its reader expects, or with another width, shifts every later column. NOT decided: the value conversion itself (signedness, float precision, dates/times, decimals), the NULL-bitmap arithmetic, types only one of the two tables knows (listed as info).",
         "The repository's own binary-row reader (used for backend rows) is taken as the reference for the wire class of a type; for the classes involved it coincides with the MySQL protocol documentation.", "§4 C13 (history in §9)"),
 "C14": ("def-use provenance of CalcParams' results (offsets = result of a package-parser function, count = len of it, pieces cut at its elements) + edge dominance in that function (append only on token == paramMarker of a (*Scanner).scan result, recording that token's position) + constant agreement with the lexer's byte table (initTokenByte('?', paramMarker)) + nil-error dominance in handleStmtPrepare",
         "Agreement by construction: the placeholders reported are the parameter-marker tokens of the lexer the SQL grammar itself reads, so string literals, quoted identifiers and comments are handled exactly as the grammar handles them. A private scanner in CalcParams is reported. What the lexer accepts (its own correctness, sql_mode dependent lexing such as ANSI_QUOTES) is not examined; markers inside /*! */ version comments are refused by the code.",
         "", "§4 C14 (history in §9)"),
 "C15": ("writer/reader table agreement (dynamic types stored into Stmt.args vs the type switch of util.ItoString, read from SSA) + def-use and phi-edge analysis of the placeholder splice in GetRewriteSQL (escapeSQL(ItoString(arg)) on every path, quotes exactly on the quote edge) + constant agreement (escaped byte set contains the wrapping quote and the backslash, in both sql_mode branches) + data dependence of the escaping on the session's sql_mode from handleStmtExecute + def-use of the executed text",
         "Decides the shape of the splice only: no byte-carrying value is bound under a type the renderer leaves bare; everything written for a placeholder went through the escaping; the escaping covers the character the literal is wrapped in; the escaping depends on the session's sql_mode (which the client can change through the pass-through SET); the text executed is the rewritten one. NOT decided: that the produced literal denotes exactly the bound bytes (value-level: multi-byte character sets, NUL bytes, float formatting, NaN/Inf), nor backend-global sql_mode the proxy cannot see.",
         "", "§4 C15 (history in §9)"),
 "C16": ("must-pass-through (bind -> ResetParams on every exit, deferred or direct) + comma-ok lookup discipline on the statement map",
         "Decides 'a failed execution leaves no bound value behind' (every exit after binding passes ResetParams) and 'commands on unknown ids fail'. Long-data interleaving values are not covered.",
         "Writers of Stmt.args are the frozen who-may-write table.", "§4 C16"),
 "C17": ("error-edge must-pass + edge dominance + def-use in doMultiStmts",
         "Decides one clause only: the first failing statement stops execution, intermediate results are written only for pieces that succeeded, every piece goes through doQuery and the pieces are the splitter's result in order. Where statement boundaries lie (semicolons inside strings, identifiers, comments; empty statements) is a language question over all texts and is not decided.",
         "", "§4 C17 (history in §9)"),
 "C18": ("who-may-call tables + edge dominance + ownership typestate (pcflow) over SSA",
         "Structure only: a single acquisition layer, replicas unreachable inside a transaction, one master connection per slice stored under the slice key under txLock, commit/rollback drain exactly the transaction map. Backend transaction state and histories are not covered.",
         "Interface calls resolved by types; mocks excluded by file name.", "§4 C18"),
 "C19": ("ownership/typestate analysis of backend.PooledConnect values over SSA (acquire -> exactly one discharge on every path; release is last use; drain before replace; release implies unpin)",
         "Decides release-exactly-once on every CFG path of the session layer for every acquisition site, including error exits no test executes. Not value-sensitive on IsClosed(); goroutine leaks not covered.",
         "Explicit control flow only (runtime panics between acquire and deferred release are not exits); consumer functions are checked separately (PC2c).", "§4 C19"),
 "C20": ("edge dominance (client SQL only on initialised connections) + error-edge must-pass (failed SET closes or rewrites the cached belief)",
         "Decides that every client statement is dominated by a successful initBackendConn on the same connection and that a failed SET statement cannot leave a wrong cached belief on a pooled connection. SET text content and set algebra are not covered.",
         "Constant-SQL control statements are exempt by an explicit list.", "§4 C20"),
 "C21": ("table extraction by constant propagation (Preview keyword table x deny predicate) + call-graph gate dominance",
         "Decides that each write-class keyword of the property text maps to a statement type the deny predicate rejects for a read-only user, and that the check dominates every route from a client command to a backend. Statements hidden in version comments/CTEs are not covered.",
         "Keyword table read from parser.Preview's switch; unknown shapes are UNDECIDED (fail).", "§4 C21"),
 "C22": ("who-may-call + edge dominance",
         "Decides 'inside a transaction every statement runs on the master' (with C18 rules) and 'only SELECT/SHOW can be flagged for replicas'. Lexical detection of locking reads/hints is not covered.",
         "", "§4 C22"),
 "C23": ("edge dominance + who-may-write table on ksConns + drain-before-replace typestate",
         "Decides that keep-session connections are created only on a map miss and stored under the slice key, that only the listed functions unpin, and that unpinning closes and releases every pinned connection.", "", "§4 C23"),
 "C24": ("release-is-last-use typestate + linear effect conservation over every acyclic CFG path of the ResourcePool methods",
         "Decides the quiescent accounting clause (idle + in-use = capacity; available = idle slots) for every completed operation on every path, hence for every interleaving of completed operations, and that the release protocol never creates two holders. Races between operations in progress are not covered.",
         "Channel/atomic operations are atomic; effects summarised per callee with inlining depth 3.", "§4 C24"),
 "C25": ("edge dominance + loop-bound recognition + who-may-write on the balancer cursor",
         "Decides 'a replica marked down is never handed out by the selector' and that every queue position is tried. Weight proportions and datacenter policy are arithmetic and not covered.", "", "§4 C25"),
 "C26": ("who-may-call + edge dominance + lock-held analysis",
         "Decides 'other errors never count', 'a disabled breaker never fires' and race-freedom of the window state; the window arithmetic is not covered.", "", "§4 C26"),
 "C27": ("edge dominance of SetStatusUp by AllowRecovery() + dispatch domination + must-pass UpdateFuseTime",
         "Decides the gate: a replica with a recovery strategy is marked up only behind strategy.AllowRecovery(), and every fuse records its time. Cool-down arithmetic is not covered.", "", "§4 C27"),
 "C28": ("who-may-call/who-may-write tables + edge dominance + must-pass on trigger edges",
         "Decides 'no other event changes a node's status' and 'up only after a successful probe; the stated triggers always mark down'. Elapsed-time and lag values are not covered.", "", "§4 C28"),
 "C29": ("def-use shape analysis of the credential key (injective struct key vs string concatenation, interprocedural through the key constructor) + edge dominance in ClearNamespaceUsers + sibling agreement insert/lookup + phi-edge pairing in handleHandshakeResponse + wrapper forwarding + who-may-edit (fresh clone) over SSA",
         "Decides the structure of the credential index only: injective key built the same way at insert and lookup, edits confined to `stored namespace == namespace being cleared` and to the iterated key's own components, rebuild = clear own name then add, Check*Password returns the matched element of users[user], Manager wrappers forward unchanged, the session is bound to GetNamespaceByUser(user, matched password), UserManagers are edited only as fresh clones. Not decided: the scramble arithmetic (C30), histories interleaving reloads with handshakes, duplicate (user,password) pairs across namespaces (excluded by the property's own assumption).",
         "The property's assumption (passwords unique per user name) is taken as given.", "§4 C29 (history in §9)"),
 "C30": ("edge dominance of every accepting return by a full bytes.Equal between the response parameter and the scramble call on (salt parameter, candidate of users[user]) + parameter-immutability (no store/copy/append through a slice parameter, module callees followed) over SSA",
         "Decides only the shape of the acceptance test: which values are compared (this handshake's response and salt, the candidate password), that the comparison is a whole-slice equality, that hashed candidates carry the '*' prefix, and that no check overwrites the response or the salt it shares with the other checks. The SHA1/SHA256 scramble arithmetic, i.e. equality with MySQL's algorithms for all salts and passwords, is a value property and is NOT decided.",
         "Standard-library hash and bytes functions are assumed not to write their arguments.", "§4 C30 (history in §9)"),
 "C31": ("edge dominance + must-pass-through on the prepare/commit gates of the two-slot reload, who-may-write on the slot switch",
         "Decides only the gates: a commit fails without a pending prepare and switches the slot only after consuming it; a prepare always parks a configuration rebuilt from the configuration it was given and sets the prepared flag; the active slot changes only in commit/delete; whoever else overwrites the inactive slot invalidates a pending prepare. The interleaving statement of the property (all histories of prepare/commit/delete, one complete generation per session) is not decided.",
         "", "§4 C31 / §9"),
 "C36": ("def-use agreement between the text that is fingerprinted into the request context's memo and the text handed to doQuery (sameVal at every set-then-run site) + sibling agreement of the normaliser composition GetMd5(GetFingerprint(text)) on the blacklist side and the request side + edge dominance of checkSQLAllowed's success return, over SSA",
         "Decides which text is fingerprinted, by which composition, and that a hit fails the statement. NOT decided: that mysql.GetFingerprint ignores exactly literal values, whitespace, keyword case and comments and nothing else — a property of a 700-line hand-written normaliser over all statement texts (language-level).",
         "", "§4 C36 (history in §9)"),
 "C37": ("who-may-touch on the wheel state + must-pass-through (replace on re-registration, fire once then forget, refresh on every command, removal on exit)",
         "Decides the structure of the idle timer: wheel state only on the wheel goroutine, re-registration replaces the older entry, removal clears both maps, a fired entry is forgotten, callbacks start only when the rounds are exhausted, every command records activity and the session's exit removes it from the timer. Tick/round arithmetic ('no earlier than the timeout, no later than one tick') and refreshes dropped by a full pipeline are not decided.",
         "", "§4 C37 / §9"),
 "C32": ("must-pass-through from the store-update success edge to every failure exit + call-graph containment",
         "Decides that every failure exit after the store was changed passes the store rollback, and whether proxies are compensated after a partial commit. Timeouts/retries and concurrent changes are not covered.", "", "§4 C32"),
 "C33": ("taint analysis over SSA def-use: string parameters -> safeJoinPath (sanitizer) -> os file sinks",
         "Decides the confinement clause: every path argument of an os file operation in models.LocalClient is built only from the storage directory, confined directory entries and results of safeJoinPath. Correctness of safeJoinPath itself, symlinks and the encryption round trip are not covered.", "", "§4 C33"),
 "C34": ("lock-held analysis + dropped-error rule on the block fetch",
         "Decides that the cached block is only touched under the lock and that no error of the block fetch is discarded before curr/max are stored. Cross-proxy uniqueness is a database-side property and not covered.", "", "§4 C34"),
 "C35": ("edge dominance of the handshake acknowledgement by the allow-list and credential checks + def-use",
         "Decides the gate: the OK acknowledgement and the session loop are dominated by IsAllowConnect()==true and a successful password check. The address matching itself is value-level and not covered.", "", "§4 C35"),
 "C38": ("call-graph reachability of go statements from the session root + recover-protection recognition",
         "Decides the containment clause: every goroutine reachable from a client session is panic-confined (recover-protected or harmless by table), and the session loop's recover dominates all client-byte handling. Hangs, memory exhaustion and fatal errors are not covered.", "VTA call graph.", "§4 C38"),
 "C39": ("must-pass-through from Execute success to a MoreRowsExist/drain consultation on every result-returning path",
         "Decides that a truncated backend read (16 MiB cut) is never handed on as a complete result. Row-limit comparisons and sizes are not covered.", "", "§4 C39"),
}

NA = {
}

# properties whose check exits 0 on the current tree (rules built, findings triaged: fixed or listed as known)
READY = set(open(os.path.join(HERE, "tools", "ready.txt")).read().split())

def main():
    env = dict(os.environ, GOFLAGS="-mod=mod", GOPROXY="off", GOSUMDB="off", GOTOOLCHAIN="local")
    built = set()
    b = os.path.join(HERE, "bin", "gaeacheck")
    if os.path.exists(b):
        built = set(subprocess.run([b, "-prop", "list"], capture_output=True, text=True, env=env).stdout.split())
    checks, na = [], []
    for pid in sorted(set(CLAIMS) | set(NA)):
        if pid in CLAIMS and pid in built and pid in READY:
            tech, text, note, ref = CLAIMS[pid]
            checks.append({
                "property_id": pid,
                "quick_cmd": "./check.sh %s quick" % pid,
                "thorough_cmd": "./check.sh %s thorough" % pid,
                "evidence_file": "evidence/%s.json" % pid,
                "replay_cmd_template": "./check.sh --replay {path}",
                "engine": "gaeacheck",
                "level_claimed": {"category": "other", "text": text, "design_ref": "DESIGN.md " + ref},
                "level_note": (note + " " if note else "") + "Static analysis of the type-checked SSA form of /repo's current source (go/packages + go/ssa, x/tools v0.29.0); nothing is executed. Known findings are listed in known_findings.txt.",
                "technique": "static analysis: " + tech,
            })
        elif pid in CLAIMS:
            na.append({"property_id": pid, "reason": "static engine for this property is designed (DESIGN.md %s) but not built yet; not claimed until it is" % CLAIMS[pid][3]})
        else:
            na.append({"property_id": pid, "reason": "static analysis cannot decide it: " + NA[pid]})
    m = {
        "version": 1,
        "setup_cmd": "cd gaeacheck && GOFLAGS=-mod=mod GOPROXY=off GOSUMDB=off GOTOOLCHAIN=local go build -o ../bin/gaeacheck .",
        "hooks": {"guard": "verif", "enable": "none: the analysis needs no hooks; /repo is analysed as it is (build tag 'verif' is unused)",
                  "baseline_off_cmd": "python3 tools/suite.py /repo", "source_commits": [], "add_only": True},
        "engines": [{"name": "gaeacheck", "path": "gaeacheck/", "serves_properties": sorted(c["property_id"] for c in checks),
                     "kind_free_text": "repository-specific static analyser (Go, go/packages + go/ssa + VTA call graph): must-pass-through, edge dominance, who-may-call tables, typestate/ownership, effect reachability, table extraction, bounds prover"}],
        "checks": checks,
        "not_applicable": na,
        "notes": "Technique family: static analysis only. Every check re-analyses /repo's working tree; verdicts are per rule instance (rule|function|construct). See DESIGN.md.",
    }
    json.dump(m, open(os.path.join(HERE, "MANIFEST.json"), "w"), indent=1)
    print("claimed:", [c["property_id"] for c in checks])
    print("not applicable:", len(na))

main()
