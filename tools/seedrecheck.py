#!/usr/bin/env python3
# seedrecheck.py <worktree> <seed-id>... : apply each stored seed to the worktree, run ALL properties that failed before (or the target), report regressions
import json,subprocess,sys,os,ast
wt=sys.argv[1]
BIN=os.environ.get('BIN','/verif/bin/gaeacheck')
env=dict(os.environ,GOFLAGS='-mod=mod',GOPROXY='off',GOSUMDB='off',GOTOOLCHAIN='local')
env.pop('GOWORK',None)
def sh(cmd,**kw): return subprocess.run(cmd,shell=True,cwd=wt,capture_output=True,text=True,env=env,**kw)
for sid in sys.argv[2:]:
    d=f'/verif/seeded/{sid}'
    m=json.load(open(d+'/meta.json'))
    cr=m.get('check_result')
    if isinstance(cr,str):
        try: cr=ast.literal_eval(cr)
        except Exception: cr={}
    was=bool(cr.get('caught'))
    props=set(cr.get('failed_obligations',{}).keys())|{m['property']}
    sh('git checkout -q -- . ; git reset -q')
    r=sh(f'git apply {d}/patch.diff')
    if r.returncode!=0:
        r=sh(f'git apply --3way {d}/patch.diff')
        if r.returncode!=0:
            print(sid,'NOAPPLY was_caught=',was); sh('git checkout -q -- . ; git reset -q'); continue
    out=sh(f"{BIN} -prop {','.join(sorted(props))} -repo {wt} -verif /tmp/sv/vtmp -no-evidence").stdout
    failed=[l for l in out.splitlines() if l.startswith('FAILED-OBLIGATION')]
    now=len(failed)>0
    tag='same' if now==was else ('LOST' if was and not now else 'GAINED')
    print(sid,tag,'was=',was,'now=',now,flush=True)
    sh('git checkout -q -- . ; git reset -q')
