#!/bin/bash
# run every claimed property on a clean tree (default: a scratch worktree of /repo HEAD) and list anything that fails
REPO="${1:-/tmp/sv/dev}"
P=$(python3 -c "import json;print(','.join(c['property_id'] for c in json.load(open('/verif/MANIFEST.json'))['checks']))")
/verif/bin/gaeacheck -prop "$P" -repo "$REPO" -no-evidence | grep "^summary\|FAILED-OBLIGATION" | grep -v "violations=0" | cut -c1-220
echo "allcheck done"
