#!/usr/bin/env python3
"""Print the DESIGN §10 table from /verif/seeded/*/meta.json and tools/seed_arrival.json."""
import json, glob, os
arr = json.load(open('/verif/tools/seed_arrival.json'))
rows = []
for m in sorted(glob.glob('/verif/seeded/*/meta.json')):
    j = json.load(open(m))
    sid = j.get('seed_id') or os.path.basename(os.path.dirname(m))
    cr = j.get('check_result', {})
    rules = sorted({l.split(') ')[1].split(' ')[0] for v in cr.get('failed_obligations', {}).values() for l in v if ') ' in l})
    a = arr.get(sid, ['?', ''])
    summ = (j.get('summary') or '').replace('\n', ' ').replace('|', '/')
    if len(summ) > 150: summ = summ[:147] + '...'
    rows.append((sid, j.get('property'), summ, a[0], ', '.join(rules) if rules else '—', a[1]))
print('| seed | property | change | arrival | failing rules now | note |')
print('|---|---|---|---|---|---|')
for r in rows:
    print('| %s | %s | %s | %s | %s | %s |' % r)
n = len(rows); d = sum(1 for r in rows if r[3] == 'D'); s = sum(1 for r in rows if r[3] == 'S'); mm = sum(1 for r in rows if r[3] == 'M')
now = sum(1 for r in rows if r[4] != '—')
print()
print('%d confirmed seeds: %d caught on arrival by an existing rule (D), %d caught after strengthening (S), %d not caught (M); caught by the current checks: %d.' % (n, d, s, mm, now))

# --- insert into DESIGN.md between the markers
import io, re, sys
if '--write' in sys.argv:
    out = io.StringIO()
    out.write('| seed | property | change | arrival | failing rules now | note |\n|---|---|---|---|---|---|\n')
    for r in rows:
        out.write('| %s | %s | %s | %s | %s | %s |\n' % r)
    out.write('\n%d confirmed seeds: %d caught on arrival by an existing rule (D), %d caught after strengthening (S), %d not caught (M); reported by the current checks: %d.\n' % (n, d, s, mm, now))
    p = '/verif/DESIGN.md'
    t = open(p).read()
    t = re.sub(r'<!-- SEEDTABLE-BEGIN -->.*<!-- SEEDTABLE-END -->', lambda m: '<!-- SEEDTABLE-BEGIN -->\n' + out.getvalue() + '<!-- SEEDTABLE-END -->', t, flags=re.S)
    open(p, 'w').write(t)
