#!/bin/bash
# check.sh <Cnn> [quick|thorough]   — decide one property by static analysis of /repo's current working tree.
# exit 0: property clause(s) hold on everything analysed (known findings are printed as KNOWN-FINDING lines)
# exit 1: VIOLATION line(s) printed.
set -u
HERE="$(cd "$(dirname "$0")" && pwd)"
export GOFLAGS=-mod=mod GOPROXY=off GOSUMDB=off GOTOOLCHAIN=local
unset GOWORK
PROP="${1:?property id}"
TIER="${2:-${VERIF_TIER:-quick}}"
REPO="${GAEA_REPO:-/repo}"
BIN="$HERE/bin/gaeacheck"
need_build=0
if [ ! -x "$BIN" ]; then need_build=1; else
  if [ -n "$(find "$HERE/gaeacheck" -name '*.go' -newer "$BIN" -print -quit)" ] || [ "$HERE/gaeacheck/go.mod" -nt "$BIN" ]; then need_build=1; fi
fi
if [ $need_build = 1 ]; then
  mkdir -p "$HERE/bin"
  (cd "$HERE/gaeacheck" && go build -o "$BIN" .) || { echo "VIOLATION property=$PROP replay=$HERE/replay/build-failed"; exit 1; }
fi
if [ "$PROP" = "--replay" ]; then
  # replay: re-analyse the property of the stored obligation on the current tree and show that obligation's verdict
  F="${2:?replay file}"
  P=$(python3 -c "import json,sys;print(json.load(open(sys.argv[1]))['property'])" "$F")
  K=$(python3 -c "import json,sys;o=json.load(open(sys.argv[1]))['obligation'];print(o['rule']+' '*max(1,11-len(o['rule']))+o['func']+' :: '+o['construct'])" "$F")
  OUT=$("$BIN" -prop "$P" -tier quick -repo "$REPO" -verif "$HERE" -no-evidence)
  if echo "$OUT" | grep -F -- "$K" ; then
    echo "$OUT" | grep -F -A12 "FAILED-OBLIGATION" | grep -F -A12 -- "$(python3 -c "import json,sys;o=json.load(open(sys.argv[1]))['obligation'];print('['+o['construct']+']')" "$F")" || true
  else
    echo "the stored obligation ($K) does not exist on the current tree (the construct is gone or renamed)"
  fi
  exit 0
fi
exec "$BIN" -prop "$PROP" -tier "$TIER" -repo "$REPO" -verif "$HERE"
