package server

import (
	"bufio"
	"encoding/binary"
	"io"
	"net"
	"testing"
	"time"

	"github.com/XiaoMi/Gaea/backend"
	"github.com/XiaoMi/Gaea/mysql"
	"github.com/XiaoMi/Gaea/parser"
	"github.com/XiaoMi/Gaea/util"
)

// ---- a tiny fake MySQL server: handshake, COM_INIT_DB / SET -> OK, SELECT -> rowCount rows of rowSize bytes ----

const (
	bigResultRowCount = 300
	bigResultRowSize  = 64 * 1024 // 300 * 64KiB = 18.75MiB > mysql.MaxPayloadLen (16MiB cut in readResultRows)
)

func fakeMySQLPacket(seq *uint8, payload []byte) []byte {
	b := make([]byte, 4+len(payload))
	b[0], b[1], b[2], b[3] = byte(len(payload)), byte(len(payload)>>8), byte(len(payload)>>16), *seq
	*seq++
	copy(b[4:], payload)
	return b
}

func fakeMySQLReadPacket(r io.Reader) ([]byte, error) {
	var h [4]byte
	if _, err := io.ReadFull(r, h[:]); err != nil {
		return nil, err
	}
	p := make([]byte, int(h[0])|int(h[1])<<8|int(h[2])<<16)
	_, err := io.ReadFull(r, p)
	return p, err
}

func lenencStr(s string) []byte { return append([]byte{byte(len(s))}, s...) }

func serveFakeMySQL(c net.Conn) {
	defer c.Close()
	r := bufio.NewReader(c)
	w := bufio.NewWriterSize(c, 1<<20)
	okPayload := []byte{0x00, 0, 0, 0x02, 0x00, 0, 0} // OK, status = autocommit
	eofPayload := []byte{0xfe, 0, 0, 0x02, 0x00}

	// handshake v10
	caps := uint32(mysql.ClientLongPassword | mysql.ClientLongFlag | mysql.ClientConnectWithDB | mysql.ClientProtocol41 |
		mysql.ClientTransactions | mysql.ClientSecureConnection | mysql.ClientPluginAuth)
	hs := []byte{10}
	hs = append(hs, "5.7.25-fake\x00"...)
	hs = append(hs, 1, 0, 0, 0)    // connection id
	hs = append(hs, "12345678"...) // salt part 1
	hs = append(hs, 0)             // filler
	hs = append(hs, byte(caps), byte(caps>>8))
	hs = append(hs, 33, 0x02, 0x00) // charset, status autocommit
	hs = append(hs, byte(caps>>16), byte(caps>>24))
	hs = append(hs, 21)                    // auth data len
	hs = append(hs, make([]byte, 10)...)   // reserved
	hs = append(hs, "123456789012\x00"...) // salt part 2
	hs = append(hs, "mysql_native_password\x00"...)
	seq := uint8(0)
	w.Write(fakeMySQLPacket(&seq, hs))
	w.Flush()
	if _, err := fakeMySQLReadPacket(r); err != nil { // handshake response
		return
	}
	seq = 2
	w.Write(fakeMySQLPacket(&seq, okPayload))
	w.Flush()

	row := make([]byte, 0, 4+bigResultRowSize)
	n := bigResultRowSize
	row = append(row, 0xfd, byte(n), byte(n>>8), byte(n>>16))
	row = append(row, make([]byte, bigResultRowSize)...)
	for i := 4; i < len(row); i++ {
		row[i] = 'x'
	}

	for {
		cmd, err := fakeMySQLReadPacket(r)
		if err != nil || len(cmd) == 0 || cmd[0] == mysql.ComQuit {
			return
		}
		seq = 1
		isSelect := cmd[0] == mysql.ComQuery && len(cmd) > 7 && (string(cmd[1:7]) == "SELECT" || string(cmd[1:7]) == "select")
		if !isSelect {
			w.Write(fakeMySQLPacket(&seq, okPayload))
			w.Flush()
			continue
		}
		w.Write(fakeMySQLPacket(&seq, []byte{1})) // column count
		col := lenencStr("def")
		col = append(col, lenencStr("db")...)
		col = append(col, lenencStr("t")...)
		col = append(col, lenencStr("t")...)
		col = append(col, lenencStr("v")...)
		col = append(col, lenencStr("v")...)
		col = append(col, 0x0c, 33, 0)
		lenb := make([]byte, 4)
		binary.LittleEndian.PutUint32(lenb, 1<<24)
		col = append(col, lenb...)
		col = append(col, mysql.TypeVarString, 0, 0, 0, 0, 0)
		w.Write(fakeMySQLPacket(&seq, col))
		w.Write(fakeMySQLPacket(&seq, eofPayload))
		for i := 0; i < bigResultRowCount; i++ {
			w.Write(fakeMySQLPacket(&seq, row))
		}
		w.Write(fakeMySQLPacket(&seq, eofPayload))
		if err := w.Flush(); err != nil {
			return
		}
	}
}

// Sharded path (ExecuteSQLs -> executeShardSQLInSlice -> executeMultipleSQLInSlice -> executeSingleSQLInSlice)
// over a REAL backend connection pool / DirectConnection talking to the fake server above.
// The shard returns 300 rows (18.75MiB). The caller must get all 300 rows (or an error) — never a
// silently truncated result.
func TestExecuteSQLsShardResultLargerThan16MiBNotTruncated(t *testing.T) {
	ln, err := net.Listen("tcp", "127.0.0.1:0")
	if err != nil {
		t.Fatal(err)
	}
	defer ln.Close()
	go func() {
		for {
			c, err := ln.Accept()
			if err != nil {
				return
			}
			go serveFakeMySQL(c)
		}
	}()

	se, err := prepareSessionExecutor()
	if err != nil {
		t.Fatal("prepare session executer error:", err)
	}
	se.session.proxy.ServerVersionCompareStatus = util.NewVersionCompareStatus("")
	se.session.c = &ClientConn{Conn: &mysql.Conn{}} // the backend slow-sql log line reads the client connection id

	pool := backend.NewConnectionPool(ln.Addr().String(), "u", "p", "", 1, 1, time.Hour, "utf8", mysql.CharsetIds["utf8"], 0, "", "", 2*time.Second)
	if err := pool.Open(); err != nil {
		t.Fatal(err)
	}
	defer pool.Close()

	slice := se.manager.GetNamespace("test_executor_namespace").slices["slice-0"]
	oldMaster, oldSlave := slice.Master, slice.Slave
	defer func() { slice.Master, slice.Slave = oldMaster, oldSlave }()
	slice.Master = &backend.DBInfo{Nodes: []*backend.NodeInfo{{Address: ln.Addr().String(), ConnPool: pool, Status: backend.StatusUp}}}
	slice.Slave = &backend.DBInfo{}

	reqCtx := util.NewRequestContext()
	reqCtx.SetStmtType(parser.StmtSelect)
	reqCtx.SetFromSlave(false)

	sqls := map[string]map[string][]string{
		"slice-0": {"db_mycat_0": {"SELECT v FROM `tbl_mycat`"}},
	}
	if se.GetNamespace().GetMaxResultSize() > 0 && se.GetNamespace().GetMaxResultSize() <= bigResultRowCount {
		t.Fatalf("test setup: max result size %d too small", se.GetNamespace().GetMaxResultSize())
	}

	rs, err := se.ExecuteSQLs(reqCtx, sqls)
	if err != nil {
		t.Logf("ExecuteSQLs returned an error (acceptable, not silent): %v", err)
		return
	}
	if len(rs) != 1 || rs[0] == nil || rs[0].Resultset == nil {
		t.Fatalf("unexpected result: %v", rs)
	}
	if got := len(rs[0].Values); got != bigResultRowCount {
		t.Fatalf("sharded result silently truncated: got %d of %d rows from the shard (cut at ~16MiB)", got, bigResultRowCount)
	}
}
