package parser

import (
	"testing"
	"time"
)

// A statement text containing a byte the lexer has no token for (NUL) must be refused, not scanned forever.
func TestFindingNulByteDoesNotHang(t *testing.T) {
	for name, f := range map[string]func(){
		"SplitStatementToPieces": func() { SplitStatementToPieces("select 1;select 2\x00;x") },
		"ParamMarkerOffsets":     func() { ParamMarkerOffsets("select ?\x00 from t") },
	} {
		done := make(chan struct{})
		go func() { f(); close(done) }()
		select {
		case <-done:
		case <-time.After(3 * time.Second):
			t.Errorf("%s does not return for a text with a NUL byte (spins forever)", name)
		}
	}
}
