package mysql

import (
	"math"
	"testing"
)

// noPanic runs f and reports a test failure (instead of crashing the test
// binary) when the decoder panics on hostile input.
func noPanic(t *testing.T, name string, f func() bool) {
	t.Helper()
	t.Run(name, func(t *testing.T) {
		defer func() {
			if r := recover(); r != nil {
				t.Fatalf("decoder panicked on malformed input: %v", r)
			}
		}()
		if ok := f(); ok {
			t.Fatalf("decoder returned ok=true for malformed input")
		}
	})
}

func TestDemoC1DecodersOutOfBounds(t *testing.T) {
	data := []byte{1, 2, 3, 4, 5, 6, 7, 8}

	// size < 0: the client controlled lenenc int 0xffffffffffffffff converted with int().
	neg := uint64(math.MaxUint64)
	noPanic(t, "ReadBytes/negative-size", func() bool {
		_, _, ok := ReadBytes(data, 5, int(neg))
		return ok
	})
	noPanic(t, "ReadBytesCopy/negative-size", func() bool {
		_, _, ok := ReadBytesCopy(data, 5, int(neg))
		return ok
	})
	// pos+size overflows int.
	noPanic(t, "ReadBytes/overflow", func() bool {
		_, _, ok := ReadBytes(data, 5, math.MaxInt64)
		return ok
	})
	noPanic(t, "ReadBytesCopy/overflow", func() bool {
		_, _, ok := ReadBytesCopy(data, 5, math.MaxInt64)
		return ok
	})

	// length prefix fe ff ff ff ff ff ff ff ff followed by some payload.
	lenenc := []byte{0xfe, 0xff, 0xff, 0xff, 0xff, 0xff, 0xff, 0xff, 0xff, 'a', 'b', 'c'}
	noPanic(t, "readLenEncString/negative-size", func() bool {
		_, _, ok := readLenEncString(lenenc, 0)
		return ok
	})
	noPanic(t, "skipLenEncString/negative-size", func() bool {
		_, ok := skipLenEncString(lenenc, 0)
		return ok
	})
	noPanic(t, "ReadLenEncStringAsBytes/negative-size", func() bool {
		_, _, _, ok := ReadLenEncStringAsBytes(lenenc, 0)
		return ok
	})
	// length prefix 0x7fffffffffffffff: pos+s-1 overflows.
	lenencMax := []byte{0xfe, 0xff, 0xff, 0xff, 0xff, 0xff, 0xff, 0xff, 0x7f, 'a', 'b', 'c'}
	noPanic(t, "readLenEncString/overflow", func() bool {
		_, _, ok := readLenEncString(lenencMax, 0)
		return ok
	})
	noPanic(t, "skipLenEncString/overflow", func() bool {
		_, ok := skipLenEncString(lenencMax, 0)
		return ok
	})
	noPanic(t, "ReadLenEncStringAsBytes/overflow", func() bool {
		_, _, _, ok := ReadLenEncStringAsBytes(lenencMax, 0)
		return ok
	})

	// Handshake response shorter than its fixed header: capability(4) +
	// maxPacketSize(4) + charset(1) = 9 bytes, then pos += 23 => pos = 32.
	short := make([]byte, 9)
	noPanic(t, "ReadNullString/pos-beyond-end", func() bool {
		_, _, ok := ReadNullString(short, 9+23)
		return ok
	})
	noPanic(t, "ReadNullByte/pos-beyond-end", func() bool {
		_, _, ok := ReadNullByte(short, 9+23)
		return ok
	})
}

// Well-formed inputs at the boundaries must keep decoding exactly as before.
func TestDemoC1DecodersBoundariesStillOK(t *testing.T) {
	data := []byte{1, 2, 3, 0}
	if b, pos, ok := ReadBytes(data, 1, 3); !ok || pos != 4 || len(b) != 3 {
		t.Fatalf("ReadBytes to end: %v %v %v", b, pos, ok)
	}
	if b, pos, ok := ReadBytes(data, 4, 0); !ok || pos != 4 || len(b) != 0 {
		t.Fatalf("ReadBytes empty at end: %v %v %v", b, pos, ok)
	}
	if b, pos, ok := ReadBytesCopy(data, 0, 4); !ok || pos != 4 || len(b) != 4 {
		t.Fatalf("ReadBytesCopy whole: %v %v %v", b, pos, ok)
	}
	if _, _, ok := ReadBytes(data, 2, 3); ok {
		t.Fatalf("ReadBytes past end must fail")
	}
	if s, pos, ok := ReadNullString(data, 0); !ok || pos != 4 || s != "\x01\x02\x03" {
		t.Fatalf("ReadNullString: %q %v %v", s, pos, ok)
	}
	if _, _, ok := ReadNullString(data, 4); ok {
		t.Fatalf("ReadNullString at end must fail")
	}
	le := []byte{3, 'a', 'b', 'c'}
	if s, pos, ok := readLenEncString(le, 0); !ok || pos != 4 || s != "abc" {
		t.Fatalf("readLenEncString: %q %v %v", s, pos, ok)
	}
	if pos, ok := skipLenEncString(le, 0); !ok || pos != 4 {
		t.Fatalf("skipLenEncString: %v %v", pos, ok)
	}
	if b, pos, _, ok := ReadLenEncStringAsBytes([]byte{0}, 0); !ok || pos != 1 || len(b) != 0 {
		t.Fatalf("ReadLenEncStringAsBytes empty: %v %v %v", b, pos, ok)
	}
	if _, _, _, ok := ReadLenEncStringAsBytes([]byte{4, 'a', 'b', 'c'}, 0); ok {
		t.Fatalf("ReadLenEncStringAsBytes truncated must fail")
	}
}
