package server

import (
	"testing"

	"github.com/XiaoMi/Gaea/parser"
	"github.com/XiaoMi/Gaea/parser/ast"
)

type markerCounter struct{ offsets []int }

func (m *markerCounter) Enter(n ast.Node) (ast.Node, bool) {
	if p, ok := n.(ast.ParamMarkerExpr); ok {
		_ = p
		m.offsets = append(m.offsets, 1)
	}
	return n, false
}
func (m *markerCounter) Leave(n ast.Node) (ast.Node, bool) { return n, true }

// The parameter count reported for a prepared statement must equal the parameter markers of the SQL grammar.
func TestFindingC14ParamsMatchGrammar(t *testing.T) {
	for _, sql := range []string{
		"select * from t where a = ? and b = ?",
		"select `a?b` from t where c = ?",
		"select 1 from t where c = ? -- really?\n and d = ?",
		"select 1 from t where c = ? # what?\n and d = 1",
		"select /* ? */ 1 from t where c = ?",
		`select * from t where a = 'it\'s ?' and b = ?`,
		`select * from t where a = 'it''s ?' and b = ?`,
		`select * from t where a = "say \"?\"" and b = ?`,
		`select * from t where a = '\\' and b = ?`,
	} {
		stmt, err := parser.New().ParseOneStmt(sql, "", "")
		if err != nil {
			t.Fatalf("%q: grammar rejects the test text: %v", sql, err)
		}
		mc := &markerCounter{}
		stmt.Accept(mc)
		count, _, _, err := CalcParams(sql)
		if err != nil {
			t.Errorf("%q: CalcParams fails (%v); the grammar sees %d parameter markers", sql, err, len(mc.offsets))
			continue
		}
		if count != len(mc.offsets) {
			t.Errorf("%q: CalcParams reports %d parameters, the grammar has %d", sql, count, len(mc.offsets))
		}
	}
}
