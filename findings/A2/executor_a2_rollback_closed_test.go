package server

import (
	"context"
	"errors"
	"testing"

	"github.com/XiaoMi/Gaea/backend"
	"github.com/XiaoMi/Gaea/mysql"
	"github.com/XiaoMi/Gaea/util"
)

// a2Pool is a token-counting stand-in for a backend connection pool: every Get
// takes one slot, every Put (reached through PooledConnect.Recycle) gives one back.
type a2Pool struct {
	backend.ConnectionPool
	conn *a2Conn
	gets int
	puts int
}

func (p *a2Pool) Get(ctx context.Context) (backend.PooledConnect, error) {
	p.gets++
	return p.conn, nil
}
func (p *a2Pool) Put(pc backend.PooledConnect) { p.puts++ }
func (p *a2Pool) Close()                       {}

// a2Conn mimics pooledConnectImpl: Recycle hands the connection (or nil when closed) to its pool.
// With execErr set, Execute behaves like a backend write hitting a broken pipe: the
// connection closes itself and the error is returned.
type a2Conn struct {
	backend.PooledConnect
	addr      string
	pool      *a2Pool
	closed    bool
	execErr   error
	rollbacks int
}

func (c *a2Conn) Recycle() {
	if c.closed {
		c.pool.Put(nil)
		return
	}
	c.pool.Put(c)
}
func (c *a2Conn) Close()                    { c.closed = true }
func (c *a2Conn) IsClosed() bool            { return c.closed }
func (c *a2Conn) GetAddr() string           { return c.addr }
func (c *a2Conn) GetConnectionID() int64    { return 1 }
func (c *a2Conn) MoreRowsExist() bool       { return false }
func (c *a2Conn) MoreResultsExist() bool    { return false }
func (c *a2Conn) Begin() error              { return nil }
func (c *a2Conn) SetAutoCommit(uint8) error { return nil }
func (c *a2Conn) UseDB(string) error        { return nil }
func (c *a2Conn) Rollback() error           { c.rollbacks++; return nil }
func (c *a2Conn) SyncSessionVariables(*mysql.SessionVariables) error {
	return nil
}
func (c *a2Conn) SetCharset(string, mysql.CollationID) (bool, error) { return false, nil }
func (c *a2Conn) SetSessionVariables(*mysql.SessionVariables) (bool, error) {
	return false, nil
}
func (c *a2Conn) Execute(sql string, maxRows int) (*mysql.Result, error) {
	if c.execErr != nil {
		c.Close()
		return nil, c.execErr
	}
	return &mysql.Result{}, nil
}

func a2Attach(se *SessionExecutor, slice string, conn *a2Conn) *a2Pool {
	pool := &a2Pool{conn: conn}
	conn.pool = pool
	se.GetNamespace().slices[slice].Master = &backend.DBInfo{
		Nodes: []*backend.NodeInfo{{Address: conn.addr, ConnPool: pool, Status: backend.StatusUp}},
	}
	return pool
}

// begin; a sharded statement on two slices during which slice-0's backend connection
// breaks (and closes itself); rollback. Every transaction connection must go back to its pool.
func TestA2RollbackRecyclesClosedTxConn(t *testing.T) {
	se, err := newDefaultSessionExecutor(nil)
	if err != nil {
		t.Fatalf("prepare session executor: %v", err)
	}
	broken := &a2Conn{addr: "127.0.0.1:3306", execErr: errors.New("write: broken pipe")}
	healthy := &a2Conn{addr: "127.0.0.1:13306"}
	pool0 := a2Attach(se, "slice-0", broken)
	pool1 := a2Attach(se, "slice-1", healthy)

	if err := se.handleBegin(); err != nil {
		t.Fatalf("begin: %v", err)
	}
	sqls := map[string]map[string][]string{
		"slice-0": {"db_ks": {"update tbl_ks_0000 set a=1"}},
		"slice-1": {"db_ks": {"update tbl_ks_0002 set a=1"}},
	}
	if _, err := se.ExecuteSQLs(util.NewRequestContext(), sqls); err == nil {
		t.Fatalf("expected the broken slice to fail the statement")
	}
	if !broken.IsClosed() || len(se.txConns) != 2 {
		t.Fatalf("precondition: closed=%v txConns=%d", broken.IsClosed(), len(se.txConns))
	}

	if err := se.rollback(); err != nil {
		t.Fatalf("rollback: %v", err)
	}

	if len(se.txConns) != 0 {
		t.Fatalf("txConns not cleared")
	}
	if healthy.rollbacks != 1 || pool1.gets != 1 || pool1.puts != 1 {
		t.Fatalf("healthy conn: rollbacks=%d gets=%d puts=%d", healthy.rollbacks, pool1.gets, pool1.puts)
	}
	if broken.rollbacks != 0 {
		t.Fatalf("Rollback must not be sent on a closed connection")
	}
	if pool0.gets != 1 || pool0.puts != 1 {
		t.Fatalf("closed transaction connection leaked its pool slot: %d Get, %d Put", pool0.gets, pool0.puts)
	}
}
