package server

import (
	"context"
	"errors"
	"testing"

	"github.com/XiaoMi/Gaea/backend"
	"github.com/XiaoMi/Gaea/mysql"
	"github.com/XiaoMi/Gaea/util"
)

// a5Pool is a token-counting stand-in for a backend connection pool: every Get
// takes one slot and dials a fresh connection, every Put (reached through
// PooledConnect.Recycle) gives one slot back.
type a5Pool struct {
	backend.ConnectionPool
	conns []*a5Conn
	puts  int
}

func (p *a5Pool) Get(ctx context.Context) (backend.PooledConnect, error) {
	c := &a5Conn{pool: p}
	p.conns = append(p.conns, c)
	return c, nil
}
func (p *a5Pool) Put(pc backend.PooledConnect) { p.puts++ }
func (p *a5Pool) Close()                       {}

// a5Conn mimics pooledConnectImpl: Recycle hands the connection (or nil when closed) to its pool.
// With breakNext set, the next Execute behaves like a backend write hitting a broken
// pipe: the connection closes itself and the error is returned.
type a5Conn struct {
	backend.PooledConnect
	pool            *a5Pool
	closed          bool
	breakNext       bool
	usedAfterClosed int
}

func (c *a5Conn) Recycle() {
	if c.closed {
		c.pool.Put(nil)
		return
	}
	c.pool.Put(c)
}
func (c *a5Conn) Close()                    { c.closed = true }
func (c *a5Conn) IsClosed() bool            { return c.closed }
func (c *a5Conn) GetAddr() string           { return "127.0.0.1:3306" }
func (c *a5Conn) GetConnectionID() int64    { return 1 }
func (c *a5Conn) MoreRowsExist() bool       { return false }
func (c *a5Conn) MoreResultsExist() bool    { return false }
func (c *a5Conn) Begin() error              { return nil }
func (c *a5Conn) Rollback() error           { return nil }
func (c *a5Conn) SetAutoCommit(uint8) error { return nil }
func (c *a5Conn) UseDB(string) error        { return nil }
func (c *a5Conn) SetCharset(string, mysql.CollationID) (bool, error) {
	return false, nil
}
func (c *a5Conn) SetSessionVariables(*mysql.SessionVariables) (bool, error) {
	return false, nil
}
func (c *a5Conn) Execute(sql string, maxRows int) (*mysql.Result, error) {
	if c.closed {
		c.usedAfterClosed++
		return nil, errors.New("use of closed backend connection")
	}
	if c.breakNext {
		c.Close()
		return nil, errors.New("write: broken pipe")
	}
	return &mysql.Result{}, nil
}

func a5Executor(t *testing.T) (*SessionExecutor, *a5Pool) {
	se, err := newDefaultSessionExecutor(nil)
	if err != nil {
		t.Fatalf("prepare session executor: %v", err)
	}
	se.keepSession = true
	se.session.executor = se
	se.session.manager = se.manager
	se.session.namespace = se.namespace
	se.nsChangeIndexOld = se.GetNamespace().namespaceChangeIndex // as Session.Run does before each command
	pool := &a5Pool{}
	se.GetNamespace().slices["slice-0"].Master = &backend.DBInfo{
		Nodes: []*backend.NodeInfo{{Address: "127.0.0.1:3306", ConnPool: pool, Status: backend.StatusUp}},
	}
	return se, pool
}

// Keep-session client: the pinned backend connection breaks during a statement.
// The closed connection is given back to the pool by recycleBackendConn, so the
// session must stop using it: later statements need a fresh connection, and the
// dead one must not be handed to the pool again.
func TestA5ClosedKeepSessionConnIsUnpinned(t *testing.T) {
	se, pool := a5Executor(t)
	exec := func() error {
		_, err := se.ExecuteSQL(util.NewRequestContext(), "slice-0", "db_ks", "select 1")
		return err
	}

	if err := exec(); err != nil {
		t.Fatalf("statement 1: %v", err)
	}
	if len(pool.conns) != 1 || pool.puts != 0 || len(se.ksConns) != 1 {
		t.Fatalf("precondition: conns=%d puts=%d ksConns=%d", len(pool.conns), pool.puts, len(se.ksConns))
	}
	first := pool.conns[0]

	first.breakNext = true
	if err := exec(); err == nil {
		t.Fatalf("statement 2 must fail: backend connection broke")
	}
	if !first.IsClosed() || pool.puts != 1 {
		t.Fatalf("broken conn must be closed and recycled once: closed=%v puts=%d", first.IsClosed(), pool.puts)
	}
	if pc, ok := se.ksConns["slice-0"]; ok && pc.IsClosed() {
		t.Errorf("closed (and already recycled) connection is still pinned in ksConns")
	}

	for i := 3; i <= 4; i++ {
		if err := exec(); err != nil {
			t.Errorf("statement %d: %v", i, err)
		}
	}
	se.handleKsQuit() // client disconnects

	if first.usedAfterClosed != 0 {
		t.Errorf("closed connection was used for %d more statements", first.usedAfterClosed)
	}
	if gets := len(pool.conns); gets != pool.puts {
		t.Errorf("pool slot accounting broken: %d Get but %d Put", gets, pool.puts)
	}
}

// Same branch in recycleContinueConn (streamed result whose backend connection got closed).
func TestA5ClosedKeepSessionContinueConnIsUnpinned(t *testing.T) {
	se, pool := a5Executor(t)
	if _, err := se.ExecuteSQL(util.NewRequestContext(), "slice-0", "db_ks", "select 1"); err != nil {
		t.Fatalf("statement 1: %v", err)
	}
	first := pool.conns[0]
	first.Close()
	se.recycleContinueConn(first)
	if pool.puts != 1 {
		t.Fatalf("closed conn must be recycled once, puts=%d", pool.puts)
	}
	if _, ok := se.ksConns["slice-0"]; ok {
		t.Errorf("closed (and already recycled) connection is still pinned in ksConns")
	}
	se.handleKsQuit()
	if gets := len(pool.conns); gets != pool.puts {
		t.Errorf("pool slot accounting broken: %d Get but %d Put", gets, pool.puts)
	}
}
