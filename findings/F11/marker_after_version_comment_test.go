package parser

import "testing"

// A parameter marker that FOLLOWS a version / hint comment is an ordinary marker; one INSIDE such a comment is refused.
func TestFindingMarkerAfterVersionComment(t *testing.T) {
	for sql, want := range map[string]int{
		"select /*!40001 SQL_NO_CACHE */ ? from t":          1,
		"select /*+ MAX_EXECUTION_TIME(10) */ a from t where b = ?": 1,
		"select a from t where b = ? /*!40001 and c = 1 */ and d = ?": 2,
	} {
		offs, err := ParamMarkerOffsets(sql)
		if err != nil {
			t.Errorf("%q: refused: %v", sql, err)
			continue
		}
		if len(offs) != want {
			t.Errorf("%q: %d markers, want %d", sql, len(offs), want)
		}
		for _, o := range offs {
			if sql[o] != '?' {
				t.Errorf("%q: offset %d is not a '?'", sql, o)
			}
		}
	}
	for _, sql := range []string{"select /*!40001 ? */ 1", "select /*+ what? */ 1 from t where a = ?"} {
		if offs, err := ParamMarkerOffsets(sql); err == nil {
			t.Errorf("%q: accepted with offsets %v although a '?' sits inside a special comment", sql, offs)
		}
	}
}
