package mysql

import (
	"testing"
)

// A row with an ENUM (or SET) column built for a prepared-statement client must decode, with the repository's own
// binary-row reader, to the values it was built from.
func TestFindingC13EnumSetLengthPrefix(t *testing.T) {
	for _, tp := range []uint8{TypeEnum, TypeSet} {
		fields := []*Field{{Name: []byte("e"), Type: tp}, {Name: []byte("n"), Type: TypeLonglong}}
		rs, err := BuildBinaryResultset(fields, [][]interface{}{{"abc", int64(7)}})
		if err != nil {
			t.Fatalf("type %d: build: %v", tp, err)
		}
		got, err := RowData(rs.RowDatas[0]).ParseBinary(fields)
		if err != nil {
			t.Errorf("type %d: the binary row does not decode: %v (row % x)", tp, err, []byte(rs.RowDatas[0]))
			continue
		}
		if s, ok := got[0].([]byte); !ok || string(s) != "abc" {
			t.Errorf("type %d: column 0 decodes to %v, want abc", tp, got[0])
		}
		if n, ok := got[1].(int64); !ok || n != 7 {
			t.Errorf("type %d: column 1 decodes to %v, want 7", tp, got[1])
		}
	}
}
