package router

import (
	"sync"
	"testing"

	"github.com/XiaoMi/Gaea/models"
)

func newDemoRouter(t *testing.T) *Router {
	ns := &models.Namespace{
		Slices:       []*models.Slice{{Name: "slice-0"}, {Name: "slice-1"}},
		DefaultSlice: "slice-0",
	}
	rt, err := NewRouter(ns)
	if err != nil {
		t.Fatal(err)
	}
	return rt
}

// GetRule is called concurrently by every session (plan.CheckUnshardBase etc.).
// Run with -race: on the pristine tree the fallback to the default rule writes
// defaultRule.db without synchronisation => DATA RACE.
func TestGetRuleDefaultRuleConcurrent(t *testing.T) {
	rt := newDemoRouter(t)
	var wg sync.WaitGroup
	for _, db := range []string{"db_a", "db_b"} {
		wg.Add(1)
		go func(db string) {
			defer wg.Done()
			for i := 0; i < 1000; i++ {
				if r := rt.GetRule(db, "tbl"); r != rt.GetDefaultRule() {
					t.Errorf("expected default rule")
					return
				}
			}
		}(db)
	}
	wg.Wait()
}

// Deterministic variant (no -race needed): a lookup must not modify the
// routing configuration shared between sessions.
func TestGetRuleDoesNotMutateDefaultRule(t *testing.T) {
	rt := newDemoRouter(t)
	before := *(rt.defaultRule.(*BaseRule))
	rt.GetRule("db_a", "tbl")
	rt.GetRule("", "`db_b`.`tbl`")
	after := *(rt.defaultRule.(*BaseRule))
	if before.db != after.db {
		t.Fatalf("GetRule wrote to the shared default rule: db %q -> %q", before.db, after.db)
	}
}
