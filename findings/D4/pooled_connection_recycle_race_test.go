package backend

import (
	"context"
	"net"
	"sync"
	"testing"
	"time"

	"github.com/XiaoMi/Gaea/mysql"
	"github.com/XiaoMi/Gaea/util"
)

// Real connectionPoolImpl + real util.ResourcePool (capacity 1); only the dial is replaced by a
// net.Pipe-backed DirectConnection. Two goroutines do Get()/Recycle() on the pool.
// Run with -race: on the pristine tree Recycle() writes pc.returnTime AFTER pool.Put(pc), while the
// other goroutine, which already obtained pc from the pool, reads it in Get() (GetReturnTime()).
func TestRecycleSetsReturnTimeBeforePut(t *testing.T) {
	var pipes []net.Conn
	defer func() {
		for _, c := range pipes {
			c.Close()
		}
	}()

	cp := &connectionPoolImpl{addr: "pipe", capacity: 1, maxCapacity: 1}
	factory := func() (util.Resource, error) {
		c1, c2 := net.Pipe()
		pipes = append(pipes, c1, c2)
		dc := &DirectConnection{conn: mysql.NewConn(c1), status: mysql.ServerStatusAutocommit}
		return &pooledConnectImpl{directConnection: dc, pool: cp}, nil
	}
	rp, err := util.NewResourcePool(factory, 1, 1, time.Hour)
	if err != nil {
		t.Fatal(err)
	}
	cp.connections = rp

	var wg sync.WaitGroup
	for g := 0; g < 2; g++ {
		wg.Add(1)
		go func() {
			defer wg.Done()
			for i := 0; i < 200; i++ {
				pc, err := cp.Get(context.Background())
				if err != nil {
					t.Errorf("get: %v", err)
					return
				}
				pc.Recycle()
			}
		}()
	}
	wg.Wait()

	// consistency check: a recycled connection carries a return time
	pc, err := cp.Get(context.Background())
	if err != nil {
		t.Fatal(err)
	}
	if pc.GetReturnTime().IsZero() {
		t.Fatalf("returnTime not set on a recycled connection")
	}
	pc.Recycle()
}
