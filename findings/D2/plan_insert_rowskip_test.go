package plan

import (
	"strings"
	"testing"

	"github.com/XiaoMi/Gaea/parser"
)

// A row whose sharding-column value is not a plain literal (-5 is a UnaryOperationExpr,
// 2+1 a BinaryOperationExpr) must not be dropped silently from a multi-row INSERT:
// either every row of the statement is routed, or the statement is rejected.
func TestInsertValuesRowWithNonLiteralShardingValueNotDropped(t *testing.T) {
	info, err := preparePlanInfo()
	if err != nil {
		t.Fatalf("prepare namespace error: %v", err)
	}

	for _, sql := range []string{
		"insert into tbl_mycat (id, a) values (1, 'a'), (-5, 'b')",
		"insert into tbl_mycat (id, a) values (1, 'a'), (2+1, 'b')",
		"insert into tbl_mycat (id, a) values (-5, 'b')",
	} {
		t.Run(sql, func(t *testing.T) {
			stmt, err := parser.ParseSQL(sql)
			if err != nil {
				t.Fatalf("parse error: %v", err)
			}
			wantRows := strings.Count(sql, "'a'") + strings.Count(sql, "'b'")

			p, err := BuildPlan(stmt, info.phyDBs, "db_mycat", sql, info.rt, info.seqs, nil)
			if err != nil {
				t.Logf("statement rejected as a whole (ok): %v", err)
				return
			}
			gotRows := 0
			for _, dbSQLs := range p.(*InsertPlan).sqls {
				for _, sqls := range dbSQLs {
					for _, s := range sqls {
						gotRows += strings.Count(s, "'a'") + strings.Count(s, "'b'")
					}
				}
			}
			if gotRows != wantRows {
				t.Fatalf("plan accepted but routes %d of %d rows: %v", gotRows, wantRows, p.(*InsertPlan).sqls)
			}
		})
	}
}
