package server

import (
	"crypto/sha1"
	"fmt"
	"strings"
	"testing"

	"github.com/XiaoMi/Gaea/models"
	"github.com/XiaoMi/Gaea/mysql"
)

func mysqlHash(pw string) string {
	h1 := sha1.Sum([]byte(pw))
	h2 := sha1.Sum(h1[:])
	return "*" + strings.ToUpper(fmt.Sprintf("%x", h2[:]))
}

// User "app" is configured in two namespaces with two different passwords, both stored as '*'-prefixed SHA1 hashes.
// A client that sends the correct mysql_native_password scramble of the second password must pass.
func TestFindingC30HashCheckMutatesResponse(t *testing.T) {
	um := NewUserManager()
	um.RebuildNamespaceUsers(&models.Namespace{Name: "ns_a", Users: []*models.User{{UserName: "app", Password: mysqlHash("first")}}})
	um.RebuildNamespaceUsers(&models.Namespace{Name: "ns_b", Users: []*models.User{{UserName: "app", Password: mysqlHash("second")}}})
	salt := []byte("01234567890123456789")
	auth := mysql.CalcPassword(salt, []byte("second"))
	orig := append([]byte{}, auth...)
	ok, pw := um.CheckHashPassword("app", salt, auth)
	if !ok {
		t.Fatalf("correct scramble of a configured (hashed) password rejected; response buffer changed: %v", string(orig) != string(auth))
	}
	if um.GetNamespaceByUser("app", pw) != "ns_b" {
		t.Fatalf("bound to %q", um.GetNamespaceByUser("app", pw))
	}
}

// Same user, one hashed and one clear-text password: the clear-text check that follows the hash check
// (handleHandshakeResponse, empty auth plugin name) sees the response the hash check has overwritten.
func TestFindingC30ClearAfterHash(t *testing.T) {
	um := NewUserManager()
	um.RebuildNamespaceUsers(&models.Namespace{Name: "ns_a", Users: []*models.User{{UserName: "app", Password: mysqlHash("first")}}})
	um.RebuildNamespaceUsers(&models.Namespace{Name: "ns_b", Users: []*models.User{{UserName: "app", Password: "clear"}}})
	salt := []byte("01234567890123456789")
	auth := mysql.CalcPassword(salt, []byte("clear"))
	ok, _ := um.CheckHashPassword("app", salt, auth)
	if !ok {
		ok, _ = um.CheckPassword("app", salt, auth)
	}
	if !ok {
		t.Fatalf("correct scramble of the configured clear-text password rejected after the hash check ran")
	}
}
