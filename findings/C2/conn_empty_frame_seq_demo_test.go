package mysql

import (
	"bytes"
	"net"
	"testing"
	"time"
)

// An empty frame (3-byte length == 0) must carry the expected sequence id
// like any other frame.
func TestDemoC2EmptyFrameWrongSequenceRejected(t *testing.T) {
	c := &Conn{}
	c.sequence = 0
	// header 00 00 00 7f : length 0, sequence 0x7f while 0 is expected.
	n, err := c.readHeaderFrom(bytes.NewReader([]byte{0x00, 0x00, 0x00, 0x7f}))
	if err == nil {
		t.Fatalf("empty frame with sequence 0x7f accepted at expected sequence 0 (length=%d, c.sequence now %d)", n, c.sequence)
	}
	if c.sequence != 0 {
		t.Fatalf("sequence advanced to %d by a rejected frame", c.sequence)
	}

	// The non-empty sibling is rejected on both trees: same header, length 1.
	c2 := &Conn{}
	if _, err := c2.readHeaderFrom(bytes.NewReader([]byte{0x01, 0x00, 0x00, 0x7f})); err == nil {
		t.Fatalf("non-empty frame with wrong sequence accepted")
	}
}

// Same thing through the public read path on a real net.Conn.
func TestDemoC2EmptyFrameWrongSequenceRejectedOnWire(t *testing.T) {
	client, server := net.Pipe()
	defer client.Close()
	defer server.Close()

	go func() {
		client.SetWriteDeadline(time.Now().Add(2 * time.Second))
		client.Write([]byte{0x00, 0x00, 0x00, 0x7f})
	}()

	c := NewConn(server)
	server.SetReadDeadline(time.Now().Add(2 * time.Second))
	data, err := c.ReadEphemeralPacket()
	if err == nil {
		t.Fatalf("ReadEphemeralPacket accepted an empty frame with sequence 0x7f at expected sequence 0: data=%v", data)
	}
}

// An empty frame with the right sequence id (the frame following a payload of
// exactly MaxPacketSize bytes) is still accepted and still advances the
// sequence.
func TestDemoC2EmptyFrameRightSequenceAccepted(t *testing.T) {
	c := &Conn{}
	c.sequence = 5
	n, err := c.readHeaderFrom(bytes.NewReader([]byte{0x00, 0x00, 0x00, 0x05}))
	if err != nil || n != 0 {
		t.Fatalf("empty frame with right sequence: n=%d err=%v", n, err)
	}
	if c.sequence != 6 {
		t.Fatalf("sequence = %d, want 6", c.sequence)
	}
}
