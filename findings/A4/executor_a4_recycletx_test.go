package server

import (
	"context"
	"errors"
	"testing"

	"github.com/XiaoMi/Gaea/backend"
	"github.com/XiaoMi/Gaea/mysql"
	"github.com/XiaoMi/Gaea/util"
)

// a4Pool is a token-counting stand-in for a backend connection pool: every Get
// takes one slot, every Put (reached through PooledConnect.Recycle) gives one back.
type a4Pool struct {
	backend.ConnectionPool
	conn *a4Conn
	gets int
	puts int
}

func (p *a4Pool) Get(ctx context.Context) (backend.PooledConnect, error) {
	p.gets++
	return p.conn, nil
}
func (p *a4Pool) Put(pc backend.PooledConnect) { p.puts++ }
func (p *a4Pool) Close()                       {}

// a4Conn mimics pooledConnectImpl: Recycle hands the connection (or nil when closed) to its pool.
// With execErr set, Execute behaves like a backend write hitting a broken pipe: the
// connection closes itself and the error is returned.
type a4Conn struct {
	backend.PooledConnect
	addr      string
	pool      *a4Pool
	closed    bool
	execErr   error
	rollbacks int
}

func (c *a4Conn) Recycle() {
	if c.closed {
		c.pool.Put(nil)
		return
	}
	c.pool.Put(c)
}
func (c *a4Conn) Close()                    { c.closed = true }
func (c *a4Conn) IsClosed() bool            { return c.closed }
func (c *a4Conn) GetAddr() string           { return c.addr }
func (c *a4Conn) GetConnectionID() int64    { return 1 }
func (c *a4Conn) MoreRowsExist() bool       { return false }
func (c *a4Conn) MoreResultsExist() bool    { return false }
func (c *a4Conn) Begin() error              { return nil }
func (c *a4Conn) SetAutoCommit(uint8) error { return nil }
func (c *a4Conn) UseDB(string) error        { return nil }
func (c *a4Conn) Rollback() error           { c.rollbacks++; return nil }
func (c *a4Conn) SyncSessionVariables(*mysql.SessionVariables) error {
	return nil
}
func (c *a4Conn) SetCharset(string, mysql.CollationID) (bool, error) { return false, nil }
func (c *a4Conn) SetSessionVariables(*mysql.SessionVariables) (bool, error) {
	return false, nil
}
func (c *a4Conn) Execute(sql string, maxRows int) (*mysql.Result, error) {
	if c.execErr != nil {
		c.Close()
		return nil, c.execErr
	}
	return &mysql.Result{}, nil
}

func a4Attach(se *SessionExecutor, slice string, conn *a4Conn) *a4Pool {
	pool := &a4Pool{conn: conn}
	conn.pool = pool
	se.GetNamespace().slices[slice].Master = &backend.DBInfo{
		Nodes: []*backend.NodeInfo{{Address: conn.addr, ConnPool: pool, Status: backend.StatusUp}},
	}
	return pool
}

// begin; a statement on slice-1 (its connection is now part of the transaction); a
// statement on slice-0 during which that backend connection breaks and closes itself.
// recycleBackendConn -> recycleTx then forgets the transaction: every connection that
// belonged to it must be given back to its pool, the still-open ones rolled back first.
func TestA4BrokenTxConnDoesNotDropOtherTxConns(t *testing.T) {
	se, err := newDefaultSessionExecutor(nil)
	if err != nil {
		t.Fatalf("prepare session executor: %v", err)
	}
	broken := &a4Conn{addr: "127.0.0.1:3306", execErr: errors.New("write: broken pipe")}
	healthy := &a4Conn{addr: "127.0.0.1:13306"}
	pool0 := a4Attach(se, "slice-0", broken)
	pool1 := a4Attach(se, "slice-1", healthy)

	if err := se.handleBegin(); err != nil {
		t.Fatalf("begin: %v", err)
	}
	if _, err := se.ExecuteSQL(util.NewRequestContext(), "slice-1", "db_ks", "update t set a=1"); err != nil {
		t.Fatalf("statement on slice-1: %v", err)
	}
	if se.txConns["slice-1"] != backend.PooledConnect(healthy) || pool1.puts != 0 {
		t.Fatalf("precondition: slice-1 conn must be held by the transaction")
	}
	if _, err := se.ExecuteSQL(util.NewRequestContext(), "slice-0", "db_ks", "update t set a=1"); err == nil {
		t.Fatalf("expected the statement on the broken slice to fail")
	}
	if !broken.IsClosed() || len(se.txConns) != 0 {
		t.Fatalf("closed=%v txConns=%d", broken.IsClosed(), len(se.txConns))
	}

	// client gives up: ROLLBACK, then disconnects
	if err := se.rollback(); err != nil {
		t.Fatalf("rollback: %v", err)
	}
	se.handleKsQuit()

	if pool0.gets != 1 || pool0.puts != 1 || broken.rollbacks != 0 {
		t.Errorf("broken conn: gets=%d puts=%d rollbacks=%d", pool0.gets, pool0.puts, broken.rollbacks)
	}
	if pool1.gets != 1 || pool1.puts != 1 {
		t.Errorf("slice-1 transaction connection leaked its pool slot: %d Get, %d Put", pool1.gets, pool1.puts)
	}
	if healthy.rollbacks != 1 {
		t.Errorf("slice-1 transaction was dropped without rollback (rollbacks=%d)", healthy.rollbacks)
	}
}

// Same, but an earlier sharded statement had already left a closed connection in txConns.
func TestA4BrokenTxConnRecyclesOtherClosedTxConns(t *testing.T) {
	se, err := newDefaultSessionExecutor(nil)
	if err != nil {
		t.Fatalf("prepare session executor: %v", err)
	}
	broken0 := &a4Conn{addr: "127.0.0.1:3306", execErr: errors.New("write: broken pipe")}
	broken1 := &a4Conn{addr: "127.0.0.1:13306", execErr: errors.New("write: broken pipe")}
	pool0 := a4Attach(se, "slice-0", broken0)
	pool1 := a4Attach(se, "slice-1", broken1)

	if err := se.handleBegin(); err != nil {
		t.Fatalf("begin: %v", err)
	}
	sqls := map[string]map[string][]string{"slice-1": {"db_ks": {"update tbl_ks_0002 set a=1"}}}
	if _, err := se.ExecuteSQLs(util.NewRequestContext(), sqls); err == nil {
		t.Fatalf("expected the sharded statement to fail")
	}
	if !broken1.IsClosed() || len(se.txConns) != 1 {
		t.Fatalf("precondition: closed=%v txConns=%d", broken1.IsClosed(), len(se.txConns))
	}
	if _, err := se.ExecuteSQL(util.NewRequestContext(), "slice-0", "db_ks", "update t set a=1"); err == nil {
		t.Fatalf("expected the statement on the broken slice to fail")
	}
	if err := se.rollback(); err != nil {
		t.Fatalf("rollback: %v", err)
	}
	if pool0.gets != 1 || pool0.puts != 1 {
		t.Errorf("slice-0: %d Get, %d Put", pool0.gets, pool0.puts)
	}
	if pool1.gets != 1 || pool1.puts != 1 {
		t.Errorf("slice-1 closed transaction connection leaked its pool slot: %d Get, %d Put", pool1.gets, pool1.puts)
	}
}
