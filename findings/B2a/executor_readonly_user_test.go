package server

import (
	"context"
	"testing"

	"github.com/XiaoMi/Gaea/backend"
	"github.com/XiaoMi/Gaea/mysql"
	"github.com/XiaoMi/Gaea/util"
	"github.com/golang/mock/gomock"
)

// newReadOnlyUserExecutor returns a session executor logged in as the read-only user
// (rw_flag=1) whose backends (master and slave of every slice) are mocks recording
// every SQL that reaches them.
func newReadOnlyUserExecutor(t *testing.T, mockCtl *gomock.Controller, executed *[]string) *SessionExecutor {
	se, err := newDefaultSessionExecutor(nil)
	if err != nil {
		t.Fatalf("newDefaultSessionExecutor: %v", err)
	}
	se.user = "test_executor_r"
	se.session.proxy.ServerVersionCompareStatus = util.NewVersionCompareStatus("")

	conn := backend.NewMockPooledConnect(mockCtl)
	conn.EXPECT().GetConnectionID().Return(int64(1)).AnyTimes()
	conn.EXPECT().GetAddr().Return("127.0.0.1:3306").AnyTimes()
	conn.EXPECT().UseDB(gomock.Any()).Return(nil).AnyTimes()
	conn.EXPECT().SetCharset(gomock.Any(), gomock.Any()).Return(false, nil).AnyTimes()
	conn.EXPECT().SetSessionVariables(gomock.Any()).Return(false, nil).AnyTimes()
	conn.EXPECT().Recycle().Return().AnyTimes()
	conn.EXPECT().MoreRowsExist().Return(false).AnyTimes()
	conn.EXPECT().MoreResultsExist().Return(false).AnyTimes()
	conn.EXPECT().IsClosed().Return(false).AnyTimes()
	conn.EXPECT().Execute(gomock.Any(), gomock.Any()).DoAndReturn(func(sql string, _ int) (*mysql.Result, error) {
		*executed = append(*executed, sql)
		return &mysql.Result{}, nil
	}).AnyTimes()

	pool := backend.NewMockConnectionPool(mockCtl)
	pool.EXPECT().Get(context.TODO()).Return(conn, nil).AnyTimes()
	for _, slice := range se.GetNamespace().slices {
		dbInfo := &backend.DBInfo{
			Nodes: []*backend.NodeInfo{{Address: "127.0.0.1:3306", ConnPool: pool, Status: backend.StatusUp}},
		}
		slice.Master = dbInfo
		slice.Slave = dbInfo
	}
	return se
}

// A read-only user (rw_flag=1) must not be able to modify data or schema:
// REPLACE and DDL have to be refused like INSERT/UPDATE/DELETE and never reach a backend.
func TestReadOnlyUserCannotReplaceOrDDL(t *testing.T) {
	mockCtl := gomock.NewController(t)
	defer mockCtl.Finish()

	var executed []string
	se := newReadOnlyUserExecutor(t, mockCtl, &executed)

	// sanity: the user is read-only, the classic write DML is refused and reads are served
	if _, err := se.handleQuery(util.NewRequestContext(), "insert into tbl_unshard (id, name) values (1, 'a')"); err == nil || len(executed) != 0 {
		t.Fatalf("insert by read-only user: err=%v, backend got %q", err, executed)
	}
	if _, err := se.handleQuery(util.NewRequestContext(), "select * from tbl_unshard"); err != nil || len(executed) != 1 {
		t.Fatalf("select by read-only user: err=%v, backend got %q", err, executed)
	}

	writes := []string{
		"replace into tbl_unshard (id, name) values (1, 'a')",
		"REPLACE INTO tbl_unshard SET id = 1, name = 'a'",
		"create table tbl_new (id int primary key)",
		"alter table tbl_unshard add column c int",
		"drop table tbl_unshard",
		"truncate table tbl_unshard",
		"rename table tbl_unshard to tbl_renamed",
	}
	for _, sql := range writes {
		t.Run(sql, func(t *testing.T) {
			executed = nil
			_, err := se.handleQuery(util.NewRequestContext(), sql)
			if len(executed) != 0 {
				t.Errorf("read-only user: statement reached the backend: %q", executed)
			}
			if err == nil {
				t.Errorf("read-only user: expected the statement to be refused, got no error")
			}
		})
	}
}
