package server

import (
	"context"
	"errors"
	"net"
	"sync/atomic"
	"testing"
	"time"

	"github.com/XiaoMi/Gaea/backend"
	"github.com/XiaoMi/Gaea/mysql"
	"github.com/XiaoMi/Gaea/util"
)

// a3Pool is a token-counting stand-in for a backend connection pool: every Get
// takes one slot, every Put (reached through PooledConnect.Recycle) gives one back.
type a3Pool struct {
	backend.ConnectionPool
	conn *a3Conn
	gets int
	puts int
}

func (p *a3Pool) Get(ctx context.Context) (backend.PooledConnect, error) {
	p.gets++
	p.conn.recycled = false
	return p.conn, nil
}
func (p *a3Pool) Put(pc backend.PooledConnect) { p.puts++ }
func (p *a3Pool) Close()                       {}

// a3Conn mimics pooledConnectImpl: Recycle hands the connection (or nil when closed) to its pool.
// It counts every use of the connection made after it was given back to the pool.
type a3Conn struct {
	backend.PooledConnect
	addr             string
	pool             *a3Pool
	closed           bool
	recycled         bool
	usedAfterRecycle int
	pingErr          error
}

func (c *a3Conn) use() {
	if c.recycled {
		c.usedAfterRecycle++
	}
}
func (c *a3Conn) Recycle() {
	c.use()
	c.recycled = true
	if c.closed {
		c.pool.Put(nil)
		return
	}
	c.pool.Put(c)
}
func (c *a3Conn) Close()                                             { c.use(); c.closed = true }
func (c *a3Conn) IsClosed() bool                                     { return c.closed }
func (c *a3Conn) GetAddr() string                                    { return c.addr }
func (c *a3Conn) GetConnectionID() int64                             { return 1 }
func (c *a3Conn) MoreRowsExist() bool                                { return false }
func (c *a3Conn) MoreResultsExist() bool                             { return false }
func (c *a3Conn) Begin() error                                       { c.use(); return nil }
func (c *a3Conn) Rollback() error                                    { c.use(); return nil }
func (c *a3Conn) SetAutoCommit(uint8) error                          { c.use(); return nil }
func (c *a3Conn) UseDB(string) error                                 { c.use(); return nil }
func (c *a3Conn) PingWithTimeout(d time.Duration) error              { c.use(); return c.pingErr }
func (c *a3Conn) SetCharset(string, mysql.CollationID) (bool, error) { return false, nil }
func (c *a3Conn) SetSessionVariables(*mysql.SessionVariables) (bool, error) {
	return false, nil
}
func (c *a3Conn) Execute(sql string, maxRows int) (*mysql.Result, error) {
	c.use()
	return &mysql.Result{}, nil
}

func a3Attach(se *SessionExecutor, slice string, conn *a3Conn) *a3Pool {
	pool := &a3Pool{conn: conn}
	conn.pool = pool
	se.GetNamespace().slices[slice].Master = &backend.DBInfo{
		Nodes: []*backend.NodeInfo{{Address: conn.addr, ConnPool: pool, Status: backend.StatusUp}},
	}
	return pool
}

// A keep-session client has one pinned backend connection per slice. COM_PING finds
// slice-0's connection dead; handleKeepSessionPing gives every pinned connection back
// to its pool and reports ErrBadConn, after which Session.Run closes the session.
func a3Run(t *testing.T, inTx bool) {
	se, err := newDefaultSessionExecutor(nil)
	if err != nil {
		t.Fatalf("prepare session executor: %v", err)
	}
	se.keepSession = true
	se.session.executor = se
	se.session.manager = se.manager
	se.session.namespace = se.namespace
	se.nsChangeIndexOld = se.GetNamespace().namespaceChangeIndex // as Session.Run does before each command
	clientSide, proxySide := net.Pipe()
	defer clientSide.Close()
	se.session.c = NewClientConn(mysql.NewConn(proxySide), se.manager)
	closed := atomic.Value{}
	closed.Store(false)
	se.session.closed = closed

	dead := &a3Conn{addr: "127.0.0.1:3306"}
	alive := &a3Conn{addr: "127.0.0.1:13306"}
	pool0 := a3Attach(se, "slice-0", dead)
	pool1 := a3Attach(se, "slice-1", alive)

	if inTx {
		se.status |= mysql.ServerStatusInTrans
	}
	for _, slice := range []string{"slice-0", "slice-1"} {
		if _, err := se.ExecuteSQL(util.NewRequestContext(), slice, "db_ks", "select 1"); err != nil {
			t.Fatalf("ExecuteSQL on %s: %v", slice, err)
		}
	}
	if len(se.ksConns) != 2 || pool0.puts != 0 || pool1.puts != 0 {
		t.Fatalf("precondition: ksConns=%d puts=%d/%d", len(se.ksConns), pool0.puts, pool1.puts)
	}

	dead.pingErr = errors.New("read: connection reset by peer")
	rs := se.ExecuteCommand(mysql.ComPing, nil)
	if rs.RespType != RespError || rs.Data != error(mysql.ErrBadConn) {
		t.Fatalf("expected ErrBadConn response, got %+v", rs)
	}
	if pool0.puts != 1 || pool1.puts != 1 {
		t.Fatalf("ping failure must recycle every keep-session conn once, puts=%d/%d", pool0.puts, pool1.puts)
	}
	if n := len(se.ksConns); n != 0 {
		t.Errorf("%d recycled connections are still pinned in ksConns", n)
	}

	// what Session.Run does next for a SessionCloseError response
	se.session.Close()

	if pool0.gets != 1 || pool0.puts != 1 {
		t.Errorf("slice-0 pool: %d Get but %d Put", pool0.gets, pool0.puts)
	}
	if pool1.gets != 1 || pool1.puts != 1 {
		t.Errorf("slice-1 pool: %d Get but %d Put", pool1.gets, pool1.puts)
	}
	if dead.usedAfterRecycle+alive.usedAfterRecycle != 0 {
		t.Errorf("connections used after being returned to the pool: slice-0 %d times, slice-1 %d times",
			dead.usedAfterRecycle, alive.usedAfterRecycle)
	}
}

func TestA3KeepSessionPingFailureUnpinsConns(t *testing.T) {
	t.Run("autocommit", func(t *testing.T) { a3Run(t, false) })
	t.Run("in-transaction", func(t *testing.T) { a3Run(t, true) })
}
