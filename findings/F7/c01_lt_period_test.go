package plan

import (
	"strings"
	"testing"

	"github.com/XiaoMi/Gaea/parser"
)

// `col < v` with v INSIDE a calendar period must still be sent to the table of that period: rows of the period that
// are earlier than v match the condition.
func TestFindingC01LessThanInsidePeriod(t *testing.T) {
	info, err := preparePlanInfo()
	if err != nil {
		t.Fatalf("prepare namespace error: %v", err)
	}
	for _, tc := range []struct{ sql, mustContain string }{
		{"select * from tbl_ks_year where create_time < '2016-06-01 00:00:00'", "tbl_ks_year_2016"},
		{"select * from tbl_ks_year where create_time < '2016-01-01 00:00:01'", "tbl_ks_year_2016"},
		{"select * from tbl_ks_month where create_time < '2014-06-15 12:00:00'", "tbl_ks_month_201406"},
		{"select * from tbl_ks_day where create_time < '2014-09-03 08:00:00'", "tbl_ks_day_20140903"},
	} {
		stmt, err := parser.ParseSQL(tc.sql)
		if err != nil {
			t.Fatalf("parse %q: %v", tc.sql, err)
		}
		p, err := BuildPlan(stmt, info.phyDBs, "db_ks", tc.sql, info.rt, info.seqs, nil)
		if err != nil {
			t.Fatalf("BuildPlan %q: %v", tc.sql, err)
		}
		var all []string
		for _, dbs := range p.(*SelectPlan).GetSQLs() {
			for _, sqls := range dbs {
				all = append(all, sqls...)
			}
		}
		if !strings.Contains(strings.Join(all, "\n"), tc.mustContain) {
			t.Errorf("%q is not sent to %s (which holds matching rows); sent: %v", tc.sql, tc.mustContain, all)
		}
	}
	// exactly the first instant of a period: the period itself holds no matching row and may be dropped
	sql := "select * from tbl_ks_year where create_time < '2016-01-01 00:00:00'"
	stmt, _ := parser.ParseSQL(sql)
	p, err := BuildPlan(stmt, info.phyDBs, "db_ks", sql, info.rt, info.seqs, nil)
	if err != nil {
		t.Fatal(err)
	}
	for _, dbs := range p.(*SelectPlan).GetSQLs() {
		for _, sqls := range dbs {
			for _, s := range sqls {
				if strings.Contains(s, "tbl_ks_year_2016") {
					t.Errorf("pruning at the exact period start lost: %s", s)
				}
			}
		}
	}
}
