package service

import (
	"encoding/json"
	"io/ioutil"
	"net/http"
	"net/http/httptest"
	"strings"
	"sync"
	"testing"

	"github.com/XiaoMi/Gaea/models"
)

// fakeEtcdV2 is a minimal in-memory etcd v2 keys API, enough for models/etcd.EtcdClient.
// A GET on failKey answers 500 (etcd member without leader), simulating a coordinator fault.
type fakeEtcdV2 struct {
	sync.Mutex
	kv      map[string]string
	failKey string
}

type fakeNode struct {
	Key   string      `json:"key"`
	Dir   bool        `json:"dir,omitempty"`
	Value string      `json:"value"`
	Nodes []*fakeNode `json:"nodes,omitempty"`
}

func (f *fakeEtcdV2) ServeHTTP(w http.ResponseWriter, r *http.Request) {
	f.Lock()
	defer f.Unlock()
	w.Header().Set("Content-Type", "application/json")
	if r.URL.Path == "/version" {
		w.Write([]byte(`{"etcdserver":"2.3.8","etcdcluster":"2.3.0"}`))
		return
	}
	key := strings.TrimSuffix(strings.TrimPrefix(r.URL.Path, "/v2/keys"), "/")
	switch r.Method {
	case http.MethodGet:
		if key == f.failKey {
			w.WriteHeader(http.StatusInternalServerError)
			return
		}
		if v, ok := f.kv[key]; ok {
			json.NewEncoder(w).Encode(map[string]interface{}{"action": "get", "node": &fakeNode{Key: key, Value: v}})
			return
		}
		dir := &fakeNode{Key: key, Dir: true}
		for k, v := range f.kv {
			if strings.HasPrefix(k, key+"/") {
				dir.Nodes = append(dir.Nodes, &fakeNode{Key: k, Value: v})
			}
		}
		if len(dir.Nodes) == 0 {
			w.WriteHeader(http.StatusNotFound)
			w.Write([]byte(`{"errorCode":100,"message":"Key not found","cause":"` + key + `","index":1}`))
			return
		}
		json.NewEncoder(w).Encode(map[string]interface{}{"action": "get", "node": dir})
	case http.MethodPut:
		r.ParseForm()
		f.kv[key] = r.PostForm.Get("value")
		json.NewEncoder(w).Encode(map[string]interface{}{"action": "set", "node": &fakeNode{Key: key, Value: f.kv[key]}})
	case http.MethodDelete:
		delete(f.kv, key)
		json.NewEncoder(w).Encode(map[string]interface{}{"action": "delete", "node": &fakeNode{Key: key}})
	}
}

func (f *fakeEtcdV2) get(key string) (string, bool) {
	f.Lock()
	defer f.Unlock()
	v, ok := f.kv[key]
	return v, ok
}

func loadFixtureNamespace(t *testing.T) *models.Namespace {
	b, err := ioutil.ReadFile("../../etc/file/namespace/test_namespace_1.json")
	if err != nil {
		t.Fatal(err)
	}
	ns := &models.Namespace{}
	if err := json.Unmarshal(b, ns); err != nil {
		t.Fatal(err)
	}
	return ns
}

// ModifyNamespace stores the new namespace and then lists the proxies. If listing the proxies
// fails, the API reports failure, so the store must be rolled back like on the sibling
// failure exits (prepare / commit failure).
func TestModifyNamespaceRollbackWhenListProxyFails(t *testing.T) {
	const key = "1234abcd5678efg*"
	fake := &fakeEtcdV2{kv: map[string]string{}, failKey: "/gaea/proxy"}
	srv := httptest.NewServer(fake)
	defer srv.Close()
	cfg := &models.CCConfig{CoordinatorType: models.ConfigEtcd, CoordinatorAddr: srv.URL, EncryptKey: key}

	// case 1: the namespace did not exist before -> after the failed call it must not exist.
	ns := loadFixtureNamespace(t)
	nsKey := "/gaea/namespace/" + ns.Name
	if err := ModifyNamespace(ns, cfg, ""); err == nil {
		t.Fatalf("expected ModifyNamespace to fail when listing proxies fails")
	}
	if v, ok := fake.get(nsKey); ok {
		t.Errorf("create failed but new namespace is still stored (no rollback): %.60s...", v)
	}

	// case 2: the namespace existed -> after the failed call the old configuration must be stored.
	old := loadFixtureNamespace(t)
	old.Encrypt(key)
	fake.Lock()
	fake.kv[nsKey] = string(old.Encode())
	fake.Unlock()

	changed := loadFixtureNamespace(t)
	changed.SlowSQLTime = "4321"
	if err := ModifyNamespace(changed, cfg, ""); err == nil {
		t.Fatalf("expected ModifyNamespace to fail when listing proxies fails")
	}
	v, _ := fake.get(nsKey)
	stored := &models.Namespace{}
	if err := json.Unmarshal([]byte(v), stored); err != nil {
		t.Fatalf("stored namespace unreadable: %v", err)
	}
	if stored.SlowSQLTime != old.SlowSQLTime {
		t.Errorf("modify failed but new configuration is still stored (no rollback): slow_sql_time=%q, want %q",
			stored.SlowSQLTime, old.SlowSQLTime)
	}
}
