package sequence

import (
	"context"
	"testing"

	"github.com/XiaoMi/Gaea/backend"
	"github.com/XiaoMi/Gaea/mysql"
	"github.com/golang/mock/gomock"
)

// newTestMySQLSequence returns a MySQLSequence on a slice whose master is a mock that answers
// every "SELECT mycat_seq_nextval(...)" with the next reply of replies (the last one repeats).
func newTestMySQLSequence(t *testing.T, mockCtl *gomock.Controller, replies ...string) *MySQLSequence {
	idx := 0
	conn := backend.NewMockPooledConnect(mockCtl)
	conn.EXPECT().UseDB("mycat").Return(nil).AnyTimes()
	conn.EXPECT().Recycle().Return().AnyTimes()
	conn.EXPECT().Execute("SELECT mycat_seq_nextval('TBL_SEQ') as seq_val", 0).DoAndReturn(func(string, int) (*mysql.Result, error) {
		reply := replies[idx]
		if idx < len(replies)-1 {
			idx++
		}
		rs, err := mysql.BuildResultset(nil, []string{"seq_val"}, [][]interface{}{{reply}})
		if err != nil {
			t.Fatalf("BuildResultset: %v", err)
		}
		return &mysql.Result{Resultset: rs}, nil
	}).AnyTimes()

	pool := backend.NewMockConnectionPool(mockCtl)
	pool.EXPECT().Get(context.TODO()).Return(conn, nil).AnyTimes()

	slice := &backend.Slice{
		Master: &backend.DBInfo{
			Nodes: []*backend.NodeInfo{{Address: "127.0.0.1:3306", ConnPool: pool, Status: backend.StatusUp}},
		},
	}
	return NewMySQLSequence(slice, "TBL_SEQ", "id", 0)
}

// sanity: a well-formed reply "curr,incr" hands out curr+1 .. curr+incr, then asks the DB again
func TestMySQLSequenceNextSeqWellFormed(t *testing.T) {
	mockCtl := gomock.NewController(t)
	defer mockCtl.Finish()

	seq := newTestMySQLSequence(t, mockCtl, "100,2", "102,2")
	for _, want := range []int64{101, 102, 103, 104} {
		got, err := seq.NextSeq()
		if err != nil || got != want {
			t.Fatalf("NextSeq() = %d, %v; want %d, nil", got, err, want)
		}
	}
}

// mycat_seq_nextval answers "-999999999,null" when the sequence name has no row in
// MYCAT_SEQUENCE; this and every other reply whose numbers cannot be parsed (or whose
// increment cannot advance the sequence) must make NextSeq fail instead of handing out
// the same id again and again.
func TestMySQLSequenceNextSeqRejectsMalformedReply(t *testing.T) {
	for _, reply := range []string{
		"-999999999,null", // sequence not found
		"100,abc",         // increment is not a number
		"abc,100",         // current value is not a number
		"100,",            // empty increment
		"100,0",           // increment that never advances
		"100,-5",          // negative increment
	} {
		t.Run(reply, func(t *testing.T) {
			mockCtl := gomock.NewController(t)
			defer mockCtl.Finish()

			seq := newTestMySQLSequence(t, mockCtl, reply)
			first, err1 := seq.NextSeq()
			second, err2 := seq.NextSeq()
			if err1 == nil && err2 == nil && first == second {
				t.Errorf("NextSeq handed out the duplicate id %d twice for DB reply %q", first, reply)
			}
			if err1 == nil || err2 == nil {
				t.Errorf("NextSeq() for DB reply %q = (%d, %v), (%d, %v); want errors", reply, first, err1, second, err2)
			}
		})
	}
}
