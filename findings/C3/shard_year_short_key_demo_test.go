package router

import "testing"

// A too-short string key must yield an error (as DateMonthShard and
// DateDayShard do), not a slice-bounds panic.
func TestDemoC3DateYearShardShortStringKey(t *testing.T) {
	for _, key := range []string{"17", "", "201"} {
		key := key
		t.Run("FindForKey/"+key, func(t *testing.T) {
			defer func() {
				if r := recover(); r != nil {
					t.Fatalf("DateYearShard.FindForKey(%q) panicked: %v", key, r)
				}
			}()
			s := &DateYearShard{}
			idx, err := s.FindForKey(key)
			if err == nil {
				t.Fatalf("DateYearShard.FindForKey(%q) = %d, nil; want an error", key, idx)
			}
		})
		t.Run("EqualStart/"+key, func(t *testing.T) {
			defer func() {
				if r := recover(); r != nil {
					t.Fatalf("DateYearShard.EqualStart(%q) panicked: %v", key, r)
				}
			}()
			s := &DateYearShard{}
			if s.EqualStart(key, 17) {
				t.Fatalf("DateYearShard.EqualStart(%q, 17) = true", key)
			}
		})
	}

	// siblings already behave this way
	if _, err := (&DateMonthShard{}).FindForKey("17"); err == nil {
		t.Fatalf("DateMonthShard accepted short key")
	}
	if _, err := (&DateDayShard{}).FindForKey("17"); err == nil {
		t.Fatalf("DateDayShard accepted short key")
	}
}

// Valid keys keep working.
func TestDemoC3DateYearShardValidStringKeys(t *testing.T) {
	s := &DateYearShard{}
	for key, want := range map[string]int{"2017": 2017, "2017-03-05": 2017, "2016-03-05 12:00:00": 2016} {
		got, err := s.FindForKey(key)
		if err != nil || got != want {
			t.Fatalf("FindForKey(%q) = %d, %v; want %d", key, got, err, want)
		}
	}
	if _, err := s.FindForKey("abcd-01-01"); err == nil {
		t.Fatalf("non numeric year accepted")
	}
}
