package plan

import (
	"fmt"
	"sort"
	"strings"
	"testing"

	"github.com/XiaoMi/Gaea/mysql"
	"github.com/XiaoMi/Gaea/parser"
	"github.com/XiaoMi/Gaea/parser/ast"
	driver "github.com/XiaoMi/Gaea/parser/tidb-types/parser_driver"
	"github.com/XiaoMi/Gaea/util"
)

// c02oBackend stands for the MySQL backends of tbl_mycat (mycat_mod(id) over db_mycat_0..3).
// Every physical database holds rows (col1, x); the backend answers the one statement shape of this demonstration,
//   SELECT `col1`,SUM(`x`) ... GROUP BY `col1` ORDER BY SUM(`x`) DESC [LIMIT n]
// the way MySQL does: group, sort by the sum descending, cut at n.
type c02oBackend struct {
	rows map[string][][2]interface{} // phy db -> (col1, x)
}

func (b *c02oBackend) ExecuteSQL(*util.RequestContext, string, string, string) (*mysql.Result, error) {
	return nil, fmt.Errorf("not used")
}
func (b *c02oBackend) SetLastInsertID(uint64)  {}
func (b *c02oBackend) GetLastInsertID() uint64 { return 0 }
func (b *c02oBackend) HandleSet(*util.RequestContext, string, *ast.SetStmt) (*mysql.Result, error) {
	return nil, fmt.Errorf("not used")
}

func (b *c02oBackend) ExecuteSQLs(_ *util.RequestContext, sqls map[string]map[string][]string) ([]*mysql.Result, error) {
	var ret []*mysql.Result
	var slices []string
	for s := range sqls {
		slices = append(slices, s)
	}
	sort.Strings(slices)
	for _, s := range slices {
		var dbs []string
		for db := range sqls[s] {
			dbs = append(dbs, db)
		}
		sort.Strings(dbs)
		for _, db := range dbs {
			for _, sql := range sqls[s][db] {
				stmt, err := parser.ParseSQL(sql)
				if err != nil {
					return nil, err
				}
				sel := stmt.(*ast.SelectStmt)
				sums := map[string]int64{}
				for _, r := range b.rows[db] {
					sums[r[0].(string)] += r[1].(int64)
				}
				var keys []string
				for k := range sums {
					keys = append(keys, k)
				}
				sort.Slice(keys, func(i, j int) bool { return sums[keys[i]] > sums[keys[j]] })
				if sel.Limit != nil {
					n := int(sel.Limit.Count.(*driver.ValueExpr).GetInt64())
					if sel.Limit.Offset != nil {
						return nil, fmt.Errorf("demo backend: offset not expected in %s", sql)
					}
					if n < len(keys) {
						keys = keys[:n]
					}
				}
				var values [][]interface{}
				for _, k := range keys {
					values = append(values, []interface{}{k, sums[k]})
				}
				names := make([]string, len(sel.Fields.Fields))
				for i := range names {
					names[i] = fmt.Sprintf("c%d", i)
				}
				// pad the extra columns the proxy may have appended with the group key / the sum
				for i := range values {
					for len(values[i]) < len(names) {
						values[i] = append(values[i], values[i][len(values[i])-1])
					}
				}
				rs, err := mysql.BuildResultset(nil, names, values)
				if err != nil {
					return nil, err
				}
				ret = append(ret, &mysql.Result{Resultset: rs})
			}
		}
	}
	return ret, nil
}

// ORDER BY an aggregate: the rows must come back in the order of the merged sums.
func TestFindingC02OrderByAggregate(t *testing.T) {
	info, err := preparePlanInfo()
	if err != nil {
		t.Fatal(err)
	}
	backend := &c02oBackend{rows: map[string][][2]interface{}{
		"db_mycat_0": {{"g1", int64(10)}, {"g2", int64(6)}},
		"db_mycat_1": {{"g3", int64(9)}, {"g2", int64(6)}},
		"db_mycat_2": {{"g4", int64(8)}, {"g2", int64(6)}},
		"db_mycat_3": {{"g5", int64(7)}, {"g2", int64(6)}},
	}}
	sql := "select col1, sum(x) from tbl_mycat group by col1 order by sum(x) desc"
	stmt, err := parser.ParseSQL(sql)
	if err != nil {
		t.Fatal(err)
	}
	p, err := BuildPlan(stmt, info.phyDBs, "db_mycat", sql, info.rt, info.seqs, nil)
	if err != nil {
		t.Fatalf("BuildPlan: %v", err)
	}
	for _, dbs := range p.(*SelectPlan).GetSQLs() {
		for db, sqls := range dbs {
			t.Logf("%s: %s", db, strings.Join(sqls, " ; "))
		}
	}
	res, err := p.ExecuteIn(util.NewRequestContext(), backend)
	if err != nil {
		t.Fatalf("ExecuteIn: %v", err)
	}
	var got []string
	for _, row := range res.Values {
		got = append(got, fmt.Sprint(row[0], "=", row[1]))
	}
	want := []string{"g2=24", "g1=10", "g3=9", "g4=8", "g5=7"}
	if strings.Join(got, " ") != strings.Join(want, " ") {
		t.Errorf("merged answer %v, a single database holding all shards answers %v", got, want)
	}
}
