package server

import (
	"testing"

	"github.com/XiaoMi/Gaea/models"
)

// Two namespaces share the user name "app"; the control plane only requires the passwords to differ.
// Reloading ns_a (password "pw:1") must not touch ns_b's credential ("pw").
func TestFindingC29ColonPassword(t *testing.T) {
	um := NewUserManager()
	a := &models.Namespace{Name: "ns_a", Users: []*models.User{{UserName: "app", Password: "pw:1", Namespace: "ns_a"}}}
	b := &models.Namespace{Name: "ns_b", Users: []*models.User{{UserName: "app", Password: "pw", Namespace: "ns_b"}}}
	um.RebuildNamespaceUsers(a)
	um.RebuildNamespaceUsers(b)
	um.RebuildNamespaceUsers(a) // reload of ns_a only
	found := false
	for _, p := range um.users["app"] {
		if p == "pw" {
			found = true
		}
	}
	if !found {
		t.Fatalf("reloading ns_a removed ns_b's password: users[app]=%q", um.users["app"])
	}
	if ns := um.GetNamespaceByUser("app", "pw"); ns != "ns_b" {
		t.Fatalf("app/pw -> %q, want ns_b", ns)
	}
	// ("a:b","c") and ("a","b:c") are different credentials
	um2 := NewUserManager()
	um2.RebuildNamespaceUsers(&models.Namespace{Name: "n1", Users: []*models.User{{UserName: "a:b", Password: "c"}}})
	if ns := um2.GetNamespaceByUser("a", "b:c"); ns != "" {
		t.Fatalf("credential a / b:c resolves to namespace %q although it is configured nowhere", ns)
	}
}
