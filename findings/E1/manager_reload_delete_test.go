package server

import (
	"testing"

	"github.com/XiaoMi/Gaea/core/errors"
	"github.com/XiaoMi/Gaea/models"
)

// prepare(A'), delete(B), commit(A): DeleteNamespace rebuilds the inactive slot
// (discarding the prepared A') and switches to it. A later commit must not flip
// back to the pre-delete slot, which would resurrect B and lose A'.
func TestDeleteNamespaceInvalidatesPendingPrepare(t *testing.T) {
	const nameA = "test_executor_namespace"
	const nameB = "test_reload_delete_namespace_b"
	const userB = "test_reload_delete_user_b"

	// the statistics backend can be registered only once per process: share the one
	// of the package-wide test manager, but use a private Manager for the namespaces
	if localManager == nil {
		var err error
		if localManager, err = prepareNamespaceManager(); err != nil {
			t.Fatalf("prepare manager: %v", err)
		}
	}
	m := NewManager()
	m.statistics = localManager.statistics
	initConfigs := map[string]*models.Namespace{nameA: initNamespaceConfig()}
	cur, _, _ := m.switchIndex.Get()
	m.namespaces[cur] = CreateNamespaceManager("c3", initConfigs)
	users, err := CreateUserManager(initConfigs)
	if err != nil {
		t.Fatalf("create user manager: %v", err)
	}
	m.users[cur] = users

	// add namespace B through the regular prepare/commit path
	cfgB := initNamespaceConfig()
	cfgB.Name = nameB
	cfgB.Users = []*models.User{{
		UserName: userB, Password: "pwd_b", Namespace: nameB, RWFlag: 2, RWSplit: 1,
	}}
	if err := m.ReloadNamespacePrepare(cfgB); err != nil {
		t.Fatalf("prepare B: %v", err)
	}
	if err := m.ReloadNamespaceCommit(nameB); err != nil {
		t.Fatalf("commit B: %v", err)
	}
	if m.GetNamespace(nameA) == nil || m.GetNamespace(nameB) == nil || !m.CheckUser(userB) {
		t.Fatalf("setup: both namespaces and user of B must be active")
	}
	oldA := m.GetNamespace(nameA)

	// prepare A' (a changed configuration of A), do not commit yet
	cfgA := initNamespaceConfig()
	cfgA.MaxSqlExecuteTime = 12345
	if err := m.ReloadNamespacePrepare(cfgA); err != nil {
		t.Fatalf("prepare A': %v", err)
	}

	// delete B while the prepare of A' is pending
	if err := m.DeleteNamespace(nameB); err != nil {
		t.Fatalf("delete B: %v", err)
	}
	if m.GetNamespace(nameB) != nil || m.CheckUser(userB) {
		t.Fatalf("B must be gone right after delete")
	}

	// commit A
	commitErr := m.ReloadNamespaceCommit(nameA)

	// a deleted namespace stays deleted
	if m.GetNamespace(nameB) != nil {
		t.Errorf("namespace %s resurrected by commit of %s after it was deleted", nameB, nameA)
	}
	if m.CheckUser(userB) {
		t.Errorf("user %s of deleted namespace %s is accepted again after commit of %s", userB, nameB, nameA)
	}

	// a successful commit activates exactly the configuration last prepared
	curA := m.GetNamespace(nameA)
	if curA == nil {
		t.Fatalf("namespace %s missing after commit", nameA)
	}
	if commitErr == nil {
		if curA == oldA || curA.GetMaxExecuteTime() != 12345 {
			t.Errorf("commit of %s reported success but the prepared configuration is not active (max execute time %d, same object as before: %v)",
				nameA, curA.GetMaxExecuteTime(), curA == oldA)
		}
	} else {
		if commitErr != errors.ErrNamespaceNotPrepared {
			t.Errorf("unexpected commit error: %v", commitErr)
		}
		if curA != oldA {
			t.Errorf("commit of %s failed but the active namespace changed", nameA)
		}
	}
}
