package server

import (
	"context"
	"encoding/binary"
	"testing"

	"github.com/XiaoMi/Gaea/backend"
	"github.com/XiaoMi/Gaea/mysql"
	"github.com/XiaoMi/Gaea/util"
	"github.com/golang/mock/gomock"
)

// buildStmtExecutePacket builds the body of a COM_STMT_EXECUTE packet (without the command byte)
// for a statement with two parameters (LONG, VAR_STRING), new-params-bound flag set.
func buildStmtExecutePacket(id uint32, values []byte) []byte {
	data := make([]byte, 0, 32)
	idBuf := make([]byte, 4)
	binary.LittleEndian.PutUint32(idBuf, id)
	data = append(data, idBuf...)
	data = append(data, 0)          // flags: CURSOR_TYPE_NO_CURSOR
	data = append(data, 1, 0, 0, 0) // iteration count
	data = append(data, 0)          // null bitmap (2 params -> 1 byte)
	data = append(data, 1)          // new params bound flag
	data = append(data, mysql.TypeLong, 0, mysql.TypeVarString, 0)
	data = append(data, values...)
	return data
}

// A COM_STMT_EXECUTE whose second parameter is malformed must not leave the first
// parameter bound in the statement: the next (well-formed) execute has to be
// decoded from its own packet only.
func TestStmtExecuteBindErrorResetsParams(t *testing.T) {
	se, err := newDefaultSessionExecutor(nil)
	if err != nil {
		t.Fatalf("newDefaultSessionExecutor: %v", err)
	}
	se.session.proxy.ServerVersionCompareStatus = util.NewVersionCompareStatus("")

	mockCtl := gomock.NewController(t)
	defer mockCtl.Finish()

	var executed []string
	conn := backend.NewMockPooledConnect(mockCtl)
	conn.EXPECT().GetConnectionID().Return(int64(1)).AnyTimes()
	conn.EXPECT().GetAddr().Return("127.0.0.1:3306").AnyTimes()
	conn.EXPECT().UseDB(gomock.Any()).Return(nil).AnyTimes()
	conn.EXPECT().SetCharset(gomock.Any(), gomock.Any()).Return(false, nil).AnyTimes()
	conn.EXPECT().SetSessionVariables(gomock.Any()).Return(false, nil).AnyTimes()
	conn.EXPECT().Recycle().Return().AnyTimes()
	conn.EXPECT().MoreRowsExist().Return(false).AnyTimes()
	conn.EXPECT().MoreResultsExist().Return(false).AnyTimes()
	conn.EXPECT().IsClosed().Return(false).AnyTimes()
	conn.EXPECT().Execute(gomock.Any(), gomock.Any()).DoAndReturn(func(sql string, _ int) (*mysql.Result, error) {
		executed = append(executed, sql)
		return &mysql.Result{}, nil
	}).AnyTimes()

	pool := backend.NewMockConnectionPool(mockCtl)
	pool.EXPECT().Get(context.TODO()).Return(conn, nil).AnyTimes()
	se.GetNamespace().slices["slice-0"].Master = &backend.DBInfo{
		Nodes: []*backend.NodeInfo{{Address: "127.0.0.1:3306", ConnPool: pool, Status: backend.StatusUp}},
	}

	stmt, err := se.handleStmtPrepare("update tbl_unshard set age = ? where name = ?")
	if err != nil {
		t.Fatalf("handleStmtPrepare: %v", err)
	}

	// execute #1: param 0 = LONG 7 (ok), param 1 = VAR_STRING announcing 10 bytes but carrying 2 (malformed)
	bad := buildStmtExecutePacket(stmt.id, []byte{7, 0, 0, 0, 10, 'x', 'y'})
	if _, err := se.handleStmtExecute(util.NewRequestContext(), bad); err == nil {
		t.Fatalf("malformed execute: expected an error")
	}
	if len(executed) != 0 {
		t.Fatalf("malformed execute reached the backend: %q", executed)
	}

	// execute #2: well-formed, param 0 = LONG 2, param 1 = "ok"
	good := buildStmtExecutePacket(stmt.id, []byte{2, 0, 0, 0, 2, 'o', 'k'})
	if _, err := se.handleStmtExecute(util.NewRequestContext(), good); err != nil {
		t.Fatalf("well-formed execute after a malformed one failed: %v", err)
	}
	want := "update tbl_unshard set age = 2 where name = 'ok'"
	if len(executed) != 1 || executed[0] != want {
		t.Fatalf("backend got %q, want [%q]", executed, want)
	}
}
