package server

import (
	"bytes"
	"net"
	"sync"
	"testing"
	"time"

	"github.com/XiaoMi/Gaea/models"
	"github.com/XiaoMi/Gaea/mysql"
	"github.com/XiaoMi/Gaea/util"
)

// f9BufConn is a net.Conn that records everything written to it.
type f9BufConn struct {
	mu  sync.Mutex
	buf bytes.Buffer
}

func (c *f9BufConn) Read(b []byte) (int, error) { select {} }
func (c *f9BufConn) Write(b []byte) (int, error) {
	c.mu.Lock()
	defer c.mu.Unlock()
	return c.buf.Write(b)
}
func (c *f9BufConn) Close() error                       { return nil }
func (c *f9BufConn) LocalAddr() net.Addr                { return &net.TCPAddr{} }
func (c *f9BufConn) RemoteAddr() net.Addr               { return &net.TCPAddr{} }
func (c *f9BufConn) SetDeadline(t time.Time) error      { return nil }
func (c *f9BufConn) SetReadDeadline(t time.Time) error  { return nil }
func (c *f9BufConn) SetWriteDeadline(t time.Time) error { return nil }

// countPackets counts the MySQL packets in the recorded stream.
func (c *f9BufConn) countPackets() int {
	c.mu.Lock()
	defer c.mu.Unlock()
	data := c.buf.Bytes()
	n := 0
	for len(data) >= 4 {
		l := int(data[0]) | int(data[1])<<8 | int(data[2])<<16
		if len(data) < 4+l {
			break
		}
		data = data[4+l:]
		n++
	}
	return n
}

func newF9Executor(t *testing.T) (*SessionExecutor, *f9BufConn) {
	se, err := newDefaultSessionExecutor(func(nsConfig *models.Namespace) {
		nsConfig.SupportMultiQuery = true
		nsConfig.BlackSQL = []string{"set names gbk"}
	})
	if err != nil {
		t.Fatalf("prepare session executor: %v", err)
	}
	conn := &f9BufConn{}
	se.session.c = NewClientConn(mysql.NewConn(conn), se.manager)
	se.session.c.capability |= mysql.ClientMultiStatements
	// the read packet of this fake connection has nothing to recycle
	se.session.c.hasRecycledReadPacket.Set(true)
	se.session.executor = se
	se.session.manager = se.manager
	se.session.namespace = se.namespace
	se.db = "db_ks"
	return se, conn
}

// A blacklisted statement is rejected wherever it appears: alone, or as one statement of a multi-statement query.
func TestFindingC36BlacklistInsideMultiStatement(t *testing.T) {
	se, _ := newF9Executor(t)
	// alone: rejected
	if err := se.checkSQLAllowed(util.NewRequestContext(), "SET  NAMES  gbk"); err == nil {
		t.Fatalf("the blacklist does not reject the statement even alone: test set-up is wrong")
	}
	// as the second statement of a packet
	_, err := se.doMultiStmts(util.NewRequestContext(), "use db_ks; set names gbk")
	if err == nil || se.charset == "gbk" {
		t.Errorf("blacklisted statement `set names gbk` ran as part of a multi-statement query (err=%v, session charset %q)", err, se.charset)
	}
}
