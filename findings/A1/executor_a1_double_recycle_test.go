package server

import (
	"context"
	"errors"
	"testing"

	"github.com/XiaoMi/Gaea/backend"
	"github.com/XiaoMi/Gaea/mysql"
	"github.com/XiaoMi/Gaea/util"
)

// a1Pool is a token-counting stand-in for a backend connection pool: every Get
// takes one slot, every Put (reached through PooledConnect.Recycle) gives one back.
type a1Pool struct {
	backend.ConnectionPool
	conn *a1Conn
	gets int
	puts int
}

func (p *a1Pool) Get(ctx context.Context) (backend.PooledConnect, error) {
	p.gets++
	return p.conn, nil
}
func (p *a1Pool) Put(pc backend.PooledConnect) { p.puts++ }
func (p *a1Pool) Close()                       {}

// a1Conn mimics pooledConnectImpl: Recycle hands the connection (or nil when closed) to its pool.
type a1Conn struct {
	backend.PooledConnect
	pool          *a1Pool
	closed        bool
	syncErr       error
	autoCommitErr error
	beginErr      error
}

func (c *a1Conn) Recycle() {
	if c.closed {
		c.pool.Put(nil)
		return
	}
	c.pool.Put(c)
}
func (c *a1Conn) Close()                    { c.closed = true }
func (c *a1Conn) IsClosed() bool            { return c.closed }
func (c *a1Conn) GetAddr() string           { return "127.0.0.1:3306" }
func (c *a1Conn) GetConnectionID() int64    { return 1 }
func (c *a1Conn) MoreRowsExist() bool       { return false }
func (c *a1Conn) MoreResultsExist() bool    { return false }
func (c *a1Conn) Begin() error              { return c.beginErr }
func (c *a1Conn) SetAutoCommit(uint8) error { return c.autoCommitErr }
func (c *a1Conn) SyncSessionVariables(*mysql.SessionVariables) error {
	return c.syncErr
}

func a1Executor(t *testing.T, conn *a1Conn) (*SessionExecutor, *a1Pool) {
	se, err := newDefaultSessionExecutor(nil)
	if err != nil {
		t.Fatalf("prepare session executor: %v", err)
	}
	pool := &a1Pool{conn: conn}
	conn.pool = pool
	se.GetNamespace().slices["slice-0"].Master = &backend.DBInfo{
		Nodes: []*backend.NodeInfo{{Address: "127.0.0.1:3306", ConnPool: pool, Status: backend.StatusUp}},
	}
	return se, pool
}

// A failing transaction-connection setup must give the pool slot back exactly once.
func TestA1TransactionConnSetupFailureRecyclesOnce(t *testing.T) {
	boom := errors.New("backend write failed")
	cases := []struct {
		name       string
		conn       *a1Conn
		autoCommit bool
	}{
		{"SyncSessionVariables", &a1Conn{syncErr: boom}, true},
		{"SetAutoCommit0", &a1Conn{autoCommitErr: boom}, false},
		{"Begin", &a1Conn{beginErr: boom}, true},
	}
	for _, ca := range cases {
		t.Run(ca.name+"/ExecuteSQL", func(t *testing.T) {
			conn := *ca.conn
			se, pool := a1Executor(t, &conn)
			se.status |= mysql.ServerStatusInTrans
			if !ca.autoCommit {
				se.status &= ^mysql.ServerStatusAutocommit
			}
			if _, err := se.ExecuteSQL(util.NewRequestContext(), "slice-0", "db_ks", "select 1"); err == nil {
				t.Fatalf("expected an error")
			}
			if pool.gets != 1 || pool.puts != 1 {
				t.Fatalf("pool got %d Put for %d Get: connection recycled %d times", pool.puts, pool.gets, pool.puts)
			}
		})
		t.Run(ca.name+"/executeDirectToBackend", func(t *testing.T) {
			conn := *ca.conn
			se, pool := a1Executor(t, &conn)
			se.status |= mysql.ServerStatusInTrans
			if !ca.autoCommit {
				se.status &= ^mysql.ServerStatusAutocommit
			}
			if _, err := se.executeDirectToBackend(util.NewRequestContext(), "slice-0"); err == nil {
				t.Fatalf("expected an error")
			}
			if pool.gets != 1 || pool.puts != 1 {
				t.Fatalf("pool got %d Put for %d Get: connection recycled %d times", pool.puts, pool.gets, pool.puts)
			}
		})
	}
}

// Same for the keep-session path (getBackendKsConn).
func TestA1KeepSessionConnSetupFailureRecyclesOnce(t *testing.T) {
	boom := errors.New("backend write failed")
	cases := []struct {
		name       string
		conn       *a1Conn
		autoCommit bool
	}{
		{"SetAutoCommit0", &a1Conn{autoCommitErr: boom}, false},
		{"Begin", &a1Conn{beginErr: boom}, true},
	}
	for _, ca := range cases {
		t.Run(ca.name, func(t *testing.T) {
			conn := *ca.conn
			se, pool := a1Executor(t, &conn)
			se.keepSession = true
			se.status |= mysql.ServerStatusInTrans
			if !ca.autoCommit {
				se.status &= ^mysql.ServerStatusAutocommit
			}
			if _, err := se.ExecuteSQL(util.NewRequestContext(), "slice-0", "db_ks", "select 1"); err == nil {
				t.Fatalf("expected an error")
			}
			if pool.gets != 1 || pool.puts != 1 {
				t.Fatalf("pool got %d Put for %d Get: connection recycled %d times", pool.puts, pool.gets, pool.puts)
			}
			if len(se.ksConns) != 0 {
				t.Fatalf("failed connection must not be pinned in ksConns")
			}
		})
	}
}
