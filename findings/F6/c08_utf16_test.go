package router

import (
	"testing"
	"unicode/utf16"
)

// Reference: Mycat's PartitionByString, written from its Java source with Java's char semantics (String.length() and
// charAt() count UTF-16 code units):
//   start = hashSliceStart >= 0 ? hashSliceStart : key.length() + hashSliceStart
//   end   = hashSliceEnd   >  0 ? hashSliceEnd   : key.length() + hashSliceEnd
//   h = StringUtil.hash(key, start, end)  // clamps start to 0, end to length; h = (h<<5) - h + charAt(i)
//   partition = segment[h & 1023]
func mycatPartitionByStringRef(key string, hashSliceStart, hashSliceEnd int, segmentOf func(int) int) int {
	chars := utf16.Encode([]rune(key))
	start := hashSliceStart
	if hashSliceStart < 0 {
		start = len(chars) + hashSliceStart
	}
	end := hashSliceEnd
	if hashSliceEnd <= 0 {
		end = len(chars) + hashSliceEnd
	}
	if start < 0 {
		start = 0
	}
	if end > len(chars) {
		end = len(chars)
	}
	var h int64
	for i := start; i < end; i++ {
		h = (h << 5) - h + int64(chars[i])
	}
	return segmentOf(int(h) & 1023)
}

func TestFindingC08StringShardMultiByteKeys(t *testing.T) {
	// two partitions of 512 slots; hash slice "-2:" = the last two characters of the key
	shard := NewMycatPartitionStringShard(2, "2", "512", "-2:")
	if err := shard.Init(); err != nil {
		t.Fatal(err)
	}
	segmentOf := func(slot int) int { return slot / 512 }
	for _, key := range []string{"xxzz", "中文zz", "订单zz", "ab中文", "\U0001F600zz", "zz\U0001F600"} {
		want := mycatPartitionByStringRef(key, -2, 0, segmentOf)
		got, err := shard.FindForKey(key)
		if err != nil {
			t.Fatal(err)
		}
		if got != want {
			t.Errorf("key %q: placed in partition %d, Mycat places it in %d", key, got, want)
		}
	}
}
