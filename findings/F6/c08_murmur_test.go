package util

import (
	"testing"
	"unicode/utf16"
)

// Reference: guava's Murmur3_32HashFunction.hashUnencodedChars(CharSequence) as used by Mycat's PartitionByMurmurHash,
// over Java chars (UTF-16 code units).
func murmurUnencodedCharsRef(seed int32, s string) int {
	in := utf16.Encode([]rune(s))
	h1 := seed
	for i := 1; i < len(in); i += 2 {
		k1 := int32(in[i-1]) | int32(in[i])<<16
		k1 = mixK1(k1)
		h1 = mixH1(h1, k1)
	}
	if len(in)&1 == 1 {
		k1 := int32(in[len(in)-1])
		k1 = mixK1(k1)
		h1 ^= k1
	}
	return int(fmix(h1, int32(2*len(in))))
}

func TestFindingC08MurmurSupplementaryPlane(t *testing.T) {
	m := NewMurmurHash(0)
	for _, key := range []string{"abc", "中文", "a\U0001F600", "\U00020000x"} {
		if got, want := m.HashUnencodedChars(key), murmurUnencodedCharsRef(0, key); got != want {
			t.Errorf("key %q: hash %d, Java/guava computes %d", key, got, want)
		}
	}
}
