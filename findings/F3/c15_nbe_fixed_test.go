package server

import (
	"testing"

	"github.com/XiaoMi/Gaea/mysql"
	"github.com/XiaoMi/Gaea/parser"
	"github.com/XiaoMi/Gaea/parser/ast"
	"github.com/XiaoMi/Gaea/parser/format"
	"strings"
)

// After the fix: the text spliced for a string parameter is one literal denoting the bound bytes in both modes.
func TestFindingC15FixedBothModes(t *testing.T) {
	sql := "select * from t where name = ?"
	count, offsets, items, _ := CalcParams(sql)
	for _, nbe := range []bool{false, true} {
		for _, bound := range []string{`\' or 1=1 -- x`, `a\`, `it's`, `\\''\`, "plain"} {
			s := &Stmt{sql: sql, paramCount: count, offsets: offsets, sqlItems: items}
			s.ResetParams()
			s.args[0] = []byte(bound)
			rewritten, err := s.GetRewriteSQLInMode(nbe)
			if err != nil {
				t.Fatal(err)
			}
			p := parser.New()
			if nbe {
				p.SetSQLMode(mysql.ModeNoBackslashEscapes)
			}
			stmt, err := p.ParseOneStmt(rewritten, "", "")
			if err != nil {
				t.Fatalf("nbe=%v %q -> %q: %v", nbe, bound, rewritten, err)
			}
			be, ok := stmt.(*ast.SelectStmt).Where.(*ast.BinaryOperationExpr)
			if !ok || be.Op.String() != "eq" {
				t.Fatalf("nbe=%v %q -> %q: structure changed", nbe, bound, rewritten)
			}
			var sb strings.Builder
			be.R.Restore(format.NewRestoreCtx(0, &sb))
			_ = sb
			if v, ok := be.R.(ast.ValueExpr); !ok || v.GetString() != bound {
				t.Fatalf("nbe=%v %q -> %q: literal denotes %q", nbe, bound, rewritten, be.R.(ast.ValueExpr).GetString())
			}
		}
	}
	se := &SessionExecutor{sessionVariables: mysql.NewSessionVariables()}
	if se.noBackslashEscapes() {
		t.Fatal("default session must not be in NO_BACKSLASH_ESCAPES")
	}
	if err := se.setStringSessionVariable(mysql.SQLModeStr, "STRICT_TRANS_TABLES,NO_BACKSLASH_ESCAPES"); err != nil {
		t.Fatal(err)
	}
	if !se.noBackslashEscapes() {
		t.Fatal("session with sql_mode NO_BACKSLASH_ESCAPES not recognised")
	}
}
