package server

import (
	"strings"
	"testing"

	"github.com/XiaoMi/Gaea/mysql"
	"github.com/XiaoMi/Gaea/parser"
	"github.com/XiaoMi/Gaea/parser/ast"
)

// The session has run SET sql_mode='NO_BACKSLASH_ESCAPES' (passed through to the backend by handleSetVariable).
// A string parameter must still be bound as ONE literal. The rewritten text is parsed with the repository's own
// parser in the mode the backend is in.
func TestFindingC15NoBackslashEscapes(t *testing.T) {
	sql := "select * from t where name = ?"
	count, offsets, items, err := CalcParams(sql)
	if err != nil || count != 1 {
		t.Fatal(err, count)
	}
	s := &Stmt{sql: sql, paramCount: count, offsets: offsets, sqlItems: items}
	s.ResetParams()
	bound := `\' or 1=1 -- x`
	s.args[0] = []byte(bound)
	rewritten, err := s.GetRewriteSQL()
	if err != nil {
		t.Fatal(err)
	}
	p := parser.New()
	p.SetSQLMode(mysql.ModeNoBackslashEscapes)
	stmt, err := p.ParseOneStmt(rewritten, "", "")
	if err != nil {
		t.Fatalf("rewritten statement %q does not parse under NO_BACKSLASH_ESCAPES: %v", rewritten, err)
	}
	sel := stmt.(*ast.SelectStmt)
	var sb strings.Builder
	if be, ok := sel.Where.(*ast.BinaryOperationExpr); !ok || be.Op.String() != "eq" {
		t.Fatalf("rewritten %q: WHERE is no longer `name = <literal>` under NO_BACKSLASH_ESCAPES: %T %v", rewritten, sel.Where, sb.String())
	}
}
