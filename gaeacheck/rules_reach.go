package main

import (
	"fmt"
	"go/token"
	"go/types"
	"os"
	"sort"
	"strings"

	"golang.org/x/tools/go/callgraph"
	"golang.org/x/tools/go/ssa"
)

func init() {
	register("C38", "Clause decided (containment): a panic raised while handling client bytes is confined to that session. WM-C38a: every go statement in a function reachable (VTA call graph) from Server.onConn starts a panic-confined function: it registers a recovering defer before any other call, or all it calls are panic-confined functions / channel and WaitGroup operations and its own body has no indexing, slicing, unchecked type assertion or division; two goroutines are exempt by name with a recorded reason. MP-C38b: in onConn and Session.Run the recovering defer dominates Handshake / ReadEphemeralPacket / execCommand / writeResponse, and the recover handlers contain no panic, os.Exit or standard-library log.Fatal and reach Close() on every path. Hangs, memory exhaustion, unrecoverable fatal errors and nil dereferences inside goroutine bodies are not covered.",
		ruleC38a, ruleC38b)
	register("C07", "Clause decided: planning never performs a write to routing configuration shared between sessions. SW1: every function that writes (SSA Store / MapUpdate / delete / treemap mutator) into an object of a type declared in proxy/router or into sequence.SequenceManager — other than into an object it has just allocated — must be unreachable in the VTA call graph from the session roots ((*Server).onConn, (*Session).Run, exported functions of proxy/plan, the read API of router.Rule/router.Shard). Writers reachable only from the constructors (router.NewRouter, server.NewNamespace) are fine. Plan equality itself is not separately checked.",
		ruleC07)
}

// reachableFrom returns the set of functions reachable in the VTA call graph from roots, with a parent map for paths.
func (c *Ctx) reachableFrom(roots []*ssa.Function) (map[*ssa.Function]bool, map[*ssa.Function]*ssa.Function) {
	cg := c.CallGraph()
	seen := map[*ssa.Function]bool{}
	parent := map[*ssa.Function]*ssa.Function{}
	var q []*callgraph.Node
	for _, r := range roots {
		if r == nil {
			continue
		}
		if n := cg.Nodes[r]; n != nil && !seen[r] {
			seen[r] = true
			q = append(q, n)
		}
	}
	isOnceDo := func(f *ssa.Function) bool {
		return f != nil && f.Pkg != nil && f.Pkg.Pkg.Path() == "sync" && f.Signature.Recv() != nil &&
			isNamed(f.Signature.Recv().Type(), "sync", "Once") && (f.Name() == "Do" || f.Name() == "doSlow")
	}
	add := func(f, from *ssa.Function) {
		if f == nil || seen[f] {
			return
		}
		if n := cg.Nodes[f]; n != nil {
			seen[f] = true
			parent[f] = from
			q = append(q, n)
		}
	}
	for len(q) > 0 {
		n := q[0]
		q = q[1:]
		// sync.Once.Do(f): VTA merges every function ever passed to any Once; bind the callback at the call site instead
		// when it is a static function or closure (otherwise the merged edges are kept).
		onceResolved := true
		if n.Func != nil && n.Func.Blocks != nil {
			allInstrs(n.Func, func(in ssa.Instruction) {
				cc := callCommon(in)
				if cc == nil || !isOnceDo(cc.StaticCallee()) || len(cc.Args) < 2 {
					return
				}
				switch a := cc.Args[1].(type) {
				case *ssa.MakeClosure:
					add(a.Fn.(*ssa.Function), n.Func)
				case *ssa.Function:
					add(a, n.Func)
				default:
					onceResolved = false
				}
			})
		}
		_ = onceResolved
		for _, e := range n.Out {
			f := e.Callee.Func
			if f == nil || seen[f] {
				continue
			}
			if isOnceDo(n.Func) && !isOnceDo(f) && !(f.Pkg != nil && f.Pkg.Pkg.Path() == "sync") {
				if !c.onceUnresolved() {
					continue // callbacks are bound at their Do call sites
				}
			}
			seen[f] = true
			parent[f] = n.Func
			q = append(q, e.Callee)
		}
	}
	return seen, parent
}

// onceUnresolved: some sync.Once.Do call in the program passes a function value that is neither a closure nor a
// named function (then the merged VTA edges out of Once.Do must be kept). Computed once.
func (c *Ctx) onceUnresolved() bool {
	if c.onceChecked {
		return c.onceBad
	}
	c.onceChecked = true
	for fn := range c.allFuncs {
		if fn.Blocks == nil {
			continue
		}
		allInstrs(fn, func(in ssa.Instruction) {
			cc := callCommon(in)
			if cc == nil {
				return
			}
			f := cc.StaticCallee()
			if f == nil || f.Pkg == nil || f.Pkg.Pkg.Path() != "sync" || f.Name() != "Do" || len(cc.Args) < 2 {
				return
			}
			switch cc.Args[1].(type) {
			case *ssa.MakeClosure, *ssa.Function:
			default:
				// parameters of wrappers such as sync.OnceFunc are themselves resolved by VTA inside package sync
				if funcPkgPath(fn) == "sync" {
					return
				}
				if os.Getenv("GAEACHECK_DEBUG") != "" {
					fmt.Println("DEBUG unresolved Once.Do arg in", fn.String(), cc.Args[1].String())
				}
				c.onceBad = true
			}
		})
	}
	return c.onceBad
}

func (c *Ctx) callPath(parent map[*ssa.Function]*ssa.Function, f *ssa.Function) []string {
	var out []string
	for f != nil && len(out) < 40 {
		out = append([]string{c.FuncName(f)}, out...)
		f = parent[f]
	}
	return out
}

// callsRecover: fn (a deferred function) calls the builtin recover().
func callsRecover(fn *ssa.Function) bool {
	found := false
	if fn == nil {
		return false
	}
	allInstrs(fn, func(in ssa.Instruction) {
		if call, ok := in.(*ssa.Call); ok {
			if b, ok := call.Call.Value.(*ssa.Builtin); ok && b.Name() == "recover" {
				found = true
			}
		}
	})
	return found
}

// recoveringDefer returns the Defer instruction of fn that registers a recover handler before any call of a
// non-builtin function, or nil.
func recoveringDefer(fn *ssa.Function) *ssa.Defer {
	if fn == nil || len(fn.Blocks) == 0 {
		return nil
	}
	for _, in := range fn.Blocks[0].Instrs {
		switch x := in.(type) {
		case *ssa.Defer:
			var callee *ssa.Function
			if mc, ok := x.Call.Value.(*ssa.MakeClosure); ok {
				callee, _ = mc.Fn.(*ssa.Function)
			} else {
				callee = x.Call.StaticCallee()
			}
			if callsRecover(callee) {
				return x
			}
			// a harmless defer before the recover one (e.g. defer log.Debug(...)) is fine: keep scanning
		case *ssa.Call:
			if _, isB := x.Call.Value.(*ssa.Builtin); isB {
				continue
			}
			return nil
		case *ssa.Go:
			return nil
		}
	}
	return nil
}

type confineCtx struct {
	c      *Ctx
	memo   map[*ssa.Function]int // 0 unknown, 1 in progress, 2 confined, 3 not confined
	why    map[*ssa.Function]string
	exempt map[*ssa.Function]string
}

func harmlessCallee(cc *ssa.CallCommon) bool {
	if _, ok := cc.Value.(*ssa.Builtin); ok {
		return true
	}
	f := cc.StaticCallee()
	if f == nil {
		return false
	}
	if f.Pkg != nil && f.Pkg.Pkg.Path() == "sync" && f.Signature.Recv() != nil && isNamed(f.Signature.Recv().Type(), "sync", "WaitGroup") {
		return true
	}
	if f.Pkg != nil && f.Pkg.Pkg.Path() == "time" && (f.Name() == "Now" || f.Name() == "Since") {
		return true
	}
	return false
}

// confined: a panic inside fn (or anything it calls) cannot escape fn.
func (cf *confineCtx) confined(fn *ssa.Function, depth int) bool {
	if fn == nil {
		return false
	}
	switch cf.memo[fn] {
	case 2:
		return true
	case 3, 1:
		return false
	}
	cf.memo[fn] = 1
	res := cf.compute(fn, depth)
	if res {
		cf.memo[fn] = 2
	} else {
		cf.memo[fn] = 3
	}
	return res
}

func (cf *confineCtx) compute(fn *ssa.Function, depth int) bool {
	if fn.Blocks == nil {
		cf.why[fn] = "no body (external)"
		return false
	}
	if recoveringDefer(fn) != nil {
		cf.why[fn] = "registers a recovering defer before any call"
		return true
	}
	if depth > 4 {
		cf.why[fn] = "call depth limit"
		return false
	}
	cg := cf.c.CallGraph()
	ok := true
	reason := ""
	allInstrs(fn, func(in ssa.Instruction) {
		if !ok {
			return
		}
		switch x := in.(type) {
		case *ssa.IndexAddr, *ssa.Index, *ssa.Slice, *ssa.Panic:
			ok, reason = false, fmt.Sprintf("body contains %T at %s", x, cf.c.Pos(in.Pos()))
			return
		case *ssa.TypeAssert:
			if !x.CommaOk {
				ok, reason = false, "unchecked type assertion at "+cf.c.Pos(in.Pos())
			}
			return
		case *ssa.BinOp:
			if (x.Op == token.QUO || x.Op == token.REM) && isIntegerType(x.Type()) {
				ok, reason = false, "integer division at "+cf.c.Pos(in.Pos())
			}
			return
		}
		cc := callCommon(in)
		if cc == nil {
			return
		}
		if _, isGo := in.(*ssa.Go); isGo {
			return // checked as its own go statement
		}
		if harmlessCallee(cc) {
			return
		}
		var callees []*ssa.Function
		if f := cc.StaticCallee(); f != nil {
			callees = []*ssa.Function{f}
		} else if mc, isMC := cc.Value.(*ssa.MakeClosure); isMC {
			callees = []*ssa.Function{mc.Fn.(*ssa.Function)}
		} else if n := cg.Nodes[fn]; n != nil {
			for _, e := range n.Out {
				if e.Site == in.(ssa.CallInstruction) && e.Callee.Func != nil {
					callees = append(callees, e.Callee.Func)
				}
			}
		}
		if len(callees) == 0 {
			ok, reason = false, "unresolved call at "+cf.c.Pos(in.Pos())
			return
		}
		for _, f := range callees {
			if !cf.confined(f, depth+1) {
				ok, reason = false, "calls "+cf.c.FuncName(f)+" which is not panic-confined ("+cf.why[f]+")"
				return
			}
		}
	})
	if ok {
		cf.why[fn] = "only calls panic-confined functions and channel/WaitGroup operations; no indexing, slicing, unchecked assertion or division in its own body"
	} else {
		cf.why[fn] = reason
	}
	return ok
}

func isIntegerType(t types.Type) bool {
	b, ok := t.Underlying().(*types.Basic)
	return ok && b.Info()&types.IsInteger != 0
}

func ruleC38a(c *Ctx, r *Report) {
	const rule = "WM-C38a"
	r.floor(rule, 8)
	onConn := c.Method(serverRel, "Server", "onConn")
	if onConn == nil {
		r.undecided(rule, "(*proxy/server.Server).onConn", "anchor", "-", "not found")
		return
	}
	reach, parent := c.reachableFrom([]*ssa.Function{onConn})
	// reflection-based dispatch would make the call graph unsound: fail if reachable
	for f := range reach {
		if f.Pkg != nil && f.Pkg.Pkg.Path() == "reflect" && (f.Name() == "Call" || f.Name() == "MethodByName" || f.Name() == "CallSlice") {
			p := parent[f]
			if p != nil && c.InModule(p) {
				r.undecided(rule, c.FuncName(p), "reflect-dispatch", c.Pos(p.Pos()), "reflect."+f.Name()+" is reachable from the session path through module code: the call graph is not a sound over-approximation")
			}
		}
	}
	cf := &confineCtx{c: c, memo: map[*ssa.Function]int{}, why: map[*ssa.Function]string{}, exempt: map[*ssa.Function]string{}}
	exemptNames := map[string]string{
		"(*" + modPath + "/proxy/server.StatisticManager).recordBackendSQLTiming": "records three label strings and a timestamp into the stats package; no indexing or parsing of client data",
		"(*" + modPath + "/util.ResourcePool).createResourceWithRetry$1":          "dials and handshakes with the backend from configuration; no client byte reaches it",
	}
	// the Server.Run accept loop's `go s.onConn(conn)` is part of the session path as well
	var gos []Site
	run := c.Method(serverRel, "Server", "Run")
	if run != nil {
		allInstrs(run, func(in ssa.Instruction) {
			if g, ok := in.(*ssa.Go); ok && callsFunc(&g.Call, onConn) {
				gos = append(gos, Site{run, in})
			}
		})
	}
	var fns []*ssa.Function
	for f := range reach {
		if c.InModule(f) && !c.IsMockFunc(f) {
			fns = append(fns, f)
		}
	}
	sort.Slice(fns, func(i, j int) bool { return fns[i].String() < fns[j].String() })
	for _, f := range fns {
		allInstrs(f, func(in ssa.Instruction) {
			if _, ok := in.(*ssa.Go); ok {
				gos = append(gos, Site{f, in})
			}
		})
	}
	cg := c.CallGraph()
	for _, s := range gos {
		g := s.In.(*ssa.Go)
		name := c.FuncName(s.Fn)
		var callees []*ssa.Function
		if f := g.Call.StaticCallee(); f != nil {
			callees = []*ssa.Function{f}
		} else if mc, ok := g.Call.Value.(*ssa.MakeClosure); ok {
			callees = []*ssa.Function{mc.Fn.(*ssa.Function)}
		} else if n := cg.Nodes[s.Fn]; n != nil {
			for _, e := range n.Out {
				if e.Site == ssa.CallInstruction(g) && e.Callee.Func != nil {
					callees = append(callees, e.Callee.Func)
				}
			}
		}
		cons := "go:" + goLabel(c, g, callees) + "@" + ordinalOfKind(s.Fn, s.In)
		if len(callees) == 0 {
			r.undecided(rule, name, cons, c.Pos(g.Pos()), "the started function cannot be resolved")
			continue
		}
		bad := ""
		var whys []string
		if len(callees) == 1 && callees[0] == onConn {
			// root of the session goroutine: its recovering defer must precede everything except the listed set-up call
			okRoot := true
			var rec *ssa.Defer
			for _, in := range onConn.Blocks[0].Instrs {
				if d, ok := in.(*ssa.Defer); ok {
					var callee *ssa.Function
					if mc, ok := d.Call.Value.(*ssa.MakeClosure); ok {
						callee, _ = mc.Fn.(*ssa.Function)
					}
					if callsRecover(callee) {
						rec = d
						break
					}
				}
				if call, ok := in.(*ssa.Call); ok {
					if _, isB := call.Call.Value.(*ssa.Builtin); isB {
						continue
					}
					if f := call.Call.StaticCallee(); f == nil || f.Name() != "newSession" {
						okRoot = false
					}
				}
			}
			if rec != nil && okRoot {
				r.ok(rule, name, cons, c.Pos(g.Pos()), "session goroutine root: only newSession (allocates the session, reads no client byte) precedes the recovering defer; see MP-C38b")
			} else {
				r.viol(rule, name, cons, c.Pos(g.Pos()), "the session goroutine does work other than newSession before registering its recovering defer")
			}
			continue
		}
		for _, f := range callees {
			if why, ok := exemptNames[f.String()]; ok {
				whys = append(whys, "exempt by name: "+why)
				continue
			}
			if !cf.confined(f, 0) {
				bad = c.FuncName(f) + ": " + cf.why[f]
				break
			}
			whys = append(whys, cf.why[f])
		}
		if bad == "" {
			r.ok(rule, name, cons, c.Pos(g.Pos()), strings.Join(whys, "; "))
		} else {
			r.viol(rule, name, cons, c.Pos(g.Pos()), "a goroutine on the client session path is not recover-protected ("+bad+"): a panic in it terminates the whole proxy process", c.callPath(parent, s.Fn)...)
		}
	}
}

func goLabel(c *Ctx, g *ssa.Go, callees []*ssa.Function) string {
	if f := g.Call.StaticCallee(); f != nil {
		return f.Name()
	}
	if mc, ok := g.Call.Value.(*ssa.MakeClosure); ok {
		return mc.Fn.Name()
	}
	if g.Call.IsInvoke() {
		return g.Call.Method.Name()
	}
	return "func-value"
}

func ruleC38b(c *Ctx, r *Report) {
	const rule = "MP-C38b"
	r.floor(rule, 6)
	onConn := c.Method(serverRel, "Server", "onConn")
	run := c.Method(serverRel, "Session", "Run")
	closeS := c.Method(serverRel, "Session", "Close")
	if onConn == nil || run == nil || closeS == nil {
		r.undecided(rule, "proxy/server", "anchor", "-", "onConn/Run/Close not found")
		return
	}
	targets := map[*ssa.Function][]string{
		onConn: {"Handshake", "Run"},
		run:    {"ReadEphemeralPacket", "execCommand", "writeResponse"},
	}
	for _, fn := range []*ssa.Function{onConn, run} {
		name := c.FuncName(fn)
		var rec *ssa.Defer
		var handler *ssa.Function
		allInstrs(fn, func(in ssa.Instruction) {
			d, ok := in.(*ssa.Defer)
			if !ok {
				return
			}
			var callee *ssa.Function
			if mc, ok := d.Call.Value.(*ssa.MakeClosure); ok {
				callee, _ = mc.Fn.(*ssa.Function)
			} else {
				callee = d.Call.StaticCallee()
			}
			if callsRecover(callee) && rec == nil {
				rec, handler = d, callee
			}
		})
		if rec == nil {
			r.viol(rule, name, "recover-defer", c.Pos(fn.Pos()), "no recovering defer in the session goroutine's top-level function")
			continue
		}
		for _, t := range targets[fn] {
			calls := callsIn(fn, func(cc *ssa.CallCommon) bool {
				f := cc.StaticCallee()
				return f != nil && f.Name() == t && c.InModule(f)
			})
			if len(calls) == 0 {
				r.undecided(rule, name, "protected:"+t, c.Pos(fn.Pos()), "call not found")
				continue
			}
			all := true
			for _, ci := range calls {
				if !instrDominates(rec, ci) {
					all = false
				}
			}
			if all {
				r.ok(rule, name, "protected:"+t, c.Pos(calls[0].Pos()), "the recovering defer is registered before every call")
			} else {
				r.viol(rule, name, "protected:"+t, c.Pos(calls[0].Pos()), "client bytes are handled before the recovering defer is registered: a panic there kills the process")
			}
		}
		// handler: no panic / os.Exit / std log.Fatal; reaches Close on every path
		hname := c.FuncName(handler)
		badCall := ""
		reach, _ := c.reachableFromLimited(handler, 2)
		for f := range reach {
			if f.Pkg == nil {
				continue
			}
			p := f.Pkg.Pkg.Path()
			if (p == "os" && f.Name() == "Exit") || (p == "log" && strings.HasPrefix(f.Name(), "Fatal")) {
				badCall = p + "." + f.Name()
			}
		}
		hasPanic := false
		allInstrs(handler, func(in ssa.Instruction) {
			if _, ok := in.(*ssa.Panic); ok {
				hasPanic = true
			}
		})
		if badCall != "" || hasPanic {
			r.viol(rule, hname, "handler-no-exit", c.Pos(handler.Pos()), "the recover handler can terminate the process ("+badCall+" panic="+fmt.Sprint(hasPanic)+")")
		} else {
			r.ok(rule, hname, "handler-no-exit", c.Pos(handler.Pos()), "the recover handler contains no panic, os.Exit or log.Fatal")
		}
		exits := searchExits(handler, nil, handler.Blocks[0], SearchOpts{Stop: func(in ssa.Instruction) bool {
			cc := callCommon(in)
			return cc != nil && callsFunc(cc, closeS)
		}})
		if len(exits) == 0 {
			r.ok(rule, hname, "handler-closes-session", c.Pos(handler.Pos()), "every path through the handler closes the session")
		} else {
			r.viol(rule, hname, "handler-closes-session", c.Pos(handler.Pos()), "after a recovered panic the session can be left open", c.pathStrings(exits[0])...)
		}
	}
}

// reachableFromLimited: call-graph reachability up to depth d.
func (c *Ctx) reachableFromLimited(root *ssa.Function, d int) (map[*ssa.Function]bool, int) {
	cg := c.CallGraph()
	seen := map[*ssa.Function]bool{root: true}
	cur := []*ssa.Function{root}
	for i := 0; i < d; i++ {
		var next []*ssa.Function
		for _, f := range cur {
			n := cg.Nodes[f]
			if n == nil {
				continue
			}
			for _, e := range n.Out {
				if g := e.Callee.Func; g != nil && !seen[g] {
					seen[g] = true
					next = append(next, g)
				}
			}
		}
		cur = next
	}
	return seen, len(seen)
}

// ---------------------------------------------------------------------------------------
// C07 sharedwrite

func ruleC07(c *Ctx, r *Report) {
	const rule = "SW1"
	r.floor(rule, 12)
	routerPkg := c.Pkg("proxy/router")
	seqMgr := c.NamedType("proxy/sequence", "SequenceManager")
	if routerPkg == nil {
		r.undecided(rule, "proxy/router", "anchor", "-", "package not loaded")
		return
	}
	// protected set: struct types of proxy/router and SequenceManager, closed under "is held in a field of" for struct
	// types of the module (e.g. util.MurmurHash hangs off the murmur shard and is shared by all sessions as well)
	protSet := map[*types.Named]bool{}
	var work []*types.Named
	addProt := func(n *types.Named) {
		if n == nil || protSet[n] {
			return
		}
		if _, isStruct := n.Underlying().(*types.Struct); !isStruct {
			return
		}
		if n.Obj().Pkg() == nil || !strings.HasPrefix(n.Obj().Pkg().Path(), modPath) {
			return
		}
		protSet[n] = true
		work = append(work, n)
	}
	for _, m := range routerPkg.Members {
		if tn, ok := m.(*ssa.Type); ok {
			addProt(namedOf(tn.Type()))
		}
	}
	addProt(seqMgr)
	var walkT func(t types.Type, d int)
	walkT = func(t types.Type, d int) {
		if d > 6 {
			return
		}
		switch x := types.Unalias(t).(type) {
		case *types.Pointer:
			walkT(x.Elem(), d+1)
		case *types.Slice:
			walkT(x.Elem(), d+1)
		case *types.Array:
			walkT(x.Elem(), d+1)
		case *types.Map:
			walkT(x.Key(), d+1)
			walkT(x.Elem(), d+1)
		case *types.Named:
			addProt(x)
		}
	}
	for len(work) > 0 {
		n := work[len(work)-1]
		work = work[:len(work)-1]
		st := n.Underlying().(*types.Struct)
		for i := 0; i < st.NumFields(); i++ {
			walkT(st.Field(i).Type(), 0)
		}
	}
	var protNames []string
	for n := range protSet {
		protNames = append(protNames, n.Obj().Pkg().Name()+"."+n.Obj().Name())
	}
	sort.Strings(protNames)
	r.note("protected types (%d): %s", len(protNames), strings.Join(protNames, " "))
	protected := func(t types.Type) bool {
		n := namedOf(t)
		return n != nil && protSet[n]
	}
	// rootProtected: follow the address chain (field/index addresses, and loads of fields that hold maps/slices/pointers)
	// down to its base; report the first protected struct type met on the way and the base value.
	var rootInfo func(v ssa.Value, depth int) (prot types.Type, base ssa.Value)
	rootInfo = func(v ssa.Value, depth int) (types.Type, ssa.Value) {
		var prot types.Type
		for depth < 12 {
			depth++
			switch x := v.(type) {
			case *ssa.FieldAddr:
				if protected(x.X.Type()) && prot == nil {
					prot = namedOf(x.X.Type())
				}
				v = x.X
				continue
			case *ssa.IndexAddr:
				v = x.X
				continue
			case *ssa.UnOp:
				if x.Op == token.MUL {
					// load of a field holding a map/slice/pointer: contents belong to the owner of the field
					if fa, ok := x.X.(*ssa.FieldAddr); ok {
						v = fa
						continue
					}
				}
			case *ssa.ChangeType:
				v = x.X
				continue
			case *ssa.Slice:
				v = x.X
				continue
			case *ssa.Lookup:
				// an inner map/slice/pointer stored as a map element belongs to the owner of the outer map
				v = x.X
				continue
			case *ssa.Extract:
				if lk, ok := x.Tuple.(*ssa.Lookup); ok && x.Index == 0 {
					v = lk.X
					continue
				}
			case *ssa.Field:
				if protected(x.X.Type()) && prot == nil {
					prot = namedOf(x.X.Type())
				}
				v = x.X
				continue
			}
			break
		}
		if prot == nil && protected(v.Type()) {
			prot = namedOf(v.Type())
		}
		return prot, v
	}
	type write struct {
		fn   *ssa.Function
		in   ssa.Instruction
		what string
	}
	writers := map[*ssa.Function][]write{}
	treemapMut := map[string]bool{"Put": true, "Remove": true, "Clear": true}
	for _, fn := range c.Funcs {
		if c.IsMockFunc(fn) {
			continue
		}
		allInstrs(fn, func(in ssa.Instruction) {
			var addr ssa.Value
			what := ""
			switch x := in.(type) {
			case *ssa.Store:
				addr, what = x.Addr, "store"
				if _, isCell := x.Addr.(*ssa.Alloc); isCell {
					return
				}
			case *ssa.MapUpdate:
				addr, what = x.Map, "map-update"
			case *ssa.Call:
				if b, ok := x.Call.Value.(*ssa.Builtin); ok && b.Name() == "delete" {
					addr, what = x.Call.Args[0], "map-delete"
				} else if f := x.Call.StaticCallee(); f != nil && f.Pkg != nil && strings.Contains(f.Pkg.Pkg.Path(), "emirpasic/gods") && treemapMut[f.Name()] && len(x.Call.Args) > 0 {
					addr, what = x.Call.Args[0], "container-"+f.Name()
				} else if b, ok := x.Call.Value.(*ssa.Builtin); ok && b.Name() == "append" {
					return // append yields a new slice value; the store of it is what counts
				}
			}
			if addr == nil {
				return
			}
			prot, base := rootInfo(addr, 0)
			if prot == nil {
				return
			}
			if isFreshAlloc(base) {
				return // object created in this function: not yet published
			}
			if call, ok := base.(*ssa.Call); ok {
				// result of a constructor called here (x := newFoo(); x.f = ...)
				if f := call.Call.StaticCallee(); f != nil && (strings.HasPrefix(f.Name(), "New") || strings.HasPrefix(f.Name(), "new")) {
					return
				}
			}
			fld := ""
			if fa, ok := addr.(*ssa.FieldAddr); ok {
				if f := fieldOfAddr(fa); f != nil {
					fld = "." + f.Name()
				}
			}
			writers[fn] = append(writers[fn], write{fn, in, what + ":" + namedOf(prot).Obj().Name() + fld})
		})
	}
	// shared slices: values that alias a slice stored in routing configuration; appending to them (or storing through
	// them) can write the shared backing array although no store to a protected field appears in the SSA
	sharedW := c.sharedSliceWrites(protected)
	for fn, ws := range sharedW {
		for _, w := range ws {
			writers[fn] = append(writers[fn], write{fn, w.in, w.what})
		}
	}
	// roots
	var roots []*ssa.Function
	roots = append(roots, c.Method(serverRel, "Server", "onConn"), c.Method(serverRel, "Session", "Run"))
	if pp := c.Pkg("proxy/plan"); pp != nil {
		for _, m := range pp.Members {
			if f, ok := m.(*ssa.Function); ok && token.IsExported(f.Name()) {
				roots = append(roots, f)
			}
		}
	}
	for _, iface := range []string{"Rule", "Shard"} {
		n := c.NamedType("proxy/router", iface)
		if n == nil {
			continue
		}
		it, _ := n.Underlying().(*types.Interface)
		if it == nil {
			continue
		}
		for _, m := range routerPkg.Members {
			tn, ok := m.(*ssa.Type)
			if !ok {
				continue
			}
			for _, t := range []types.Type{tn.Type(), types.NewPointer(tn.Type())} {
				if !types.Implements(t, it) {
					continue
				}
				ms := c.Prog.MethodSets.MethodSet(t)
				for i := 0; i < it.NumMethods(); i++ {
					if sel := ms.Lookup(routerPkg.Pkg, it.Method(i).Name()); sel != nil {
						if f := c.Prog.MethodValue(sel); f != nil {
							roots = append(roots, f)
						}
					}
				}
			}
		}
	}
	if rt := c.Method("proxy/router", "Router", "GetRule"); rt != nil {
		roots = append(roots, rt, c.Method("proxy/router", "Router", "GetShardRule"), c.Method("proxy/router", "Router", "GetAllRules"))
	}
	reach, parent := c.reachableFrom(roots)
	var wfns []*ssa.Function
	for f := range writers {
		wfns = append(wfns, f)
	}
	sort.Slice(wfns, func(i, j int) bool { return wfns[i].String() < wfns[j].String() })
	for _, f := range wfns {
		name := c.FuncName(f)
		seenCons := map[string]bool{}
		for _, w := range writers[f] {
			if seenCons[w.what] {
				continue
			}
			seenCons[w.what] = true
			if reach[f] {
				r.viol(rule, name, w.what, c.Pos(w.in.Pos()), "routing configuration shared between sessions is written on the planning path (unsynchronised write reachable from a client session)", c.callPath(parent, f)...)
			} else {
				r.ok(rule, name, w.what, c.Pos(w.in.Pos()), "writer is not reachable from any session root (constructor cone)")
			}
		}
	}
	r.note("session roots: %d functions; reachable: %d; writers of routing configuration: %d", len(roots), len(reach), len(wfns))
}

// funcPkgPath: import path of the package a function (closure, generic instantiation) textually belongs to.
func funcPkgPath(fn *ssa.Function) string {
	for fn != nil {
		if fn.Pkg != nil && fn.Pkg.Pkg != nil {
			return fn.Pkg.Pkg.Path()
		}
		if o := fn.Origin(); o != nil && o != fn {
			fn = o
			continue
		}
		fn = fn.Parent()
	}
	return ""
}

type sharedWrite struct {
	in   ssa.Instruction
	what string
}

// sharedSliceWrites: context-insensitive taint of slice values that alias slices held in protected objects, through
// sub-slicing, phis, function results and arguments (not through fields of other objects); reports append() with a
// tainted first argument, element stores and in-place sorts.
func (c *Ctx) sharedSliceWrites(protected func(types.Type) bool) map[*ssa.Function][]sharedWrite {
	inScope := func(fn *ssa.Function) bool {
		p := funcPkgPath(fn)
		return strings.HasPrefix(p, modPath+"/proxy/") || p == modPath+"/util" || strings.HasPrefix(p, modPath+"/util/")
	}
	var fns []*ssa.Function
	for _, fn := range c.Funcs {
		if inScope(fn) && !c.IsMockFunc(fn) {
			fns = append(fns, fn)
		}
	}
	shared := map[ssa.Value]bool{}
	retShared := map[*ssa.Function]map[int]bool{}
	isSliceT := func(t types.Type) bool { _, ok := t.Underlying().(*types.Slice); return ok }
	// implementations by method name for interface invokes
	byName := map[string][]*ssa.Function{}
	for _, fn := range fns {
		if fn.Signature.Recv() != nil {
			byName[fn.Name()] = append(byName[fn.Name()], fn)
		}
	}
	cg := c.CallGraph()
	siteCallees := map[ssa.CallInstruction][]*ssa.Function{}
	for _, fn := range fns {
		if n := cg.Nodes[fn]; n != nil {
			for _, e := range n.Out {
				if e.Site != nil && e.Site.Common().StaticCallee() == nil && !e.Site.Common().IsInvoke() && e.Callee.Func != nil {
					siteCallees[e.Site] = append(siteCallees[e.Site], e.Callee.Func)
				}
			}
		}
	}
	var curSite ssa.CallInstruction
	calleesOf := func(cc *ssa.CallCommon) []*ssa.Function {
		if f := cc.StaticCallee(); f != nil {
			return []*ssa.Function{f}
		}
		if !cc.IsInvoke() && curSite != nil {
			return siteCallees[curSite] // function value: callees from the VTA call graph
		}
		if cc.IsInvoke() {
			var out []*ssa.Function
			iface, _ := cc.Value.Type().Underlying().(*types.Interface)
			for _, f := range byName[cc.Method.Name()] {
				if iface != nil && types.Implements(f.Signature.Recv().Type(), iface) {
					out = append(out, f)
				}
			}
			return out
		}
		return nil
	}
	for round := 0; round < 8; round++ {
		changed := false
		mark := func(v ssa.Value) {
			if v != nil && !shared[v] && isSliceT(v.Type()) {
				shared[v] = true
				changed = true
			}
		}
		for _, fn := range fns {
			allInstrs(fn, func(in ssa.Instruction) {
				switch x := in.(type) {
				case *ssa.UnOp:
					if x.Op == token.MUL {
						if fa, ok := x.X.(*ssa.FieldAddr); ok && protected(fa.X.Type()) && isSliceT(x.Type()) {
							mark(x)
						}
					}
				case *ssa.Field:
					if protected(x.X.Type()) {
						mark(x)
					}
				case *ssa.Slice:
					if shared[x.X] {
						mark(x)
					}
				case *ssa.Phi:
					for _, e := range x.Edges {
						if shared[e] {
							mark(x)
						}
					}
				case *ssa.ChangeType:
					if shared[x.X] {
						mark(x)
					}
				case *ssa.Call:
					curSite = x
					for _, k := range calleesOf(&x.Call) {
						if rs := retShared[k]; rs != nil {
							if x.Call.Signature().Results().Len() == 1 && rs[0] {
								mark(x)
							}
						}
						// arguments -> parameters
						if k.Blocks != nil && inScope(k) {
							args := x.Call.Args
							off := 0
							if x.Call.IsInvoke() {
								off = 1 // receiver is not in Args for invokes
							}
							for i, a := range args {
								pi := i + off
								if shared[a] && pi < len(k.Params) {
									mark(k.Params[pi])
								}
							}
						}
					}
				case *ssa.Extract:
					if call, ok := x.Tuple.(*ssa.Call); ok {
						curSite = call
						for _, k := range calleesOf(&call.Call) {
							if rs := retShared[k]; rs != nil && rs[x.Index] {
								mark(x)
							}
						}
					}
				case *ssa.Return:
					for i, res := range x.Results {
						vals, _ := retValues(x, i)
						for _, v := range append(vals, res) {
							if shared[v] {
								if retShared[fn] == nil {
									retShared[fn] = map[int]bool{}
								}
								if !retShared[fn][i] {
									retShared[fn][i] = true
									changed = true
								}
							}
						}
					}
				}
			})
		}
		if !changed {
			break
		}
	}
	out := map[*ssa.Function][]sharedWrite{}
	for _, fn := range fns {
		allInstrs(fn, func(in ssa.Instruction) {
			switch x := in.(type) {
			case *ssa.Call:
				if b, ok := x.Call.Value.(*ssa.Builtin); ok && b.Name() == "append" && len(x.Call.Args) > 0 && shared[x.Call.Args[0]] {
					out[fn] = append(out[fn], sharedWrite{in, "append-into-shared-slice"})
				}
				if f := x.Call.StaticCallee(); f != nil && f.Pkg != nil && f.Pkg.Pkg.Path() == "sort" && len(x.Call.Args) > 0 && shared[x.Call.Args[0]] {
					out[fn] = append(out[fn], sharedWrite{in, "sort-shared-slice"})
				}
				if b, ok := x.Call.Value.(*ssa.Builtin); ok && b.Name() == "copy" && len(x.Call.Args) > 0 && shared[x.Call.Args[0]] {
					out[fn] = append(out[fn], sharedWrite{in, "copy-into-shared-slice"})
				}
			case *ssa.Store:
				if ia, ok := x.Addr.(*ssa.IndexAddr); ok && shared[ia.X] {
					out[fn] = append(out[fn], sharedWrite{in, "store-into-shared-slice"})
				}
			}
		})
	}
	return out
}
