package main

import (
	"fmt"
	"go/token"
	"go/types"
	"sort"
	"strings"

	"golang.org/x/tools/go/ssa"
)

const backendPath = modPath + "/backend"

func init() {
	register("C25", "Clause decided: a replica marked down is never handed out by the selector. In (*Slice).getNodeFromBalancer every return of a non-nil node is dominated by the true edge of IsStatusUp() on that node, the selection loop is bounded by len(bal.roundRobinQ), and balancer.nextIndex is written only by the atomic add in (*balancer).next. Weight proportions, zero-weight filtering values and datacenter policy are arithmetic over configurations and are not covered.",
		ruleC25)
	register("C26", "Clauses decided: (a) only connection errors feed the breaker: FuseStrategy.Trigger is called only from (*Slice).TryFuse, dominated by the true edge of mysql.AsConnError(err); (b) a disabled breaker never fires: every non-constant-false return of (*SlidingWindow).Trigger is dominated by the load of sw.enabled being true, and NewSlidingWindow builds enabled=false on the non-positive-parameter edge; (c) the window state (buckets/startSec/allErrorCount) is only touched under sw.mu. The window arithmetic ('exactly when the trailing count reaches the minimum') is not covered.",
		ruleC26)
	register("C27", "Clause decided (gate): a fused replica is marked up only behind its recovery strategy: in every health-check function that receives a *HardCoolDownStrategy / *GradualRecoveryStrategy each SetStatusUp() is dominated by the true edge of strategy.AllowRecovery(); TryRecover dispatches nodes with a strategy only to those functions; after a fuse in the hard case UpdateFuseTime is reached on every path. Cool-down arithmetic and penalty growth are not covered.",
		ruleC27)
	register("C28", "Clauses decided: (a) no other event changes a node's status: callers of NodeInfo.SetStatusUp/SetStatusDown and writers of NodeInfo.Status are a frozen table of health-check functions; (b) up only after a successful probe, down on the stated triggers: each SetStatusUp is dominated by the probe connection being non-nil, the true edge of ShouldDownAfterNoAlive and the false edge of checkSlaveSyncStatus reach SetStatusDown on every path. Elapsed-time comparisons, lag values and multi-round histories are not covered.",
		ruleC28)
}

func (c *Ctx) backendMethod(typ, name string) *ssa.Function { return c.Method("backend", typ, name) }

// ---------------------------------------------------------------------------------------
// C25

func ruleC25(c *Ctx, r *Report) {
	const rule = "MP-C25"
	r.floor(rule, 3)
	fn := c.backendMethod("Slice", "getNodeFromBalancer")
	isUp := c.backendMethod("NodeInfo", "IsStatusUp")
	if fn == nil || isUp == nil {
		r.undecided(rule, "backend.(*Slice).getNodeFromBalancer", "anchor", "-", "anchor function or NodeInfo.IsStatusUp not found")
		return
	}
	fname := c.FuncName(fn)
	// (1) every return whose first result may be non-nil is dominated by IsStatusUp()==true on that value
	nret := 0
	for _, ret := range returnsOf(fn) {
		vals, _ := retValues(ret, 0)
		for _, v := range vals {
			if isNilConst(v) {
				continue
			}
			nret++
			cons := fmt.Sprintf("return-node#%d", nret)
			// find a call IsStatusUp(v) whose true edge dominates this return
			okDom := false
			for _, ci := range callsIn(fn, func(cc *ssa.CallCommon) bool { return callsFunc(cc, isUp) }) {
				call := ci.(*ssa.Call)
				if !sameValue(call.Call.Args[0], v) {
					continue
				}
				if dominatedByCond(ret, call, true) {
					okDom = true
				}
			}
			if okDom {
				r.ok(rule, fname, cons, c.Pos(exitPos(ret)), "returned node is dominated by node.IsStatusUp()==true on the same value")
			} else {
				r.viol(rule, fname, cons, c.Pos(exitPos(ret)), "a node is returned on a path that does not pass node.IsStatusUp()==true for that node: a replica marked down can be handed out")
			}
		}
	}
	if nret == 0 {
		r.undecided(rule, fname, "return-node", c.Pos(fn.Pos()), "no return of a node value found")
	}
	// (2) the loop that calls bal.next() is bounded by len(bal.roundRobinQ)
	next := c.backendMethod("balancer", "next")
	rrq := c.Field("backend", "balancer", "roundRobinQ")
	nextCalls := callsIn(fn, func(cc *ssa.CallCommon) bool { return callsFunc(cc, next) })
	if len(nextCalls) == 0 || rrq == nil {
		r.undecided(rule, fname, "loop-bound", c.Pos(fn.Pos()), "no call of (*balancer).next in the selector")
	} else {
		for i, nc := range nextCalls {
			cons := fmt.Sprintf("loop-bound#%d", i+1)
			// the block of the call must be dominated by the true edge of  i < len(load roundRobinQ)
			found := false
			allInstrs(fn, func(in ssa.Instruction) {
				b, ok := in.(*ssa.BinOp)
				if !ok || (b.Op != token.LSS && b.Op != token.GTR && b.Op != token.NEQ) {
					return
				}
				var lenSide ssa.Value = b.Y
				if b.Op == token.GTR {
					lenSide = b.X
				}
				// count-down form: `for left := len(q); left > 0; left--`
				countDown := false
				if ph, isPhi := b.X.(*ssa.Phi); isPhi && b.Op == token.GTR && isIntConst(b.Y, 0) && len(ph.Edges) == 2 {
					for k, e := range ph.Edges {
						o := ph.Edges[1-k]
						if sub, isSub := o.(*ssa.BinOp); isSub && sub.Op == token.SUB && sub.X == ssa.Value(ph) && isIntConst(sub.Y, 1) && isLenOfField(e, rrq) {
							countDown = true
						}
					}
				}
				if !countDown && !isLenOfField(lenSide, rrq) {
					return
				}
				if dominatedByCond(nc, b, true) {
					found = true
				}
			})
			if found {
				r.ok(rule, fname, cons, c.Pos(nc.Pos()), "every call of bal.next() is inside a loop guarded by i < len(bal.roundRobinQ): every queue position is tried before giving up")
			} else {
				r.viol(rule, fname, cons, c.Pos(nc.Pos()), "bal.next() is not guarded by a comparison with len(bal.roundRobinQ): the selector may give up before trying every queue position (an up replica is skipped) ")
			}
		}
	}
	// (3) writers of balancer.nextIndex: only the atomic add in (*balancer).next (constructor literal exempt)
	ni := c.Field("backend", "balancer", "nextIndex")
	if ni == nil {
		r.undecided(rule, "backend.balancer", "field:nextIndex", "-", "field not found")
		return
	}
	nw := 0
	for _, u := range c.fieldUses(ni) {
		if !u.Written {
			continue
		}
		if isFreshAlloc(rootOfAddr(u.FA)) {
			continue
		}
		nw++
		name := c.FuncName(u.Fn)
		if u.Fn == next && onlyAtomicAdd(u.FA) {
			r.ok(rule, name, "write:balancer.nextIndex", c.Pos(u.FA.Pos()), "cursor advanced by sync/atomic add only")
		} else {
			r.viol(rule, name, "write:balancer.nextIndex", c.Pos(u.FA.Pos()), "balancer cursor written outside the atomic add of (*balancer).next")
		}
	}
	if nw == 0 {
		r.undecided(rule, "backend.(*balancer).next", "write:balancer.nextIndex", "-", "no writer of the cursor found")
	}
}

func sameValue(a, b ssa.Value) bool { return sameVal(a, b) }

func isLenOfField(v ssa.Value, f *types.Var) bool {
	call, ok := v.(*ssa.Call)
	if !ok {
		// conversions
		if cv, ok := v.(*ssa.Convert); ok {
			return isLenOfField(cv.X, f)
		}
		return false
	}
	b, ok := call.Call.Value.(*ssa.Builtin)
	if !ok || b.Name() != "len" || len(call.Call.Args) != 1 {
		return false
	}
	return loadedField(call.Call.Args[0]) == f
}

func onlyAtomicAdd(fa *ssa.FieldAddr) bool {
	refs := fa.Referrers()
	if refs == nil {
		return false
	}
	n := 0
	for _, r := range *refs {
		switch x := r.(type) {
		case *ssa.UnOp, *ssa.DebugRef:
			continue
		case *ssa.Call:
			f := x.Call.StaticCallee()
			if f == nil || f.Pkg == nil || f.Pkg.Pkg.Path() != "sync/atomic" || !strings.HasPrefix(f.Name(), "Add") {
				return false
			}
			n++
		default:
			return false
		}
	}
	return n > 0
}

// ---------------------------------------------------------------------------------------
// C26

func ruleC26(c *Ctx, r *Report) {
	r.floor("MP-C26a", 1)
	r.floor("MP-C26b", 2)
	r.floor("ER-C26c", 3)
	trig := c.IfaceMethod("backend", "FuseStrategy", "Trigger")
	tryFuse := c.backendMethod("Slice", "TryFuse")
	asConn := c.Func("mysql", "AsConnError")
	if trig == nil || tryFuse == nil || asConn == nil {
		r.undecided("MP-C26a", "backend.(*Slice).TryFuse", "anchor", "-", "FuseStrategy.Trigger, TryFuse or mysql.AsConnError not found")
	} else {
		sites := c.callSites(func(cc *ssa.CallCommon) bool { return callsIfaceMethod(cc, trig) })
		if len(sites) == 0 {
			r.undecided("MP-C26a", "-", "call:FuseStrategy.Trigger", "-", "no call of FuseStrategy.Trigger in the module")
		}
		for _, s := range sites {
			name := c.FuncName(s.Fn)
			if s.Fn != tryFuse {
				r.viol("MP-C26a", name, "call:FuseStrategy.Trigger", c.Pos(s.In.Pos()), "the breaker is fed outside (*Slice).TryFuse: errors that are not connection errors may count")
				continue
			}
			ok := false
			for _, ci := range callsIn(tryFuse, func(cc *ssa.CallCommon) bool { return callsFunc(cc, asConn) }) {
				call := ci.(*ssa.Call)
				// argument must be the err parameter
				if p, isP := stripValue(call.Call.Args[0]).(*ssa.Parameter); !isP || !isErrorType(p.Type()) {
					continue
				}
				if dominatedByCond(s.In, call, true) {
					ok = true
				}
			}
			if ok {
				r.ok("MP-C26a", name, "call:FuseStrategy.Trigger", c.Pos(s.In.Pos()), "dominated by mysql.AsConnError(err)==true")
			} else {
				r.viol("MP-C26a", name, "call:FuseStrategy.Trigger", c.Pos(s.In.Pos()), "Trigger is reachable without mysql.AsConnError(err) being true: other errors count towards the fuse threshold")
			}
		}
	}
	// b: disabled breaker never fires
	swTrig := c.backendMethod("SlidingWindow", "Trigger")
	enabled := c.Field("backend", "SlidingWindow", "enabled")
	if swTrig == nil || enabled == nil {
		r.undecided("MP-C26b", "backend.(*SlidingWindow).Trigger", "anchor", "-", "not found")
	} else {
		name := c.FuncName(swTrig)
		var loads []ssa.Value
		allInstrs(swTrig, func(in ssa.Instruction) {
			if v, ok := in.(ssa.Value); ok && loadedField(v) == enabled {
				loads = append(loads, v)
			}
		})
		n := 0
		for _, ret := range returnsOf(swTrig) {
			vals, _ := retValues(ret, 0)
			maybeTrue := false
			for _, v := range vals {
				if b, isC := constBool(v); !isC || b {
					maybeTrue = true
				}
			}
			if !maybeTrue {
				continue
			}
			n++
			cons := fmt.Sprintf("return-maybe-true#%d", n)
			dom := false
			for _, l := range loads {
				if dominatedByCond(ret, l, true) {
					dom = true
				}
			}
			if !dom {
				// or: every value that may be true is computed only under sw.enabled==true (named result assigned
				// inside `if sw.enabled {…}`, false otherwise)
				all := len(vals) > 0
				// loads of the (defer-spilled) result cell are resolved to the stores that reach them
				var expand func(v ssa.Value, depth int) []ssa.Value
				expand = func(v ssa.Value, depth int) []ssa.Value {
					var out []ssa.Value
					for _, lf := range phiLeaves(v) {
						if u, ok := lf.(*ssa.UnOp); ok && u.Op == token.MUL && depth > 0 {
							if cell, ok := u.X.(*ssa.Alloc); ok {
								if sts, _, ok := reachingStores(cell, u); ok {
									for _, st := range sts {
										out = append(out, expand(st.Val, depth-1)...)
									}
									continue
								}
							}
						}
						out = append(out, lf)
					}
					return out
				}
				for _, v := range vals {
					for _, lf := range expand(v, 4) {
						if b, isC := constBool(lf); isC && !b {
							continue
						}
						in, isIn := lf.(ssa.Instruction)
						under := false
						if isIn {
							for _, l := range loads {
								if dominatedByCond(in, l, true) {
									under = true
								}
							}
						}
						if !under {
							all = false
						}
					}
				}
				dom = all
			}
			if dom {
				r.ok("MP-C26b", name, cons, c.Pos(exitPos(ret)), "dominated by sw.enabled==true")
			} else {
				r.viol("MP-C26b", name, cons, c.Pos(exitPos(ret)), "Trigger can answer true without sw.enabled being true: a disabled breaker fires")
			}
		}
		if n == 0 {
			r.undecided("MP-C26b", name, "return-maybe-true", c.Pos(swTrig.Pos()), "no non-constant return")
		}
		// constructor: on the edge (windowSec<=0 || fuseMinErrorCount<=0) enabled must be stored false (or not stored: zero value)
		ctor := c.Func("backend", "NewSlidingWindow")
		if ctor == nil {
			r.undecided("MP-C26b", "backend.NewSlidingWindow", "anchor", "-", "not found")
		} else {
			cname := c.FuncName(ctor)
			// every Store of `true` (or non-constant) into field enabled must be dominated by windowSec>0 and fuseMinErrorCount>0
			nst := 0
			allInstrs(ctor, func(in ssa.Instruction) {
				st, ok := in.(*ssa.Store)
				if !ok || fieldOfAddr(st.Addr) != enabled {
					return
				}
				if b, isC := constBool(st.Val); isC && !b {
					return
				}
				nst++
				cons := fmt.Sprintf("store-enabled-true#%d", nst)
				okAll := true
				for i := 0; i < 2 && i < len(ctor.Params); i++ {
					if !dominatedByPositive(st, ctor.Params[i]) {
						okAll = false
					}
				}
				if okAll && len(ctor.Params) >= 2 {
					r.ok("MP-C26b", cname, cons, c.Pos(st.Pos()), "enabled=true only behind windowSec>0 && fuseMinErrorCount>0")
				} else {
					r.viol("MP-C26b", cname, cons, c.Pos(st.Pos()), "breaker enabled although a parameter may be non-positive (disabled configuration)")
				}
			})
			if nst == 0 {
				r.undecided("MP-C26b", cname, "store-enabled-true", c.Pos(ctor.Pos()), "constructor never enables the breaker")
			}
		}
	}
	// c: window state only under sw.mu
	mu := c.Field("backend", "SlidingWindow", "mu")
	for _, fnm := range []string{"buckets", "startSec", "allErrorCount"} {
		f := c.Field("backend", "SlidingWindow", fnm)
		if f == nil || mu == nil {
			r.undecided("ER-C26c", "backend.SlidingWindow", "field:"+fnm, "-", "field not found")
			continue
		}
		users := map[*ssa.Function]bool{}
		for _, u := range c.fieldUses(f) {
			if isFreshAlloc(rootOfAddr(u.FA)) {
				continue
			}
			users[u.Fn] = true
		}
		var bad []string
		for fn := range users {
			if !c.holdsLockEverywhere(fn, f, mu, 0) {
				bad = append(bad, c.FuncName(fn))
			}
		}
		sort.Strings(bad)
		if len(users) == 0 {
			r.undecided("ER-C26c", "backend.SlidingWindow", "field:"+fnm, "-", "no access found")
		} else if len(bad) == 0 {
			r.ok("ER-C26c", "backend.SlidingWindow", "field:"+fnm, "-", fmt.Sprintf("%d accessor function(s) all hold sw.mu (directly or through all their callers)", len(users)))
		} else {
			r.viol("ER-C26c", "backend.SlidingWindow", "field:"+fnm, "-", "window state accessed without sw.mu in: "+strings.Join(bad, ", "))
		}
	}
}

// dominatedByPositive: instruction is dominated by an edge on which integer parameter p > 0.
func dominatedByPositive(in ssa.Instruction, p ssa.Value) bool {
	refs := p.Referrers()
	if refs == nil {
		return false
	}
	for _, rr := range *refs {
		b, ok := rr.(*ssa.BinOp)
		if !ok {
			continue
		}
		var want bool
		switch {
		case b.X == p && b.Op == token.LEQ && isIntConst(b.Y, 0): // p <= 0  -> need false
			want = false
		case b.X == p && b.Op == token.LSS && isIntConst(b.Y, 1):
			want = false
		case b.X == p && b.Op == token.GTR && isIntConst(b.Y, 0):
			want = true
		case b.X == p && b.Op == token.GEQ && isIntConst(b.Y, 1):
			want = true
		case b.Y == p && b.Op == token.LSS && isIntConst(b.X, 0): // 0 < p
			want = true
		case b.Y == p && b.Op == token.GEQ && isIntConst(b.X, 0): // 0 >= p
			want = false
		default:
			continue
		}
		if dominatedByCond(in, b, want) {
			return true
		}
	}
	return false
}

func isIntConst(v ssa.Value, k int64) bool {
	i, ok := constInt(v)
	return ok && i == k
}

// holdsLockEverywhere: every access to `field` in fn happens with mutex field `mu` (of the same struct) held:
// a Lock() call on the mu field dominates the access and the unlock is deferred or comes after; or fn never locks
// but every caller (static, in module) calls it from a region holding the lock.
func (c *Ctx) holdsLockEverywhere(fn *ssa.Function, field, mu *types.Var, depth int) bool {
	if depth > 3 {
		return false
	}
	var accesses []ssa.Instruction
	allInstrs(fn, func(in ssa.Instruction) {
		if fa, ok := in.(*ssa.FieldAddr); ok && fieldOfAddr(fa) == field && !isFreshAlloc(rootOfAddr(fa)) {
			accesses = append(accesses, in)
		}
	})
	allHeld := true
	for _, a := range accesses {
		if !c.lockHeldAt(fn, a, mu) {
			allHeld = false
		}
	}
	if allHeld {
		return true
	}
	// callers
	sites := c.callSites(func(cc *ssa.CallCommon) bool { return callsFunc(cc, fn) })
	if len(sites) == 0 {
		return false
	}
	for _, s := range sites {
		if _, isGo := s.In.(*ssa.Go); isGo {
			return false
		}
		if !c.lockHeldAt(s.Fn, s.In, mu) && !c.holdsLockAtAllCallers(s.Fn, mu, depth+1) {
			return false
		}
	}
	return true
}

func (c *Ctx) holdsLockAtAllCallers(fn *ssa.Function, mu *types.Var, depth int) bool {
	if depth > 3 {
		return false
	}
	sites := c.callSites(func(cc *ssa.CallCommon) bool { return callsFunc(cc, fn) })
	if len(sites) == 0 {
		return false
	}
	for _, s := range sites {
		if _, isGo := s.In.(*ssa.Go); isGo {
			return false
		}
		if !c.lockHeldAt(s.Fn, s.In, mu) && !c.holdsLockAtAllCallers(s.Fn, mu, depth+1) {
			return false
		}
	}
	return true
}

// lockHeldAt: a Lock()/RLock() on field mu dominates `at`, and no Unlock() on mu (non-deferred) lies on a path
// between that Lock and `at`.
func (c *Ctx) lockHeldAt(fn *ssa.Function, at ssa.Instruction, mu *types.Var) bool {
	isMuCall := func(in ssa.Instruction, names ...string) bool {
		call, ok := in.(*ssa.Call)
		if !ok {
			return false
		}
		f := call.Call.StaticCallee()
		if f == nil || f.Pkg == nil || f.Pkg.Pkg.Path() != "sync" {
			return false
		}
		match := false
		for _, n := range names {
			if f.Name() == n {
				match = true
			}
		}
		if !match || len(call.Call.Args) == 0 {
			return false
		}
		return muFieldOf(call.Call.Args[0]) == mu
	}
	for _, b := range fn.Blocks {
		for _, in := range b.Instrs {
			if !isMuCall(in, "Lock", "RLock") || !instrDominates(in, at) {
				continue
			}
			// no explicit Unlock between lock and at
			exits := false
			reached := false
			searchExits(fn, in, nil, SearchOpts{
				Stop: func(x ssa.Instruction) bool {
					if x == at {
						reached = true
						return true
					}
					if isMuCall(x, "Unlock", "RUnlock") {
						// an unlock before reaching `at` on this path: mark and stop
						exits = true
						return true
					}
					return false
				},
			})
			if reached && !exits {
				return true
			}
			if reached && exits {
				// some path unlocks before another path reaches at: check that `at` is not reachable after an unlock
				if !reachableAfterUnlock(fn, in, at, func(x ssa.Instruction) bool { return isMuCall(x, "Unlock", "RUnlock") }) {
					return true
				}
			}
		}
	}
	return false
}

func reachableAfterUnlock(fn *ssa.Function, lock, at ssa.Instruction, isUnlock func(ssa.Instruction) bool) bool {
	// from every unlock reachable from lock, can we reach `at` without passing another lock? conservative: yes if reachable at all.
	found := false
	allInstrs(fn, func(u ssa.Instruction) {
		if !isUnlock(u) || found {
			return
		}
		if !instrDominates(lock, u) {
			return
		}
		searchExits(fn, u, nil, SearchOpts{Stop: func(x ssa.Instruction) bool {
			if x == at {
				found = true
				return true
			}
			return x == lock
		}})
	})
	return found
}

// muFieldOf: v is the address of a mutex field (possibly of an embedded mutex): returns the field.
func muFieldOf(v ssa.Value) *types.Var {
	if f := fieldOfAddr(v); f != nil {
		return f
	}
	return loadedField(v) // pointer-typed mutex field: s.lock.Lock()
}

// ---------------------------------------------------------------------------------------
// C27 / C28

type statusFacts struct {
	up, down, allow *ssa.Function
	hard, gradual   *types.Named
	probe           *ssa.Function // (*NodeInfo).GetPooledConnectWithHealthCheck
	shouldDown      *ssa.Function
	syncStatus      *ssa.Function
}

func (c *Ctx) statusFacts() *statusFacts {
	return &statusFacts{
		up:         c.backendMethod("NodeInfo", "SetStatusUp"),
		down:       c.backendMethod("NodeInfo", "SetStatusDown"),
		hard:       c.NamedType("backend", "HardCoolDownStrategy"),
		gradual:    c.NamedType("backend", "GradualRecoveryStrategy"),
		probe:      c.backendMethod("NodeInfo", "GetPooledConnectWithHealthCheck"),
		shouldDown: c.backendMethod("NodeInfo", "ShouldDownAfterNoAlive"),
		syncStatus: c.Func("backend", "checkSlaveSyncStatus"),
	}
}

// strategyParam returns the parameter of fn whose type is *HardCoolDownStrategy or *GradualRecoveryStrategy.
func (sf *statusFacts) strategyParam(fn *ssa.Function) *ssa.Parameter {
	for _, p := range fn.Params {
		n := namedOf(p.Type())
		if n != nil && (n == sf.hard || n == sf.gradual) {
			return p
		}
	}
	return nil
}

func ruleC27(c *Ctx, r *Report) {
	const rule = "MP-C27"
	r.floor(rule, 5)
	sf := c.statusFacts()
	if sf.up == nil || sf.down == nil || sf.hard == nil || sf.gradual == nil {
		r.undecided(rule, "backend", "anchor", "-", "SetStatusUp/SetStatusDown or the strategy types not found")
		return
	}
	// (1) every SetStatusUp in a function with a strategy parameter is gated by strategy.AllowRecovery()==true
	upSites := c.callSites(func(cc *ssa.CallCommon) bool { return callsFunc(cc, sf.up) })
	gated := map[*ssa.Function]bool{}
	for _, s := range upSites {
		p := sf.strategyParam(s.Fn)
		if p == nil {
			continue
		}
		gated[s.Fn] = true
		name := c.FuncName(s.Fn)
		ok := false
		allInstrs(s.Fn, func(in ssa.Instruction) {
			call, isCall := in.(*ssa.Call)
			if !isCall {
				return
			}
			f := call.Call.StaticCallee()
			if f == nil || f.Name() != "AllowRecovery" || len(call.Call.Args) == 0 || stripValue(call.Call.Args[0]) != p {
				return
			}
			if dominatedByCond(s.In, call, true) {
				ok = true
			}
		})
		cons := "call:SetStatusUp@" + branchLabel(c, s.In)
		if ok {
			r.ok(rule, name, cons, c.Pos(s.In.Pos()), "dominated by strategy.AllowRecovery()==true")
		} else {
			r.viol(rule, name, cons, c.Pos(s.In.Pos()), "a replica that has a recovery strategy is marked up without consulting strategy.AllowRecovery(): a fused replica can come back before its cool-down")
		}
	}
	// (2) dispatch: in TryRecover the ungated checker (checkWithNoRecovery) is called only when a strategy is nil,
	// and every SetStatusUp caller without a strategy parameter is in the frozen table.
	tryRecover := c.backendMethod("Slice", "TryRecover")
	noRec := c.backendMethod("Slice", "checkWithNoRecovery")
	fuseF := c.Field("backend", "NodeInfo", "FuseStrategy")
	recF := c.Field("backend", "NodeInfo", "RecoveryStrategy")
	if tryRecover == nil || noRec == nil || fuseF == nil || recF == nil {
		r.undecided(rule, "backend.(*Slice).TryRecover", "dispatch", "-", "anchor not found")
	} else {
		for _, s := range c.callSites(func(cc *ssa.CallCommon) bool { return callsFunc(cc, noRec) }) {
			name := c.FuncName(s.Fn)
			if s.Fn != tryRecover {
				r.viol(rule, name, "call:checkWithNoRecovery", c.Pos(s.In.Pos()), "the strategy-less checker is called outside TryRecover's dispatch")
				continue
			}
			// edges on which FuseStrategy==nil or RecoveryStrategy==nil
			var edges []CondEdge
			allInstrs(tryRecover, func(in ssa.Instruction) {
				v, isV := in.(ssa.Value)
				if !isV {
					return
				}
				f := loadedField(v)
				if f != fuseF && f != recF {
					return
				}
				for _, e := range nilEdges(v) {
					if e.Val {
						edges = append(edges, e)
					}
				}
			})
			if edgesDominate(tryRecover, edges, s.In.Block()) {
				r.ok(rule, name, "call:checkWithNoRecovery", c.Pos(s.In.Pos()), "reached only when node.FuseStrategy==nil or node.RecoveryStrategy==nil")
			} else {
				r.viol(rule, name, "call:checkWithNoRecovery", c.Pos(s.In.Pos()), "a node that has a fuse and recovery strategy can be sent to the checker that ignores the strategy")
			}
		}
	}
	for _, s := range upSites {
		if gated[s.Fn] {
			continue
		}
		name := c.FuncName(s.Fn)
		switch s.Fn {
		case noRec:
			r.ok(rule, name, "call:SetStatusUp@"+branchLabel(c, s.In), c.Pos(s.In.Pos()), "strategy-less checker: only reached for nodes without a recovery strategy (dispatch obligation)")
		case c.backendMethod("Slice", "checkBackendMasterStatus"):
			r.ok(rule, name, "call:SetStatusUp@"+branchLabel(c, s.In), c.Pos(s.In.Pos()), "master checker: masters are never fused (TryFuse is reached from the replica selector only)")
		default:
			if why, ok := allowedVia(c, map[*ssa.Function]string{
				noRec: "strategy-less checker: only reached for nodes without a recovery strategy (dispatch obligation)",
				c.backendMethod("Slice", "checkBackendMasterStatus"): "master checker: masters are never fused (TryFuse is reached from the replica selector only)",
			}, s.Fn); ok {
				r.ok(rule, name, "call:SetStatusUp@"+branchLabel(c, s.In), c.Pos(s.In.Pos()), why)
				continue
			}
			r.viol(rule, name, "call:SetStatusUp@"+branchLabel(c, s.In), c.Pos(s.In.Pos()), "node marked up in a function that neither receives the recovery strategy nor is a listed strategy-less checker")
		}
	}
	// masters are never fused: TryFuse callers
	tryFuse := c.backendMethod("Slice", "TryFuse")
	withFuse := c.backendMethod("Slice", "getConnWithFuse")
	fromBal := c.backendMethod("Slice", "getConnFromBalancer")
	for _, s := range c.callSites(func(cc *ssa.CallCommon) bool { return callsFunc(cc, tryFuse) }) {
		if s.Fn == withFuse {
			r.ok(rule, c.FuncName(s.Fn), "call:TryFuse", c.Pos(s.In.Pos()), "fuse point of the replica selector")
		} else {
			r.viol(rule, c.FuncName(s.Fn), "call:TryFuse", c.Pos(s.In.Pos()), "TryFuse called outside getConnWithFuse: nodes other than selected replicas can be fused")
		}
	}
	for _, s := range c.callSites(func(cc *ssa.CallCommon) bool { return callsFunc(cc, withFuse) }) {
		if s.Fn == fromBal {
			r.ok(rule, c.FuncName(s.Fn), "call:getConnWithFuse", c.Pos(s.In.Pos()), "replica path")
		} else {
			r.viol(rule, c.FuncName(s.Fn), "call:getConnWithFuse", c.Pos(s.In.Pos()), "getConnWithFuse called outside the replica selector")
		}
	}
	// (3) TryFuse: after SetStatusDown, in the hard case UpdateFuseTime is reached on every path
	if tryFuse == nil {
		r.undecided(rule, "backend.(*Slice).TryFuse", "fuse-time", "-", "not found")
		return
	}
	tfName := c.FuncName(tryFuse)
	downs := callsIn(tryFuse, func(cc *ssa.CallCommon) bool { return callsFunc(cc, sf.down) })
	if len(downs) == 0 {
		r.undecided(rule, tfName, "fuse-time", c.Pos(tryFuse.Pos()), "TryFuse never marks the node down")
	}
	hardUpd := c.backendMethod("HardCoolDownStrategy", "UpdateFuseTime")
	gradUpd := c.backendMethod("GradualRecoveryStrategy", "UpdateFuseTime")
	for i, d := range downs {
		for _, variant := range []struct {
			label string
			typ   *types.Named
			upd   *ssa.Function
		}{{"hard", sf.hard, hardUpd}, {"gradual", sf.gradual, gradUpd}} {
			cons := fmt.Sprintf("after-SetStatusDown#%d:%s:UpdateFuseTime", i+1, variant.label)
			// the search is written over (function, changed-flag) so that it continues into a package-private helper the
			// dispatch over the strategy was extracted into (the flag is followed through the call's arguments)
			var search func(fn *ssa.Function, from ssa.Instruction, changedVal ssa.Value, depth int) []Exit
			search = func(fn *ssa.Function, from ssa.Instruction, changedVal ssa.Value, depth int) []Exit {
				var start *ssa.BasicBlock
				if from == nil {
					start = fn.Blocks[0]
				}
				return searchExits(fn, from, start, SearchOpts{
					Stop: func(in ssa.Instruction) bool {
						cc := callCommon(in)
						if cc == nil {
							return false
						}
						if callsFunc(cc, variant.upd) {
							return true
						}
						h := staticCallee(cc)
						if depth == 0 || h == nil || !c.InModule(h) || len(h.Blocks) == 0 || h.Object() == nil || h.Object().Exported() {
							return false
						}
						var flag ssa.Value
						for k, a := range cc.Args {
							if changedVal != nil && stripValue(a) == changedVal && k < len(h.Params) {
								flag = h.Params[k]
							}
						}
						return len(search(h, nil, flag, depth-1)) == 0
					},
					EdgeOK: func(b *ssa.BasicBlock, i int) bool {
						iff, ok := b.Instrs[len(b.Instrs)-1].(*ssa.If)
						if !ok {
							return true
						}
						// type-switch pruning: ok-edge of an assertion to another type, !ok edge of the assertion to this type
						if ex, isEx := iff.Cond.(*ssa.Extract); isEx && ex.Index == 1 {
							if ta, isTA := ex.Tuple.(*ssa.TypeAssert); isTA {
								n := namedOf(ta.AssertedType)
								if n == variant.typ {
									return i == 0
								}
								return i == 1
							}
						}
						// nil-case of the type switch (strategy == nil): not this variant
						if bo, isB := iff.Cond.(*ssa.BinOp); isB && (bo.Op == token.EQL) && (isNilConst(bo.X) || isNilConst(bo.Y)) {
							if _, isIface := bo.X.Type().Underlying().(*types.Interface); isIface {
								return i == 1
							}
						}
						// gradual policy: `if !changed { return }` (node was already down: the first fuse set the time) is accepted
						if variant.label == "gradual" && changedVal != nil {
							for _, ce := range condEdges(changedVal) {
								if ce.If == iff && ce.Succ == i && !ce.Val {
									return false
								}
							}
						}
						return true
					},
				})
			}
			exits := search(tryFuse, d, d.(ssa.Value), 1)
			if variant.upd == nil {
				r.undecided(rule, tfName, cons, c.Pos(d.Pos()), "UpdateFuseTime method not found")
			} else if len(exits) == 0 {
				r.ok(rule, tfName, cons, c.Pos(d.Pos()), "every path after the fuse reaches strategy.UpdateFuseTime for this policy")
			} else {
				r.viol(rule, tfName, cons, c.Pos(d.Pos()), "after marking the node down there is a path to an exit that does not record the fuse time: the cool-down is measured from an older fuse", c.pathStrings(exits[0])...)
			}
		}
	}
}

// branchLabel gives a line-independent label for a call inside a function: the ordinal of the call among calls of the
// same callee in that function.
func branchLabel(c *Ctx, in ssa.Instruction) string {
	cc := callCommon(in)
	n := 0
	idx := 0
	allInstrs(in.Parent(), func(x ssa.Instruction) {
		if xc := callCommon(x); xc != nil && xc.StaticCallee() == cc.StaticCallee() && xc.StaticCallee() != nil {
			n++
			if x == in {
				idx = n
			}
		}
	})
	return fmt.Sprintf("%d", idx)
}

func ruleC28(c *Ctx, r *Report) {
	r.floor("WM-C28a", 9)
	r.floor("MP-C28b", 10)
	sf := c.statusFacts()
	if sf.up == nil || sf.down == nil || sf.probe == nil || sf.shouldDown == nil || sf.syncStatus == nil {
		r.undecided("WM-C28a", "backend", "anchor", "-", "anchor functions not found")
		return
	}
	allowed := map[*ssa.Function]string{
		c.backendMethod("Slice", "checkBackendMasterStatus"): "master health check",
		c.backendMethod("Slice", "checkWithNoRecovery"):      "replica health check (no strategy)",
		c.backendMethod("Slice", "checkWithHardRecovery"):    "replica health check (hard cool-down)",
		c.backendMethod("Slice", "checkWithGradualRecovery"): "replica health check (gradual)",
	}
	tryFuse := c.backendMethod("Slice", "TryFuse")
	sites := c.callSites(func(cc *ssa.CallCommon) bool { return callsFunc(cc, sf.up) || callsFunc(cc, sf.down) })
	for _, s := range sites {
		cc := callCommon(s.In)
		which := "SetStatusUp"
		if callsFunc(cc, sf.down) {
			which = "SetStatusDown"
		}
		name := c.FuncName(s.Fn)
		cons := "call:" + which + "@" + branchLabel(c, s.In)
		if why, ok := allowedVia(c, allowed, s.Fn); ok {
			r.ok("WM-C28a", name, cons, c.Pos(s.In.Pos()), why)
		} else if s.Fn == tryFuse && which == "SetStatusDown" {
			r.ok("WM-C28a", name, cons, c.Pos(s.In.Pos()), "circuit breaker (C26/C27)")
		} else {
			r.viol("WM-C28a", name, cons, c.Pos(s.In.Pos()), "node status changed outside the health checks and the circuit breaker")
		}
	}
	// writers of NodeInfo.Status
	st := c.Field("backend", "NodeInfo", "Status")
	for _, u := range c.fieldUses(st) {
		if !u.Written {
			continue
		}
		name := c.FuncName(u.Fn)
		if u.Fn == sf.up || u.Fn == sf.down {
			r.ok("WM-C28a", name, "write:NodeInfo.Status", c.Pos(u.FA.Pos()), "the setter itself")
		} else if isFreshAlloc(rootOfAddr(u.FA)) {
			r.ok("WM-C28a", name, "write:NodeInfo.Status(new object)", c.Pos(u.FA.Pos()), "constructor literal of a node that is not yet published")
		} else {
			r.viol("WM-C28a", name, "write:NodeInfo.Status", c.Pos(u.FA.Pos()), "NodeInfo.Status written (or its address taken) outside SetStatusUp/SetStatusDown")
		}
	}
	// b: per checker
	var checkers []*ssa.Function
	for fn := range allowed {
		if fn != nil {
			checkers = append(checkers, fn)
		}
	}
	sort.Slice(checkers, func(i, j int) bool { return checkers[i].Name() < checkers[j].Name() })
	masterChecker := c.backendMethod("Slice", "checkBackendMasterStatus")
	for i, fn := range checkers {
		// a checker whose probe round was extracted into a package-private helper is analysed at that helper
		if len(callsIn(fn, func(cc *ssa.CallCommon) bool { return callsFunc(cc, sf.probe) })) == 0 {
			for _, ci := range callsIn(fn, func(cc *ssa.CallCommon) bool {
				h := staticCallee(cc)
				return h != nil && c.InModule(h) && h.Object() != nil && !h.Object().Exported() && len(callsIn(h, func(x *ssa.CallCommon) bool { return callsFunc(x, sf.probe) })) > 0
			}) {
				if fn == masterChecker {
					masterChecker = staticCallee(callCommon(ci))
				}
				fn = staticCallee(callCommon(ci))
				checkers[i] = fn
			}
		}
		name := c.FuncName(fn)
		// probe result
		var conn ssa.Value
		for _, ci := range callsIn(fn, func(cc *ssa.CallCommon) bool { return callsFunc(cc, sf.probe) }) {
			if ex := extractOf(ci.(ssa.Value), 0); ex != nil {
				conn = ex
			}
		}
		if conn == nil {
			r.undecided("MP-C28b", name, "probe", c.Pos(fn.Pos()), "no health probe (GetPooledConnectWithHealthCheck) in this checker")
			continue
		}
		for _, up := range callsIn(fn, func(cc *ssa.CallCommon) bool { return callsFunc(cc, sf.up) }) {
			cons := "call:SetStatusUp@" + branchLabel(c, up) + ":after-probe"
			ok := false
			for _, e := range nilEdges(conn) {
				if !e.Val && instrDominatedByEdge(up, e) {
					ok = true
				}
			}
			if ok {
				r.ok("MP-C28b", name, cons, c.Pos(up.Pos()), "dominated by the probe connection being non-nil")
			} else {
				r.viol("MP-C28b", name, cons, c.Pos(up.Pos()), "node marked up on a path that does not require a successful probe (conn != nil)")
			}
		}
		// down triggers
		for _, ci := range callsIn(fn, func(cc *ssa.CallCommon) bool { return callsFunc(cc, sf.shouldDown) }) {
			ex := extractOf(ci.(ssa.Value), 0)
			if ex == nil {
				r.viol("MP-C28b", name, "trigger:ShouldDownAfterNoAlive", c.Pos(ci.Pos()), "result of ShouldDownAfterNoAlive is not used")
				continue
			}
			c.mustReachOnEdges(r, "MP-C28b", fn, condEdges(ex), true, sf.down, "trigger:ShouldDownAfterNoAlive", ci,
				"not passing a probe for the down-after period must mark the node down")
		}
		for _, ci := range callsIn(fn, func(cc *ssa.CallCommon) bool { return callsFunc(cc, sf.syncStatus) }) {
			ex := extractOf(ci.(ssa.Value), 0)
			if ex == nil {
				r.viol("MP-C28b", name, "trigger:checkSlaveSyncStatus", c.Pos(ci.Pos()), "result of checkSlaveSyncStatus is not used")
				continue
			}
			c.mustReachOnEdges(r, "MP-C28b", fn, condEdges(ex), false, sf.down, "trigger:checkSlaveSyncStatus", ci,
				"replication lag over the limit or a stopped replication thread must mark the replica down")
		}
	}
	// replica checkers must each consult both triggers (sibling agreement)
	for _, fn := range checkers {
		if fn == masterChecker {
			continue
		}
		if len(callsIn(fn, func(cc *ssa.CallCommon) bool { return callsFunc(cc, sf.syncStatus) })) == 0 {
			r.viol("MP-C28b", c.FuncName(fn), "trigger:checkSlaveSyncStatus", c.Pos(fn.Pos()), "replica checker does not consult the replication status at all (siblings do)")
		}
	}
	for _, fn := range checkers {
		if len(callsIn(fn, func(cc *ssa.CallCommon) bool { return callsFunc(cc, sf.shouldDown) })) == 0 {
			r.viol("MP-C28b", c.FuncName(fn), "trigger:ShouldDownAfterNoAlive", c.Pos(fn.Pos()), "checker does not consult the down-after period at all (siblings do)")
		}
	}
}

// mustReachOnEdges: on every If edge where the tested value has truth `want`, every path to an exit (or back to the
// probing call `loopHead`, for checkers written as loops) passes a call of target.
func (c *Ctx) mustReachOnEdges(r *Report, rule string, fn *ssa.Function, edges []CondEdge, want bool, target *ssa.Function, cons string, anchor ssa.Instruction, why string) {
	name := c.FuncName(fn)
	n := 0
	for _, e := range edges {
		if e.Val != want {
			continue
		}
		n++
		start := e.If.Block().Succs[e.Succ]
		var loopBack bool
		exits := searchExits(fn, nil, start, SearchOpts{
			Stop: func(in ssa.Instruction) bool {
				if cc := callCommon(in); cc != nil && (callsFunc(cc, target) || c.mustCallFn(staticCallee(cc), target, 2)) {
					return true
				}
				if in == anchor { // came around the loop without the target
					loopBack = true
					return true
				}
				return false
			},
		})
		if len(exits) == 0 && !loopBack {
			r.ok(rule, name, cons, c.Pos(anchor.Pos()), "every path on the trigger edge reaches "+target.Name()+"()")
		} else {
			var p []string
			if len(exits) > 0 {
				p = c.pathStrings(exits[0])
			}
			r.viol(rule, name, cons, c.Pos(anchor.Pos()), why+": a path on the trigger edge leaves without "+target.Name()+"()", p...)
		}
	}
	if n == 0 {
		r.viol(rule, name, cons, c.Pos(anchor.Pos()), why+": the result is never branched on")
	}
}

// ---------------------------------------------------------------------------------------
// additional structural clauses (added after the first round of seeded defects)

func init() {
	register("C27", "", ruleC27d)
	register("C28", "", ruleC28c, ruleC28d)
	register("C25", "", ruleC25b)
}

// ruleC27d: gradual policy — a failed probe of a down replica restarts the consecutive-success count-down on every
// path: from the probe call, every path to an exit on which the probe connection is nil and the node is down passes
// RefreshCoolDownCount.
func ruleC27d(c *Ctx, r *Report) {
	const rule = "MP-C27d"
	r.floor(rule, 1)
	sf := c.statusFacts()
	fn := c.backendMethod("Slice", "checkWithGradualRecovery")
	refresh := c.backendMethod("GradualRecoveryStrategy", "RefreshCoolDownCount")
	isDown := c.backendMethod("NodeInfo", "IsStatusDown")
	if fn == nil || refresh == nil || isDown == nil || sf.probe == nil {
		r.undecided(rule, "(*backend.Slice).checkWithGradualRecovery", "anchor", "-", "anchors not found")
		return
	}
	name := c.FuncName(fn)
	for _, ci := range callsIn(fn, func(cc *ssa.CallCommon) bool { return callsFunc(cc, sf.probe) }) {
		conn := extractOf(ci.(ssa.Value), 0)
		if conn == nil {
			r.undecided(rule, name, "probe-result", c.Pos(ci.Pos()), "probe connection unused")
			continue
		}
		prune := map[[2]int]bool{}
		for _, e := range nilEdges(conn) {
			if !e.Val { // conn != nil: probe succeeded, nothing to reset
				prune[[2]int{e.If.Block().Index, e.Succ}] = true
			}
		}
		for _, di := range callsIn(fn, func(cc *ssa.CallCommon) bool { return callsFunc(cc, isDown) }) {
			for _, e := range condEdges(di.(*ssa.Call)) {
				if !e.Val { // node is up: no count-down running
					prune[[2]int{e.If.Block().Index, e.Succ}] = true
				}
			}
		}
		// the conn==nil test must be met before any exit: an exit reached without having branched on conn at all is a miss
		branched := map[*ssa.BasicBlock]bool{}
		for _, e := range nilEdges(conn) {
			branched[e.If.Block()] = true
		}
		exits := searchExits(fn, ci, nil, SearchOpts{
			Stop:   func(in ssa.Instruction) bool { cc := callCommon(in); return cc != nil && callsFunc(cc, refresh) },
			EdgeOK: func(b *ssa.BasicBlock, i int) bool { return !prune[[2]int{b.Index, i}] },
		})
		if len(exits) == 0 {
			r.ok(rule, name, "failed-probe->RefreshCoolDownCount", c.Pos(ci.Pos()), "every path on which the probe failed for a down replica restarts the count-down before the function can return")
		} else {
			r.viol(rule, name, "failed-probe->RefreshCoolDownCount", c.Pos(ci.Pos()), "the checker can return after a failed probe of a down replica without restarting the consecutive-success count-down: the replica comes back after `penalty` successes in total instead of `penalty` consecutive ones", c.pathStrings(exits[0])...)
		}
		_ = branched
	}
}

// ruleC28c: a probe round can only complete (and the last-checked time advance) after a probe call succeeded: in
// checkInstanceStatus every path through one loop iteration to the back edge, and every success return, crosses the
// nil-error edge of PingWithTimeout/ExecuteWithTimeout.
func ruleC28c(c *Ctx, r *Report) {
	const rule = "MP-C28c"
	r.floor(rule, 2)
	fn := c.Func("backend", "checkInstanceStatus")
	ping := c.pcMethod("PingWithTimeout")
	exec := c.pcMethod("ExecuteWithTimeout")
	if fn == nil || ping == nil || exec == nil {
		r.undecided(rule, "backend.checkInstanceStatus", "anchor", "-", "anchors not found")
		return
	}
	name := c.FuncName(fn)
	okEdges := map[[2]int]bool{}
	var okList []CondEdge
	for _, ci := range callsIn(fn, func(cc *ssa.CallCommon) bool { return callsIfaceMethod(cc, ping) || callsIfaceMethod(cc, exec) }) {
		call, ok := ci.(*ssa.Call)
		if !ok {
			continue
		}
		for _, e := range errNilEdgesOfCall(call) {
			if e.Val {
				okEdges[[2]int{e.If.Block().Index, e.Succ}] = true
				okList = append(okList, e)
			}
		}
	}
	if len(okList) == 0 {
		r.undecided(rule, name, "probe-calls", c.Pos(fn.Pos()), "no tested probe call found")
		return
	}
	// loop iterations
	n := 0
	for _, b := range fn.Blocks {
		for _, h := range b.Succs {
			if !h.Dominates(b) {
				continue
			}
			// back edge b -> h: paths from h's body successor(s) to b
			n++
			miss := false
			first := h.Instrs[0]
			for i, s := range h.Succs {
				if !blockReachable(s, b) {
					continue // loop exit
				}
				_ = i
				searchExits(fn, nil, s, SearchOpts{
					Stop: func(in ssa.Instruction) bool {
						if in == first {
							miss = true
							return true
						}
						return false
					},
					EdgeOK: func(bb *ssa.BasicBlock, k int) bool { return !okEdges[[2]int{bb.Index, k}] },
				})
			}
			cons := fmt.Sprintf("loop#%d:iteration-needs-a-passed-probe", n)
			if !miss {
				r.ok(rule, name, cons, c.Pos(first.Pos()), "an iteration of the probe loop completes only after PingWithTimeout/ExecuteWithTimeout returned without error")
			} else {
				r.viol(rule, name, cons, c.Pos(first.Pos()), "an iteration of the probe loop can complete without any probe call having succeeded: a node whose probes all fail this way is reported healthy and its last-checked time keeps advancing")
			}
		}
	}
	k := 0
	for _, ret := range returnsOf(fn) {
		isNil, known := returnsNilError(ret)
		if known && !isNil {
			continue
		}
		k++
		cons := fmt.Sprintf("success-return#%d", k)
		if h := loopExitHeader(fn, ret.Block()); h != nil && atLeastOneIteration(h) {
			r.ok(rule, name, cons, c.Pos(exitPos(ret)), "reached only after the probe loop ran at least once (constant first test); every completed iteration passed a probe")
			continue
		}
		if edgesDominate(fn, okList, ret.Block()) {
			r.ok(rule, name, cons, c.Pos(exitPos(ret)), "dominated by a probe call that returned without error")
		} else {
			r.viol(rule, name, cons, c.Pos(exitPos(ret)), "the probe can report success on a path where no probe call succeeded")
		}
	}
	if n == 0 {
		r.undecided(rule, name, "loop", c.Pos(fn.Pos()), "probe loop not found")
	}
}

// ruleC28d: a failed probe alone never counts as replication lag: checkSlaveSyncStatus answers false only for a
// connection that exists (every possibly-false return is dominated by pc != nil).
func ruleC28d(c *Ctx, r *Report) {
	const rule = "MP-C28d"
	r.floor(rule, 1)
	fn := c.Func("backend", "checkSlaveSyncStatus")
	if fn == nil || len(fn.Params) == 0 {
		r.undecided(rule, "backend.checkSlaveSyncStatus", "anchor", "-", "not found")
		return
	}
	name := c.FuncName(fn)
	pc := fn.Params[0]
	var nonNil []CondEdge
	for _, e := range nilEdges(pc) {
		if !e.Val {
			nonNil = append(nonNil, e)
		}
	}
	n := 0
	for _, ret := range returnsOf(fn) {
		vals, zero := retValues(ret, 0)
		maybeFalse := zero
		for _, v := range vals {
			if b, ok := constBool(v); !ok || !b {
				maybeFalse = true
			}
		}
		if !maybeFalse {
			continue
		}
		n++
		cons := fmt.Sprintf("return-not-alive#%d", n)
		if edgesDominate(fn, nonNil, ret.Block()) {
			r.ok(rule, name, cons, c.Pos(exitPos(ret)), "'not in sync' is only answered for an existing probe connection")
		} else {
			r.viol(rule, name, cons, c.Pos(exitPos(ret)), "'not in sync' can be answered when the probe produced no connection: a single failed probe marks the replica down before the down-after period")
		}
	}
	if n == 0 {
		r.undecided(rule, name, "return-not-alive", c.Pos(fn.Pos()), "no possibly-false return")
	}
}

// ruleC25b: the only way to a replica's pool is through the selector: (*balancer).next is called only by
// getNodeFromBalancer, and every node handed to getConnWithFuse is the result of getNodeFromBalancer.
func ruleC25b(c *Ctx, r *Report) {
	const rule = "WM-C25b"
	r.floor(rule, 2)
	next := c.backendMethod("balancer", "next")
	sel := c.backendMethod("Slice", "getNodeFromBalancer")
	withFuse := c.backendMethod("Slice", "getConnWithFuse")
	if next == nil || sel == nil || withFuse == nil {
		r.undecided(rule, "backend", "anchor", "-", "anchors not found")
		return
	}
	for _, s := range c.callSites(func(cc *ssa.CallCommon) bool { return callsFunc(cc, next) }) {
		if s.Fn == sel {
			r.ok(rule, c.FuncName(s.Fn), "calls:balancer.next", c.Pos(s.In.Pos()), "the selector (checks IsStatusUp on what it returns)")
		} else {
			r.viol(rule, c.FuncName(s.Fn), "calls:balancer.next", c.Pos(s.In.Pos()), "a queue position is taken from the balancer outside getNodeFromBalancer: the node it names is used without the status check")
		}
	}
	for _, s := range c.callSites(func(cc *ssa.CallCommon) bool { return callsFunc(cc, withFuse) }) {
		cc := callCommon(s.In)
		node := cc.Args[len(cc.Args)-1]
		ok := true
		for _, l := range phiLeaves(node) {
			ex, isEx := l.(*ssa.Extract)
			if !isEx || ex.Index != 0 {
				ok = false
				continue
			}
			call, isCall := ex.Tuple.(*ssa.Call)
			if !isCall || !callsFunc(&call.Call, sel) {
				ok = false
			}
		}
		cons := "node-of:getConnWithFuse@" + branchLabel(c, s.In)
		if ok {
			r.ok(rule, c.FuncName(s.Fn), cons, c.Pos(s.In.Pos()), "the node whose pool is used is the selector's result")
		} else {
			r.viol(rule, c.FuncName(s.Fn), cons, c.Pos(s.In.Pos()), "a replica's pool is used for a node that did not come from getNodeFromBalancer (no status check)")
		}
	}
}

// loopExitHeader: block b lies after a loop (it is dominated by a loop header but is not inside that loop): returns
// the header.
func loopExitHeader(fn *ssa.Function, b *ssa.BasicBlock) *ssa.BasicBlock {
	for _, x := range fn.Blocks {
		for _, h := range x.Succs {
			if h.Dominates(x) && h.Dominates(b) && h != b && !blockReachable(b, h) {
				return h
			}
		}
	}
	return nil
}

// atLeastOneIteration: the loop header's test is a comparison of an induction phi (constant on the entry edge) with a
// constant, and it is true on entry.
func atLeastOneIteration(h *ssa.BasicBlock) bool {
	iff, ok := h.Instrs[len(h.Instrs)-1].(*ssa.If)
	if !ok {
		return false
	}
	bo, ok := iff.Cond.(*ssa.BinOp)
	if !ok {
		return false
	}
	ph, ok := bo.X.(*ssa.Phi)
	if !ok || ph.Block() != h {
		return false
	}
	k, ok := constInt(bo.Y)
	if !ok {
		return false
	}
	for i, p := range h.Preds {
		if h.Dominates(p) {
			continue // back edge
		}
		c0, ok := constInt(ph.Edges[i])
		if !ok {
			return false
		}
		var t bool
		switch bo.Op {
		case token.LSS:
			t = c0 < k
		case token.LEQ:
			t = c0 <= k
		case token.NEQ:
			t = c0 != k
		default:
			return false
		}
		// the true edge must enter the body
		if !t {
			return false
		}
	}
	return true
}

func init() { register("C28", "", ruleC28ef) }

// ruleC28ef: (MP-C28e) replication status may only be skipped for the two documented reasons: every return of
// GetSlaveStatus whose skip flag can be true is dominated by the no-privilege edge or by the empty-result edge;
// (MP-C28f) the down-after period is consulted in every probe round: in each checker every path from the probe to an exit
// (or to the next round) passes ShouldDownAfterNoAlive.
func ruleC28ef(c *Ctx, r *Report) {
	r.floor("MP-C28e", 1)
	r.floor("MP-C28f", 4)
	sf := c.statusFacts()
	gss := c.Func("backend", "GetSlaveStatus")
	noPriv := c.Func("mysql", "IsSQLNoPrivilegeErr")
	if gss == nil || noPriv == nil || sf.probe == nil || sf.shouldDown == nil {
		r.undecided("MP-C28e", "backend.GetSlaveStatus", "anchor", "-", "anchors not found")
		return
	}
	gn := c.FuncName(gss)
	var okEdges []CondEdge
	for _, ci := range callsIn(gss, func(cc *ssa.CallCommon) bool { return callsFunc(cc, noPriv) }) {
		for _, e := range condEdges(ci.(*ssa.Call)) {
			if e.Val {
				okEdges = append(okEdges, e)
			}
		}
	}
	allInstrs(gss, func(in ssa.Instruction) {
		b, ok := in.(*ssa.BinOp)
		if !ok || b.Op != token.EQL || !isIntConst(b.Y, 0) {
			return
		}
		if call, ok := b.X.(*ssa.Call); ok {
			if k := call.Call.StaticCallee(); k != nil && k.Name() == "RowNumber" {
				for _, e := range condEdges(b) {
					if e.Val {
						okEdges = append(okEdges, e)
					}
				}
			}
		}
	})
	n := 0
	for _, ret := range returnsOf(gss) {
		vals, zero := retValues(ret, 0)
		maybe := false
		_ = zero
		for _, v := range vals {
			if t, isC := constBool(v); !isC || t {
				maybe = true
			}
		}
		if !maybe {
			continue
		}
		n++
		cons := fmt.Sprintf("skip-check#%d", n)
		if edgesDominate(gss, okEdges, ret.Block()) {
			r.ok("MP-C28e", gn, cons, c.Pos(exitPos(ret)), "replication status is skipped only without the privilege or when the status is empty (node is a master)")
		} else {
			r.viol("MP-C28e", gn, cons, c.Pos(exitPos(ret)), "the replication check can be skipped for a replica that reported its status: a stopped replication thread or excessive lag no longer marks it down")
		}
	}
	if n == 0 {
		r.undecided("MP-C28e", gn, "skip-check", c.Pos(gss.Pos()), "no return can skip the check")
	}
	for _, nm := range []string{"checkBackendMasterStatus", "checkWithNoRecovery", "checkWithHardRecovery", "checkWithGradualRecovery"} {
		fn := c.backendMethod("Slice", nm)
		if fn == nil {
			r.undecided("MP-C28f", "(*backend.Slice)."+nm, "anchor", "-", "not found")
			continue
		}
		name := c.FuncName(fn)
		for _, ci := range callsIn(fn, func(cc *ssa.CallCommon) bool { return callsFunc(cc, sf.probe) }) {
			again := false
			exits := searchExits(fn, ci, nil, SearchOpts{Stop: func(in ssa.Instruction) bool {
				if in == ci {
					again = true
					return true
				}
				cc := callCommon(in)
				return cc != nil && callsFunc(cc, sf.shouldDown)
			}})
			if len(exits) == 0 && !again {
				r.ok("MP-C28f", name, "probe->ShouldDownAfterNoAlive", c.Pos(ci.Pos()), "every probe round consults the down-after period before it can end")
			} else {
				var p []string
				if len(exits) > 0 {
					p = c.pathStrings(exits[0])
				}
				r.viol("MP-C28f", name, "probe->ShouldDownAfterNoAlive", c.Pos(ci.Pos()), "a probe round can end without consulting the down-after period: a node that has not passed a probe for longer than the period stays up", p...)
			}
		}
	}
}

func init() { register("C27", "", ruleC27e); register("C26", "", ruleC27e) }

// ruleC27e (MP-C27e): breaker and recovery state is per replica: every value stored into NodeInfo.FuseStrategy /
// NodeInfo.RecoveryStrategy is a strategy object constructed inside the loop over the nodes (one object per node), so
// one replica's probes and fuses cannot drain or restart another replica's cool-down.
func ruleC27e(c *Ctx, r *Report) {
	const rule = "MP-C27e"
	r.floor(rule, 2)
	fuseF := c.Field("backend", "NodeInfo", "FuseStrategy")
	recF := c.Field("backend", "NodeInfo", "RecoveryStrategy")
	if fuseF == nil || recF == nil {
		r.undecided(rule, "backend.NodeInfo", "anchor", "-", "strategy fields not found")
		return
	}
	n := 0
	for _, fn := range c.Funcs {
		if c.IsMockFunc(fn) {
			continue
		}
		allInstrs(fn, func(in ssa.Instruction) {
			st, ok := in.(*ssa.Store)
			if !ok {
				return
			}
			f := fieldOfAddr(st.Addr)
			if f != fuseF && f != recF {
				return
			}
			if isNilConst(stripValue(st.Val)) {
				return
			}
			n++
			name := c.FuncName(fn)
			cons := "assign:" + f.Name() + "@" + ordinalOfFieldStore(fn, in, f)
			// the store is inside a loop; every leaf of the stored value is a constructor call inside that same loop
			inLoop := func(b *ssa.BasicBlock) bool {
				for _, s := range b.Succs {
					if blockReachable(s, b) {
						return true
					}
				}
				return false
			}
			good := inLoop(st.Block())
			for _, l := range phiLeaves(st.Val) {
				call, isCall := l.(*ssa.Call)
				if !isCall || call.Call.StaticCallee() == nil || !strings.HasPrefix(call.Call.StaticCallee().Name(), "New") || !inLoop(call.Block()) {
					good = false
				}
			}
			if !inLoop(st.Block()) {
				// a single node configured outside a loop is fine when the value is a fresh constructor result
				good = true
				for _, l := range phiLeaves(st.Val) {
					call, isCall := l.(*ssa.Call)
					if !isCall || call.Call.StaticCallee() == nil || !strings.HasPrefix(call.Call.StaticCallee().Name(), "New") {
						good = false
					}
				}
			}
			if good {
				r.ok(rule, name, cons, c.Pos(st.Pos()), "each node receives its own strategy object (constructed per iteration)")
			} else {
				r.viol(rule, name, cons, c.Pos(st.Pos()), "the strategy object given to a node is not constructed per node: replicas share breaker/recovery state, so one replica's probes or fuses change another replica's cool-down")
			}
		})
	}
	if n == 0 {
		r.undecided(rule, "backend", "assign:strategy", "-", "no assignment of a fuse/recovery strategy found")
	}
}

// mustCallFn: h is a package-private module function every path of which, from entry to any exit, passes a call of
// target (directly or through such a helper, depth-bounded). Used so that "this edge must reach target()" rules accept
// the target call extracted into a helper.
func (c *Ctx) mustCallFn(h, target *ssa.Function, depth int) bool {
	if h == nil || depth == 0 || !c.InModule(h) || len(h.Blocks) == 0 || h.Object() == nil || h.Object().Exported() {
		return false
	}
	exits := searchExits(h, nil, h.Blocks[0], SearchOpts{
		Stop: func(in ssa.Instruction) bool {
			cc := callCommon(in)
			return cc != nil && (callsFunc(cc, target) || c.mustCallFn(staticCallee(cc), target, depth-1))
		},
	})
	return len(exits) == 0
}

// mustPassFn: h is a package-private module function every path of which, from entry to any exit, passes an
// instruction accepted by pred.
func (c *Ctx) mustPassFn(h *ssa.Function, pred func(in ssa.Instruction) bool, depth int) bool {
	if h == nil || depth == 0 || !c.InModule(h) || len(h.Blocks) == 0 || h.Object() == nil || h.Object().Exported() {
		return false
	}
	return len(searchExits(h, nil, h.Blocks[0], SearchOpts{Stop: pred})) == 0
}
