// gaeacheck: repository-specific static analysis deciding structural clauses of the Gaea properties.
// usage: gaeacheck -prop C19 [-tier quick|thorough] [-repo /repo] [-verif /verif] [-overlay real=replacement ...]
package main

import (
	"flag"
	"fmt"
	"os"
	"path/filepath"
	"runtime/debug"
	"sort"
	"strconv"
	"strings"
	"time"
)

type ruleFunc func(c *Ctx, r *Report)

// propRules: property id -> rules run for it.
var propRules = map[string][]ruleFunc{}

// propExplanation: the clause decided (goes to evidence coverage.explanation).
var propExplanation = map[string]string{}

// propArch386: properties whose thorough tier repeats the analysis with GOARCH=386.
var propArch386 = map[string]bool{}

func register(prop, explanation string, rules ...ruleFunc) {
	propRules[prop] = append(propRules[prop], rules...)
	if explanation != "" {
		propExplanation[prop] = explanation
	}
}

type overlayFlag map[string]string

func (o overlayFlag) String() string { return fmt.Sprint(map[string]string(o)) }
func (o overlayFlag) Set(s string) error {
	i := strings.IndexByte(s, '=')
	if i < 0 {
		return fmt.Errorf("overlay wants real=replacement")
	}
	o[s[:i]] = s[i+1:]
	return nil
}

func main() {
	prop := flag.String("prop", "", "property id (Cnn) or 'all' / 'list'")
	tier := flag.String("tier", "quick", "quick|thorough")
	repo := flag.String("repo", "/repo", "repository root")
	verif := flag.String("verif", "/verif", "verif directory (evidence/, known_findings.txt, replay/)")
	noEvidence := flag.Bool("no-evidence", false, "write evidence into a temp dir (used by the mutant self-test)")
	ov := overlayFlag{}
	flag.Var(ov, "overlay", "real=replacement file overlay (repeatable)")
	flag.Parse()

	if *prop == "list" {
		var ids []string
		for k := range propRules {
			ids = append(ids, k)
		}
		sort.Strings(ids)
		fmt.Println(strings.Join(ids, " "))
		return
	}
	var props []string
	if *prop == "all" {
		for k := range propRules {
			props = append(props, k)
		}
		sort.Strings(props)
	} else {
		for _, p := range strings.Split(*prop, ",") {
			if _, ok := propRules[p]; !ok {
				fmt.Printf("unknown or unclaimed property %q\n", p)
				os.Exit(2)
			}
			props = append(props, p)
		}
	}
	seed := 0
	if s := os.Getenv("VERIF_SEED"); s != "" {
		seed, _ = strconv.Atoi(s)
	}
	overlay := map[string][]byte{}
	for real, repl := range ov {
		b, err := os.ReadFile(repl)
		if err != nil {
			fmt.Println("overlay:", err)
			os.Exit(2)
		}
		if !filepath.IsAbs(real) {
			real = filepath.Join(*repo, real)
		}
		overlay[real] = b
	}
	evDir := *verif
	if *noEvidence {
		d, _ := os.MkdirTemp("", "gaeacheck-ev")
		defer os.RemoveAll(d)
		evDir = d
	}
	known, err := readKnown(filepath.Join(*verif, "known_findings.txt"))
	if err != nil {
		fmt.Println(err)
		os.Exit(2)
	}

	start := time.Now()
	ctx, err := loadProgram(*repo, *tier, overlay, "")
	rc := 0
	if err != nil {
		// load failure: every requested property is undecided -> fails
		for _, p := range props {
			r := newReport(p)
			r.undecided("LOAD", "-", "load", "-", err.Error())
			if c := r.finish(evDir, known, runStats{Tier: *tier, Seed: seed, WallS: time.Since(start).Seconds()}, nil); c > rc {
				rc = c
			}
		}
		os.Exit(rc)
	}
	loadS := time.Since(start).Seconds()
	var ctx386 *Ctx
	for _, p := range props {
		t0 := time.Now()
		r := newReport(p)
		func() {
			defer func() {
				if e := recover(); e != nil {
					r.undecided("PANIC", "-", "analyser-panic", "-", fmt.Sprintf("%v\n%s", e, debug.Stack()))
				}
			}()
			for _, rule := range propRules[p] {
				rule(ctx, r)
			}
			if *tier == "thorough" && propArch386[p] {
				if ctx386 == nil {
					c2, err := loadProgram(*repo, "quick", overlay, "386")
					if err != nil {
						r.undecided("LOAD386", "-", "load", "-", err.Error())
						return
					}
					ctx386 = c2
				}
				r.note("second pass with GOARCH=386 (int is 32 bit)")
				ctx386.Arch386 = true
				for _, rule := range propRules[p] {
					rule(ctx386, r)
				}
			}
		}()
		st := runStats{Packages: len(ctx.SSAPkgs), Functions: len(ctx.Funcs), CGEdges: ctx.cgEdges, Tier: *tier, Seed: seed,
			WallS: loadS + time.Since(t0).Seconds()}
		var extra map[string]interface{}
		if *tier == "thorough" && !*noEvidence {
			res := runSelfTest(p, *repo, *verif)
			killed := 0
			for _, m := range res {
				if m.Status == "killed" {
					killed++
				} else {
					fmt.Printf("SELFTEST-WARNING property=%s mutant=%s status=%s %s\n", p, m.Name, m.Status, m.Detail)
				}
			}
			fmt.Printf("selftest property=%s mutants=%d killed=%d\n", p, len(res), killed)
			extra = map[string]interface{}{"mutants_total": len(res), "mutants_killed": killed, "mutants": res}
			st.WallS = loadS + time.Since(t0).Seconds()
		}
		if c := r.finish(evDir, known, st, extra); c > rc {
			rc = c
		}
	}
	os.Exit(rc)
}
