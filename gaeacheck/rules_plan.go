package main

// C04 — global tables: writes reach every copy, reads touch one copy, database names follow the copy.
// Structural clauses only; layouts and the rewritten text itself are values and not decided.

import (
	"fmt"
	"go/token"
	"go/types"
	"strings"

	"golang.org/x/tools/go/ssa"
)

const planRel = "proxy/plan"

func init() {
	register("C04", "Clauses decided (structure of the global-table route, necessary for the statement): (copies) the route of a statement over global tables only is the unmodified result of Rule.GetSubTableIndexes() for UPDATE/DELETE (postHandleGlobalTableRouteResultInModify) and for INSERT (generateGlobalShardingSQLs, on a rule tested to be global), and a one-element slice for SELECT (postHandleGlobalTableRouteResultInQuery); (route) every generateShardingSQLs call site whose statement is an *ast.UpdateStmt / *ast.DeleteStmt is dominated by the nil-error edge of the all-copies handler and no write builder calls the one-copy handler, the SELECT site is dominated by the one-copy handler, and in HandleInsertStmt the global-table edge leads only to generateGlobalShardingSQLs or an error; (each) generateShardingSQLs produces one statement per routed index: the loop runs while HasNext(), every path of an iteration from Next() to the back edge files the restored text under the slice and database computed from that very index, or returns an error; the text is restored before the cursor advances; HasNext/Next/GetCurrentTableIndex walk `indexes` one by one; (db) in TableNameDecorator.Restore and ColumnNameDecorator.Restore the schema written for a global rule is Rule.GetDatabaseNameByTableIndex(current table index). Which physical databases a layout configures, aliases and the text of the rewritten statement are not covered.",
		ruleC04)
}

func ruleC04(c *Ctx, r *Report) {
	const rule = "MP-C04"
	r.floor(rule, 22)
	inQuery := c.Func(planRel, "postHandleGlobalTableRouteResultInQuery")
	inModify := c.Func(planRel, "postHandleGlobalTableRouteResultInModify")
	genGlobal := c.Func(planRel, "generateGlobalShardingSQLs")
	gen := c.Func(planRel, "generateShardingSQLs")
	handleInsert := c.Func(planRel, "HandleInsertStmt")
	insertRefs := c.Func(planRel, "handleInsertTableRefs")
	fIndexes := c.Field(planRel, "RouteResult", "indexes")
	fCur := c.Field(planRel, "RouteResult", "currentIndex")
	fGlobalRules := c.Field(planRel, "StmtInfo", "globalTableRules")
	mSub := c.IfaceMethod("proxy/router", "Rule", "GetSubTableIndexes")
	mType := c.IfaceMethod("proxy/router", "Rule", "GetType")
	mDB := c.IfaceMethod("proxy/router", "Rule", "GetDatabaseNameByTableIndex")
	mSliceIdx := c.IfaceMethod("proxy/router", "Rule", "GetSliceIndexFromTableIndex")
	next := c.Method(planRel, "RouteResult", "Next")
	hasNext := c.Method(planRel, "RouteResult", "HasNext")
	curIdx := c.Method(planRel, "RouteResult", "GetCurrentTableIndex")
	if inQuery == nil || inModify == nil || genGlobal == nil || gen == nil || handleInsert == nil || insertRefs == nil || fIndexes == nil || fCur == nil ||
		fGlobalRules == nil || mSub == nil || mType == nil || mDB == nil || mSliceIdx == nil || next == nil || hasNext == nil || curIdx == nil {
		r.undecided(rule, planRel, "anchor", "-", "global-table handlers / RouteResult cursor / router.Rule methods not all found")
		return
	}
	isGlobalConst := func(v ssa.Value) bool {
		s, ok := constString(v)
		return ok && s == "global"
	}
	// globalEdges: edges on which `rule.GetType() == "global"` holds
	globalEdges := func(fn *ssa.Function) []CondEdge {
		var out []CondEdge
		allInstrs(fn, func(in ssa.Instruction) {
			b, ok := in.(*ssa.BinOp)
			if !ok || (b.Op != token.EQL && b.Op != token.NEQ) {
				return
			}
			var other ssa.Value
			if isGlobalConst(b.X) {
				other = b.Y
			} else if isGlobalConst(b.Y) {
				other = b.X
			} else {
				return
			}
			call, ok := stripValue(resolveLoad(stripValue(other))).(*ssa.Call)
			if !ok || !callsIfaceMethod(&call.Call, mType) {
				return
			}
			for _, e := range condEdges(b) {
				if e.Val == (b.Op == token.EQL) {
					out = append(out, e)
				}
			}
		})
		return out
	}
	indexStores := func(fn *ssa.Function) []*ssa.Store {
		var out []*ssa.Store
		allInstrs(fn, func(in ssa.Instruction) {
			if st, ok := in.(*ssa.Store); ok && fieldOfAddr(st.Addr) == fIndexes {
				out = append(out, st)
			}
		})
		return out
	}
	allCopies := func(v ssa.Value) (*ssa.Call, bool) {
		call, ok := stripValue(resolveLoad(stripValue(v))).(*ssa.Call)
		if !ok || !callsIfaceMethod(&call.Call, mSub) {
			return nil, false
		}
		return call, true
	}

	// ---- (copies)
	{
		name := c.FuncName(inModify)
		sts := indexStores(inModify)
		if len(sts) != 1 {
			r.undecided(rule, name, "copies:modify", c.Pos(inModify.Pos()), fmt.Sprintf("expected one store to RouteResult.indexes, found %d", len(sts)))
		} else if call, ok := allCopies(sts[0].Val); ok {
			// the rule comes from globalTableRules
			fromGlobal := false
			for _, l := range leavesThroughCalls(c, recvOf(&call.Call), 2) {
				if rangeExtractOf(l, fGlobalRules, 2) {
					fromGlobal = true
				} else if !isNilConst(l) {
					fromGlobal = false
					break
				}
			}
			if fromGlobal {
				r.ok(rule, name, "copies:modify", c.Pos(sts[0].Pos()), "UPDATE/DELETE over global tables only is routed to the whole of GetSubTableIndexes() of a global rule")
			} else {
				r.viol(rule, name, "copies:modify", c.Pos(sts[0].Pos()), "the rule whose copies are taken is not one of the statement's global-table rules")
			}
		} else {
			r.viol(rule, name, "copies:modify", c.Pos(sts[0].Pos()), "a write over global tables is not routed to the unmodified GetSubTableIndexes() of the rule: some copy of the table does not receive the write")
		}
	}
	{
		name := c.FuncName(genGlobal)
		sts := indexStores(genGlobal)
		if len(sts) != 1 {
			r.undecided(rule, name, "copies:insert", c.Pos(genGlobal.Pos()), fmt.Sprintf("expected one store to RouteResult.indexes, found %d", len(sts)))
		} else if _, ok := allCopies(sts[0].Val); ok {
			r.ok(rule, name, "copies:insert", c.Pos(sts[0].Pos()), "INSERT into a global table is routed to the whole of GetSubTableIndexes()")
			// and generateShardingSQLs follows with nothing narrowing the route in between
			gcalls := callsIn(genGlobal, func(cc *ssa.CallCommon) bool { return callsFunc(cc, gen) })
			if len(gcalls) == 1 && instrDominates(sts[0], gcalls[0]) {
				r.ok(rule, name, "copies:insert:then-generate", c.Pos(gcalls[0].Pos()), "the statements are generated after the route was set")
			} else {
				r.viol(rule, name, "copies:insert:then-generate", c.Pos(genGlobal.Pos()), "the per-copy statements are not generated from the all-copies route")
			}
		} else {
			r.viol(rule, name, "copies:insert", c.Pos(sts[0].Pos()), "an INSERT into a global table is not routed to the unmodified GetSubTableIndexes() of the rule: some copy does not receive the row")
		}
	}
	{
		name := c.FuncName(inQuery)
		sts := indexStores(inQuery)
		if len(sts) != 1 {
			r.undecided(rule, name, "copies:query", c.Pos(inQuery.Pos()), fmt.Sprintf("expected one store to RouteResult.indexes, found %d", len(sts)))
		} else {
			one := false
			if sl, ok := stripValue(sts[0].Val).(*ssa.Slice); ok && sl.Low == nil && sl.High == nil {
				if arr, ok := sl.X.(*ssa.Alloc); ok {
					if pt, ok := arr.Type().Underlying().(*types.Pointer); ok {
						if at, ok := pt.Elem().Underlying().(*types.Array); ok && at.Len() == 1 {
							one = true
						}
					}
				}
			}
			if one {
				r.ok(rule, name, "copies:query", c.Pos(sts[0].Pos()), "SELECT over global tables only is routed to a one-element index list")
			} else {
				r.viol(rule, name, "copies:query", c.Pos(sts[0].Pos()), "a SELECT over global tables only is not routed to exactly one copy")
			}
		}
	}

	// ---- (route) call sites of generateShardingSQLs by statement type
	{
		sites := c.callSites(func(cc *ssa.CallCommon) bool { return callsFunc(cc, gen) })
		n := 0
		for _, s := range sites {
			if c.IsMockFunc(s.Fn) {
				continue
			}
			cc := callCommon(s.In)
			kind := ""
			if mi, ok := cc.Args[0].(*ssa.MakeInterface); ok {
				kind = types.TypeString(mi.X.Type(), shortQual)
			} else {
				kind = types.TypeString(cc.Args[0].Type(), shortQual)
			}
			name := c.FuncName(s.Fn)
			cons := "route:" + kind
			n++
			domBy := func(h *ssa.Function) bool {
				for _, ci := range callsIn(s.Fn, func(cc2 *ssa.CallCommon) bool { return callsFunc(cc2, h) }) {
					if call, ok := ci.(*ssa.Call); ok && dominatedByNilErr(s.In, call) {
						return true
					}
				}
				return false
			}
			callsAny := func(h *ssa.Function) bool {
				return len(callsIn(s.Fn, func(cc2 *ssa.CallCommon) bool { return callsFunc(cc2, h) })) > 0
			}
			switch kind {
			case "*ast.UpdateStmt", "*ast.DeleteStmt":
				switch {
				case callsAny(inQuery):
					r.viol(rule, name, cons, c.Pos(s.In.Pos()), "a write builder routes global tables with the one-copy (SELECT) handler: the other copies do not receive the write")
				case domBy(inModify):
					r.ok(rule, name, cons, c.Pos(s.In.Pos()), "statement generation is dominated by the successful all-copies handler")
				default:
					r.viol(rule, name, cons, c.Pos(s.In.Pos()), "statement generation for a write is not dominated by postHandleGlobalTableRouteResultInModify succeeding: a write over global tables keeps whatever route it had")
				}
			case "*ast.SelectStmt":
				switch {
				case callsAny(inModify):
					r.viol(rule, name, cons, c.Pos(s.In.Pos()), "the SELECT builder routes global tables with the all-copies handler: a read touches every copy")
				case domBy(inQuery):
					r.ok(rule, name, cons, c.Pos(s.In.Pos()), "statement generation is dominated by the successful one-copy handler")
				default:
					r.viol(rule, name, cons, c.Pos(s.In.Pos()), "statement generation for SELECT is not dominated by postHandleGlobalTableRouteResultInQuery succeeding")
				}
			case "*ast.InsertStmt":
				if s.Fn == genGlobal {
					r.ok(rule, name, cons, c.Pos(s.In.Pos()), "global INSERT route set in the same function (see copies:insert)")
				} else {
					r.undecided(rule, name, cons, c.Pos(s.In.Pos()), "an INSERT reaches generateShardingSQLs outside generateGlobalShardingSQLs: route not known to the rule")
				}
			default:
				r.undecided(rule, name, cons, c.Pos(s.In.Pos()), "statement type of this generateShardingSQLs call is not one the rule knows")
			}
		}
		if n < 4 {
			r.undecided(rule, planRel, "route:sites", "-", fmt.Sprintf("expected the select, update, delete and global-insert call sites of generateShardingSQLs, found %d", n))
		}
		// the one-copy handler has no caller that builds a write
		for _, s := range c.callSites(func(cc *ssa.CallCommon) bool { return callsFunc(cc, inQuery) }) {
			if c.IsMockFunc(s.Fn) {
				continue
			}
			write := false
			for _, p := range s.Fn.Params {
				ts := types.TypeString(p.Type(), shortQual)
				if strings.Contains(ts, "UpdatePlan") || strings.Contains(ts, "DeletePlan") || strings.Contains(ts, "InsertPlan") ||
					strings.Contains(ts, "UpdateStmt") || strings.Contains(ts, "DeleteStmt") || strings.Contains(ts, "InsertStmt") {
					write = true
				}
			}
			if write {
				r.viol(rule, c.FuncName(s.Fn), "route:one-copy-caller", c.Pos(s.In.Pos()), "a builder of a writing statement calls the one-copy handler")
			} else {
				r.ok(rule, c.FuncName(s.Fn), "route:one-copy-caller", c.Pos(s.In.Pos()), "the one-copy handler is called by a read builder")
			}
		}
	}

	// ---- (route) every success return of a builder passes its global-table handler
	for _, h := range []*ssa.Function{inModify, inQuery} {
		for _, s := range c.callSites(func(cc *ssa.CallCommon) bool { return callsFunc(cc, h) }) {
			if c.IsMockFunc(s.Fn) || len(s.Fn.Blocks) == 0 {
				continue
			}
			bad := searchExits(s.Fn, nil, s.Fn.Blocks[0], SearchOpts{
				Stop: func(in ssa.Instruction) bool { return callsFunc(callCommon(in), h) },
				ExitOK: func(in ssa.Instruction) bool {
					ret, ok := in.(*ssa.Return)
					if !ok {
						return true
					}
					isNil, known := returnsNilError(ret)
					return known && !isNil
				},
			})
			name := c.FuncName(s.Fn)
			if len(bad) == 0 {
				r.ok(rule, name, "route:success-passes-handler", c.Pos(s.In.Pos()), "every success return of the builder has passed "+h.Name())
			} else {
				r.viol(rule, name, "route:success-passes-handler", c.Pos(bad[0].Instr.Pos()), "the builder can return success without "+h.Name()+": a statement over global tables only keeps an empty route and is executed on no copy (or skips the one-copy choice)", c.pathStrings(bad[0])...)
			}
		}
	}

	// ---- (db) decorators are created for global rules too: no decorator constructor is called only for non-global rules
	{
		isDecoratorCtor := func(f *ssa.Function) bool {
			if f == nil || f.Pkg == nil || !strings.HasSuffix(f.Pkg.Pkg.Path(), planRel) || f.Signature.Recv() != nil || f.Signature.Results().Len() == 0 {
				return false
			}
			t := f.Signature.Results().At(0).Type()
			if pt, ok := t.Underlying().(*types.Pointer); ok {
				if n := namedOf(pt.Elem()); n != nil {
					nm := n.Obj().Name()
					return nm == "ColumnNameDecorator" || nm == "ColumnNameExprDecorator" || nm == "TableNameDecorator"
				}
			}
			return false
		}
		n := 0
		for _, fn := range c.Funcs {
			if fn.Pkg == nil || !strings.HasSuffix(fn.Pkg.Pkg.Path(), planRel) || c.IsMockFunc(fn) {
				continue
			}
			var ctorCalls []ssa.Instruction
			allInstrs(fn, func(in ssa.Instruction) {
				if cc := callCommon(in); cc != nil && isDecoratorCtor(staticCallee(cc)) {
					ctorCalls = append(ctorCalls, in)
				}
			})
			if len(ctorCalls) == 0 {
				continue
			}
			// edges on which the rule is known NOT to be global
			var nonGlobal []CondEdge
			allInstrs(fn, func(in ssa.Instruction) {
				b, ok := in.(*ssa.BinOp)
				if !ok || (b.Op != token.EQL && b.Op != token.NEQ) {
					return
				}
				var other ssa.Value
				if isGlobalConst(b.X) {
					other = b.Y
				} else if isGlobalConst(b.Y) {
					other = b.X
				} else {
					return
				}
				call, ok := stripValue(resolveLoad(stripValue(other))).(*ssa.Call)
				if !ok || !callsIfaceMethod(&call.Call, mType) {
					return
				}
				for _, e := range condEdges(b) {
					if e.Val == (b.Op == token.NEQ) {
						nonGlobal = append(nonGlobal, e)
					}
				}
			})
			for i, in := range ctorCalls {
				n++
				cons := fmt.Sprintf("db:decorator-for-global:%s@%d", staticCallee(callCommon(in)).Name(), i+1)
				// named exception (one symbol, reason checked below): the visitor of table-position subqueries. A statement
				// with such a subquery is refused unless it also names a sharded table (RecordSubqueryTableAlias fails on
				// len(tableRules)==0), so a statement over global tables only never has its columns rewritten by it.
				if fn.Signature.Recv() != nil && namedOf(fn.Signature.Recv().Type()) != nil &&
					namedOf(fn.Signature.Recv().Type()).Obj().Name() == "SubqueryColumnNameRewriteVisitor" && fn.Name() == "Leave" {
					if subqueryNeedsShardedTable(c) {
						r.info(rule, c.FuncName(fn), cons, c.Pos(in.Pos()), "exempt: table-position subqueries are refused for statements without a sharded table (RecordSubqueryTableAlias: len(tableRules)==0 -> error), which the rule re-checks")
						continue
					}
				}
				skipped := false
				for _, e := range nonGlobal {
					if instrDominatedByEdge(in, e) {
						skipped = true
					}
				}
				if skipped {
					r.viol(rule, c.FuncName(fn), cons, c.Pos(in.Pos()), "the name decorator is created only when the rule is not a global-table rule: names of global tables keep the logical database although the copy lives in another physical database")
				} else {
					r.ok(rule, c.FuncName(fn), cons, c.Pos(in.Pos()), "the decorator is created whatever the rule type")
				}
			}
		}
		if n < 3 {
			r.undecided(rule, planRel, "db:decorator-sites", "-", fmt.Sprintf("expected the decorator constructor call sites, found %d", n))
		}
	}

	// ---- (copies) a copy is paired with its slice by position: the slice list of a global rule keeps the configured order
	if fSlices := c.Field("proxy/router", "BaseRule", "slices"); fSlices != nil {
		n := 0
		for _, fn := range c.Funcs {
			if fn.Pkg == nil || !strings.HasSuffix(fn.Pkg.Pkg.Path(), "proxy/router") || c.IsMockFunc(fn) {
				continue
			}
			allInstrs(fn, func(in ssa.Instruction) {
				st, ok := in.(*ssa.Store)
				if !ok || fieldOfAddr(st.Addr) != fSlices {
					return
				}
				// only the list handed to global rules is built here (others copy cfg.Slices or a literal)
				if _, isAppendBuilt := stripValue(st.Val).(*ssa.Phi); !isAppendBuilt {
					if _, isCall := stripValue(st.Val).(*ssa.Call); !isCall {
						return
					}
				}
				n++
				cons := fmt.Sprintf("copies:slice-order@%d", n)
				bad := ""
				leaves := map[ssa.Value]bool{}
				for _, l := range phiLeaves(st.Val) {
					leaves[l] = true
				}
				allInstrs(fn, func(in2 ssa.Instruction) {
					if es, ok := in2.(*ssa.Store); ok {
						if ia, ok := es.Addr.(*ssa.IndexAddr); ok {
							if _, isArr := ia.X.(*ssa.Alloc); !isArr {
								for _, l := range phiLeaves(ia.X) {
									if leaves[l] || sameVal(ia.X, st.Val) {
										bad = "elements of the slice list stored in the rule are overwritten in place (reordered)"
									}
								}
							}
						}
						return
					}
					call, ok := in2.(*ssa.Call)
					if !ok {
						return
					}
					if f := staticCallee(&call.Call); f != nil && f.Pkg != nil && f.Pkg.Pkg.Path() == "sort" && len(call.Call.Args) > 0 {
						for _, l := range phiLeaves(call.Call.Args[0]) {
							if leaves[l] || sameVal(call.Call.Args[0], st.Val) {
								bad = "the slice list stored in the rule is sorted"
							}
						}
					}
					if bi, ok := call.Call.Value.(*ssa.Builtin); ok && bi.Name() == "append" && leaves[ssa.Value(call)] {
						// appended inside a range over a map: iteration order is not the configured order
						for _, v := range variadicElems(call.Call.Args[1]) {
							if ex, ok := stripValue(v).(*ssa.Extract); ok {
								if nx, ok := ex.Tuple.(*ssa.Next); ok {
									if rg, ok := nx.Iter.(*ssa.Range); ok {
										if _, isMap := rg.X.Type().Underlying().(*types.Map); isMap {
											bad = "the slice list stored in the rule is collected from a map iteration"
										}
									}
								}
							}
						}
					}
				})
				if bad == "" {
					r.ok(rule, c.FuncName(fn), cons, c.Pos(st.Pos()), "the slice list keeps the order in which the namespace lists its slices")
				} else {
					r.viol(rule, c.FuncName(fn), cons, c.Pos(st.Pos()), bad+": a global rule pairs copy i with slice i of that list, so statements rewritten for one copy's database are sent to another slice")
				}
			})
		}
	}

	// ---- (route) HandleInsertStmt: the global edge leads to generateGlobalShardingSQLs
	{
		name := c.FuncName(handleInsert)
		refs := callsIn(handleInsert, func(cc *ssa.CallCommon) bool { return callsFunc(cc, insertRefs) })
		gg := callsIn(handleInsert, func(cc *ssa.CallCommon) bool { return callsFunc(cc, genGlobal) })
		if len(refs) != 1 || len(gg) != 1 {
			r.undecided(rule, name, "route:insert-global-edge", c.Pos(handleInsert.Pos()), "expected one handleInsertTableRefs and one generateGlobalShardingSQLs call")
		} else {
			flag := extractOf(refs[0].(ssa.Value), 0)
			var bad []Exit
			ne := 0
			if flag != nil {
				for _, e := range condEdges(flag) {
					if !e.Val {
						continue
					}
					ne++
					bad = append(bad, searchExits(handleInsert, nil, e.If.Block().Succs[e.Succ], SearchOpts{
						Stop: func(in ssa.Instruction) bool { return in == gg[0] },
						ExitOK: func(in ssa.Instruction) bool {
							ret, ok := in.(*ssa.Return)
							if !ok {
								return true
							}
							isNil, known := returnsNilError(ret)
							return known && !isNil
						},
					})...)
				}
			}
			switch {
			case ne == 0:
				r.viol(rule, name, "route:insert-global-edge", c.Pos(refs[0].Pos()), "the global-table answer of handleInsertTableRefs is not branched on: a global INSERT takes the sharded route")
			case len(bad) > 0:
				r.viol(rule, name, "route:insert-global-edge", c.Pos(bad[0].Instr.Pos()), "on the global-table edge HandleInsertStmt can return success without generateGlobalShardingSQLs", c.pathStrings(bad[0])...)
			default:
				r.ok(rule, name, "route:insert-global-edge", c.Pos(gg[0].Pos()), "on the global-table edge every success path passes generateGlobalShardingSQLs")
			}
		}
		// handleInsertTableRefs answers true only for a global rule
		rname := c.FuncName(insertRefs)
		ge := globalEdges(insertRefs)
		nt := 0
		for _, ret := range returnsOf(insertRefs) {
			vals, zero := retValues(ret, 0)
			if zero {
				continue
			}
			may := false
			for _, v := range vals {
				if b, ok := constBool(v); !ok || b {
					may = true
				}
			}
			if !may {
				continue
			}
			nt++
			cons := fmt.Sprintf("route:insert-is-global#%d", nt)
			if len(ge) > 0 && edgesDominate(insertRefs, ge, ret.Block()) {
				r.ok(rule, rname, cons, c.Pos(ret.Pos()), "answers `global` only under GetType() == \"global\"")
			} else {
				r.viol(rule, rname, cons, c.Pos(ret.Pos()), "can answer `global table` for a rule that is not global (or without testing the rule type)")
			}
		}
		if nt == 0 {
			r.viol(rule, rname, "route:insert-is-global", c.Pos(insertRefs.Pos()), "handleInsertTableRefs never reports a global table: global INSERTs take the sharded route and reach one copy")
		}
	}

	// ---- (each) generateShardingSQLs
	{
		name := c.FuncName(gen)
		hn := callsIn(gen, func(cc *ssa.CallCommon) bool { return callsFunc(cc, hasNext) })
		nx := callsIn(gen, func(cc *ssa.CallCommon) bool { return callsFunc(cc, next) })
		if len(hn) != 1 || len(nx) != 1 {
			r.undecided(rule, name, "each:loop", c.Pos(gen.Pos()), "expected one HasNext and one Next call")
		} else {
			header := hn[0].Block()
			nxCall := nx[0].(*ssa.Call)
			inLoop := blockReachable(nxCall.Block(), header) && dominatedByCond(nxCall, hn[0].(ssa.Value), true)
			if inLoop {
				r.ok(rule, name, "each:while-has-next", c.Pos(hn[0].Pos()), "the loop runs while HasNext() and takes one index per iteration")
			} else {
				r.viol(rule, name, "each:while-has-next", c.Pos(hn[0].Pos()), "Next() is not taken once per iteration of a loop guarded by HasNext()")
			}
			// success return only on the HasNext()==false edge
			okRet := true
			for _, ret := range returnsOf(gen) {
				isNil, known := returnsNilError(ret)
				if known && !isNil {
					continue
				}
				if !dominatedByCond(ret, hn[0].(ssa.Value), false) {
					okRet = false
					r.viol(rule, name, "each:success-after-exhaustion", c.Pos(ret.Pos()), "generateShardingSQLs can return success before the routed indexes are exhausted: the remaining copies get no statement")
				}
			}
			if okRet {
				r.ok(rule, name, "each:success-after-exhaustion", c.Pos(gen.Pos()), "success is returned only on the HasNext()==false edge")
			}
			// every path Next() -> back edge files the text
			var filed func(in ssa.Instruction) bool
			filed = func(in ssa.Instruction) bool {
				if cc := callCommon(in); cc != nil {
					// filing extracted into a package-private helper that appends on every path
					return c.mustPassFn(staticCallee(cc), func(x ssa.Instruction) bool { _, isMU := x.(*ssa.MapUpdate); return isMU && filed(x) }, 1)
				}
				mu, ok := in.(*ssa.MapUpdate)
				if !ok {
					return false
				}
				ap, ok := stripValue(mu.Value).(*ssa.Call)
				if !ok {
					return false
				}
				b, ok := ap.Call.Value.(*ssa.Builtin)
				return ok && b.Name() == "append"
			}
			skipped := false
			exits := searchExits(gen, nxCall, nil, SearchOpts{
				Stop: filed,
				EdgeOK: func(b *ssa.BasicBlock, i int) bool {
					if b.Succs[i] == header {
						skipped = true
						return false
					}
					return true
				},
				ExitOK: func(in ssa.Instruction) bool {
					ret, ok := in.(*ssa.Return)
					if !ok {
						return true
					}
					isNil, known := returnsNilError(ret)
					return known && !isNil
				},
			})
			if skipped || len(exits) > 0 {
				r.viol(rule, name, "each:index-files-statement", c.Pos(nxCall.Pos()), "an iteration can take an index without filing a statement for it (or return success): that copy receives nothing")
			} else {
				r.ok(rule, name, "each:index-files-statement", c.Pos(nxCall.Pos()), "every iteration files the restored text or returns an error")
			}
			// slice and database are computed from the very index
			nSame, nCalls := 0, 0
			allInstrs(gen, func(in ssa.Instruction) {
				cc := callCommon(in)
				if cc == nil || !(callsIfaceMethod(cc, mDB) || callsIfaceMethod(cc, mSliceIdx)) {
					return
				}
				nCalls++
				arg := cc.Args[len(cc.Args)-1]
				if sameVal(arg, nxCall) {
					nSame++
				}
			})
			if nCalls >= 2 && nSame == nCalls {
				r.ok(rule, name, "each:slice-and-db-of-index", c.Pos(nxCall.Pos()), "slice and physical database are looked up with the index just taken")
			} else {
				r.viol(rule, name, "each:slice-and-db-of-index", c.Pos(nxCall.Pos()), "the slice or database a statement is filed under is not computed from the index the statement was restored for")
			}
			// restore before the cursor advances
			var restores []ssa.Instruction
			allInstrs(gen, func(in ssa.Instruction) {
				if cc := callCommon(in); cc != nil && cc.IsInvoke() && cc.Method.Name() == "Restore" {
					restores = append(restores, in)
				}
			})
			if len(restores) == 1 && instrDominates(restores[0], nxCall) && blockReachable(restores[0].Block(), header) && dominatedByCond(restores[0], hn[0].(ssa.Value), true) {
				r.ok(rule, name, "each:restore-before-next", c.Pos(restores[0].Pos()), "the text is restored while the cursor still points at the index the statement is filed under")
			} else {
				r.viol(rule, name, "each:restore-before-next", c.Pos(nxCall.Pos()), "the statement text is restored after the cursor advanced (or outside the iteration): table and database names belong to another copy than the one the text is sent to")
			}
		}
	}
	// cursor methods
	{
		// Next: returns indexes[old currentIndex] and advances by one
		name := c.FuncName(next)
		okInc, okRet := false, false
		allInstrs(next, func(in ssa.Instruction) {
			st, ok := in.(*ssa.Store)
			if !ok || fieldOfAddr(st.Addr) != fCur {
				return
			}
			if b, ok := st.Val.(*ssa.BinOp); ok && b.Op == token.ADD {
				if k, ok := constInt(b.Y); ok && k == 1 && loadedField(b.X) == fCur {
					okInc = true
				}
			}
		})
		for _, ret := range returnsOf(next) {
			if u, ok := stripValue(ret.Results[0]).(*ssa.UnOp); ok && u.Op == token.MUL {
				if ia, ok := u.X.(*ssa.IndexAddr); ok && loadedField(ia.X) == fIndexes && loadedField(resolveLoad(stripValue(ia.Index))) == fCur {
					okRet = true
				}
			}
		}
		if okInc && okRet {
			r.ok(rule, name, "cursor:next", c.Pos(next.Pos()), "returns indexes[currentIndex] and advances the cursor by one")
		} else {
			r.viol(rule, name, "cursor:next", c.Pos(next.Pos()), "Next() does not return indexes[currentIndex] and advance by exactly one: routed copies are skipped or repeated")
		}
		hname := c.FuncName(hasNext)
		okH := false
		allInstrs(hasNext, func(in ssa.Instruction) {
			if b, ok := in.(*ssa.BinOp); ok && b.Op == token.LSS && loadedField(b.X) == fCur {
				if l, ok := stripValue(b.Y).(*ssa.Call); ok {
					if bi, ok := l.Call.Value.(*ssa.Builtin); ok && bi.Name() == "len" && loadedField(l.Call.Args[0]) == fIndexes {
						okH = true
					}
				}
			}
		})
		if okH {
			r.ok(rule, hname, "cursor:has-next", c.Pos(hasNext.Pos()), "HasNext() is currentIndex < len(indexes)")
		} else {
			r.viol(rule, hname, "cursor:has-next", c.Pos(hasNext.Pos()), "HasNext() is not currentIndex < len(indexes): the last copies are not visited")
		}
		cname := c.FuncName(curIdx)
		okC := false
		for _, ret := range returnsOf(curIdx) {
			if u, ok := stripValue(ret.Results[0]).(*ssa.UnOp); ok && u.Op == token.MUL {
				if ia, ok := u.X.(*ssa.IndexAddr); ok && loadedField(ia.X) == fIndexes && loadedField(ia.Index) == fCur {
					okC = true
				}
			}
		}
		if okC {
			r.ok(rule, cname, "cursor:current", c.Pos(curIdx.Pos()), "GetCurrentTableIndex() is indexes[currentIndex]")
		} else {
			r.viol(rule, cname, "cursor:current", c.Pos(curIdx.Pos()), "GetCurrentTableIndex() does not return indexes[currentIndex]: names are rewritten for another copy than the one the statement is filed under")
		}
	}

	// ---- (db) decorators write the database of the current copy for global rules
	for _, tn := range []string{"TableNameDecorator", "ColumnNameDecorator"} {
		fn := c.Method(planRel, tn, "Restore")
		if fn == nil {
			r.undecided(rule, planRel+"."+tn, "db:anchor", "-", "Restore not found")
			continue
		}
		name := c.FuncName(fn)
		ge := globalEdges(fn)
		found, okIdx := false, true
		allInstrs(fn, func(in ssa.Instruction) {
			cc := callCommon(in)
			if cc == nil {
				return
			}
			if callsIfaceMethod(cc, mDB) {
				// index argument is the current table index
				arg := stripValue(resolveLoad(stripValue(cc.Args[len(cc.Args)-1])))
				ex, ok := arg.(*ssa.Extract)
				if !ok || ex.Index != 0 {
					okIdx = false
					return
				}
				call, ok := ex.Tuple.(*ssa.Call)
				if !ok || !callsFunc(&call.Call, curIdx) {
					okIdx = false
				}
				return
			}
			f := staticCallee(cc)
			if f == nil || f.Name() != "WriteName" || len(cc.Args) < 2 {
				return
			}
			ex, ok := stripValue(resolveLoad(stripValue(cc.Args[1]))).(*ssa.Extract)
			if !ok || ex.Index != 0 {
				return
			}
			call, ok := ex.Tuple.(*ssa.Call)
			if !ok || !callsIfaceMethod(&call.Call, mDB) {
				return
			}
			for _, e := range ge {
				if instrDominatedByEdge(in, e) {
					found = true
				}
			}
		})
		if !found {
			// path-sensitive form (the two rule kinds that rewrite the schema may share one branch, `global || mycat`,
			// kept in a boolean, and the write may be hoisted behind the branch): from a global-true edge there is a
			// feasible path — boolean phis are evaluated by the edge they are entered through — that executes
			// GetDatabaseNameByTableIndex and then a WriteName whose argument, on that path, is its result
			for _, e := range ge {
				if schemaRewrittenOnPath(fn, e, func(cc *ssa.CallCommon) bool { return callsIfaceMethod(cc, mDB) }) {
					found = true
				}
			}
		}
		if !okIdx {
			r.viol(rule, name, "db:index-is-current", c.Pos(fn.Pos()), "GetDatabaseNameByTableIndex is asked about an index other than the result's current table index")
		} else {
			r.ok(rule, name, "db:index-is-current", c.Pos(fn.Pos()), "database names are looked up for the current table index")
		}
		if found {
			r.ok(rule, name, "db:global-schema-rewritten", c.Pos(fn.Pos()), "under GetType()==\"global\" the schema written is GetDatabaseNameByTableIndex(current index)")
		} else {
			r.viol(rule, name, "db:global-schema-rewritten", c.Pos(fn.Pos()), "for a global rule the schema name is not rewritten to the physical database of the current copy")
		}
	}
}

// subqueryNeedsShardedTable re-checks the reason of the one exception of db:decorator-for-global: in
// (*TableAliasStmtInfo).RecordSubqueryTableAlias the edge len(t.tableRules)==0 reaches only non-nil-error returns, and
// every non-recursive caller of handleSubquerySelectStmt also calls RecordSubqueryTableAlias after it.
func subqueryNeedsShardedTable(c *Ctx) bool {
	rec := c.Method(planRel, "TableAliasStmtInfo", "RecordSubqueryTableAlias")
	hs := c.Func(planRel, "handleSubquerySelectStmt")
	fRules := c.Field(planRel, "StmtInfo", "tableRules")
	if rec == nil || hs == nil || fRules == nil {
		return false
	}
	guard := false
	allInstrs(rec, func(in ssa.Instruction) {
		b, ok := in.(*ssa.BinOp)
		if !ok || b.Op != token.EQL {
			return
		}
		if k, ok := constInt(b.Y); !ok || k != 0 {
			return
		}
		l, ok := stripValue(b.X).(*ssa.Call)
		if !ok {
			return
		}
		if bi, ok := l.Call.Value.(*ssa.Builtin); !ok || bi.Name() != "len" || loadedField(l.Call.Args[0]) != fRules {
			return
		}
		for _, e := range condEdges(b) {
			if !e.Val {
				continue
			}
			bad := searchExits(rec, nil, e.If.Block().Succs[e.Succ], SearchOpts{ExitOK: func(in ssa.Instruction) bool {
				ret, ok := in.(*ssa.Return)
				if !ok {
					return true
				}
				isNil, known := returnsNilError(ret)
				return known && !isNil
			}})
			if len(bad) == 0 {
				guard = true
			}
		}
	})
	if !guard {
		return false
	}
	for _, s := range c.callSites(func(cc *ssa.CallCommon) bool { return callsFunc(cc, hs) }) {
		if s.Fn == hs || c.IsMockFunc(s.Fn) {
			continue
		}
		follows := false
		for _, ci := range callsIn(s.Fn, func(cc *ssa.CallCommon) bool { return callsFunc(cc, rec) }) {
			if ci.Block() == s.In.Block() || blockReachable(s.In.Block(), ci.Block()) {
				follows = true
			}
		}
		if !follows {
			return false
		}
	}
	return true
}

// ---------------------------------------------------------------------------------------
// C08 — Mycat-compatible placement: Java's string units

func init() {
	register("C08", "Clause decided (unit consistency, necessary for the statement on non-ASCII keys; the hash arithmetic and the partition tables are values and NOT decided): Mycat's PartitionByString and PartitionByMurmurHash are defined on Java strings, whose length() and charAt() count UTF-16 code units. (utf16) in router.stringHash and util.MurmurHash.HashUnencodedChars the sequence whose elements enter the hash is, by def-use through every call site, the result of utf16.Encode — a []rune conversion (code points) differs from Java for characters outside the Basic Multilingual Plane, raw bytes differ for every multi-byte character; (bounds) in MycatPartitionStringShard.FindForKey the length from which the relative hash-slice bounds are computed is the length of the very sequence that stringHash indexes (a byte length combined with an index over characters selects other characters than Mycat for any multi-byte key).",
		ruleC08)
}

// seqUnits classifies the unit of a character sequence value: "utf16", "runes", "bytes", or "" (unknown).
func seqUnits(c *Ctx, v ssa.Value, depth int) string {
	v = stripValue(resolveLoad(stripValue(v)))
	switch x := v.(type) {
	case *ssa.Call:
		if f := staticCallee(&x.Call); f != nil && f.Pkg != nil && f.Pkg.Pkg.Path() == "unicode/utf16" && f.Name() == "Encode" {
			return "utf16"
		}
	case *ssa.Convert:
		if isStringType(x.X.Type()) {
			if s, ok := x.Type().Underlying().(*types.Slice); ok {
				if b, ok := s.Elem().Underlying().(*types.Basic); ok {
					switch b.Kind() {
					case types.Int32:
						return "runes"
					case types.Uint8:
						return "bytes"
					}
				}
			}
		}
	case *ssa.Parameter:
		if isStringType(x.Type()) {
			return "bytes"
		}
		if depth == 0 {
			return ""
		}
		fn := x.Parent()
		idx := -1
		for i, p := range fn.Params {
			if p == x {
				idx = i
			}
		}
		units := ""
		for _, s := range c.callSites(func(cc *ssa.CallCommon) bool { return callsFunc(cc, fn) }) {
			if c.IsMockFunc(s.Fn) {
				continue
			}
			cc := callCommon(s.In)
			if idx < 0 || idx >= len(cc.Args) {
				return ""
			}
			u := seqUnits(c, cc.Args[idx], depth-1)
			if units == "" {
				units = u
			} else if units != u {
				return "mixed"
			}
		}
		return units
	}
	if isStringType(v.Type()) {
		return "bytes"
	}
	return ""
}

func ruleC08(c *Ctx, r *Report) {
	const rule = "MP-C08"
	r.floor(rule, 3)
	sh := c.Func("proxy/router", "stringHash")
	mm := c.Method("util", "MurmurHash", "HashUnencodedChars")
	find := c.Method("proxy/router", "MycatPartitionStringShard", "FindForKey")
	if sh == nil || mm == nil || find == nil {
		r.undecided(rule, "proxy/router", "anchor", "-", "stringHash / MurmurHash.HashUnencodedChars / MycatPartitionStringShard.FindForKey not found")
		return
	}
	for _, fn := range []*ssa.Function{sh, mm} {
		name := c.FuncName(fn)
		units := map[string]bool{}
		var at ssa.Instruction
		allInstrs(fn, func(in ssa.Instruction) {
			switch x := in.(type) {
			case *ssa.IndexAddr:
				units[seqUnits(c, x.X, 2)] = true
				at = in
			case *ssa.Lookup: // s[i] on a string
				if isStringType(x.X.Type()) {
					units["bytes"] = true
					at = in
				}
			}
		})
		switch {
		case len(units) == 1 && units["utf16"]:
			r.ok(rule, name, "units:hash-over-utf16", c.Pos(at.Pos()), "the characters that enter the hash are UTF-16 code units (utf16.Encode), as in Java")
		case len(units) == 0:
			r.undecided(rule, name, "units:hash-over-utf16", c.Pos(fn.Pos()), "no indexed character sequence found")
		default:
			var us []string
			for u := range units {
				if u == "" {
					u = "unknown"
				}
				us = append(us, u)
			}
			sortStrings(us)
			r.viol(rule, name, "units:hash-over-utf16", c.Pos(at.Pos()), "the hash runs over "+strings.Join(us, "/")+" of the key, Mycat's over Java chars (UTF-16 code units): keys with characters outside the Basic Multilingual Plane (for bytes: every multi-byte character) hash differently and are placed in another database than Mycat placed them")
		}
	}
	// the key text itself is never cut by a character position: a Slice of a string with a non-constant bound counts bytes
	{
		name := c.FuncName(find)
		bad := false
		var at ssa.Instruction
		allInstrs(find, func(in ssa.Instruction) {
			sl, ok := in.(*ssa.Slice)
			if !ok || !isStringType(sl.X.Type()) {
				return
			}
			for _, b := range []ssa.Value{sl.Low, sl.High} {
				if b == nil {
					continue
				}
				if _, isConst := constInt(b); !isConst {
					bad, at = true, in
				}
			}
		})
		if bad {
			r.viol(rule, name, "units:no-byte-cut-of-key", c.Pos(at.Pos()), "the key string is cut at a position computed at run time: a string slice counts UTF-8 bytes, the hash-slice window counts Java chars, so a multi-byte key is cut in the wrong place (or inside a character) before it is hashed")
		} else {
			r.ok(rule, name, "units:no-byte-cut-of-key", c.Pos(find.Pos()), "the key text is not sliced by a run-time position before the UTF-16 conversion")
		}
	}
	// bounds
	{
		name := c.FuncName(find)
		calls := callsIn(find, func(cc *ssa.CallCommon) bool { return callsFunc(cc, sh) })
		if len(calls) != 1 {
			r.undecided(rule, name, "units:bounds-in-same-units", c.Pos(find.Pos()), "expected one stringHash call")
			return
		}
		cc := callCommon(calls[0])
		seq := cc.Args[0]
		// what the callee indexes, seen from this argument
		calleeUnits := ""
		allInstrs(sh, func(in ssa.Instruction) {
			if ia, ok := in.(*ssa.IndexAddr); ok {
				base := stripValue(resolveLoad(stripValue(ia.X)))
				if base == ssa.Value(sh.Params[0]) {
					calleeUnits = "arg"
				} else if cv, ok := base.(*ssa.Convert); ok && stripValue(cv.X) == ssa.Value(sh.Params[0]) {
					calleeUnits = seqUnits(c, cv, 0)
				} else if call, ok := base.(*ssa.Call); ok {
					calleeUnits = seqUnits(c, call, 0)
				}
			}
		})
		good, n := true, 0
		var lens []ssa.Value
		var collect func(v ssa.Value, d int)
		collect = func(v ssa.Value, d int) {
			v = stripValue(v)
			if d == 0 {
				return
			}
			switch x := v.(type) {
			case *ssa.Phi:
				for _, e := range x.Edges {
					collect(e, d-1)
				}
			case *ssa.BinOp:
				collect(x.X, d-1)
				collect(x.Y, d-1)
			case *ssa.Call:
				if bi, ok := x.Call.Value.(*ssa.Builtin); ok && bi.Name() == "len" {
					lens = append(lens, x.Call.Args[0])
				}
			}
		}
		for _, a := range cc.Args[1:] {
			collect(a, 5)
		}
		for _, l := range lens {
			n++
			if calleeUnits == "arg" {
				if !sameVal(l, seq) {
					good = false
				}
			} else {
				// the callee converts its argument before indexing: a length taken here is in other units unless both are bytes
				if !(isStringType(l.Type()) && calleeUnits == "bytes") {
					good = false
				}
			}
		}
		switch {
		case n == 0:
			r.undecided(rule, name, "units:bounds-in-same-units", c.Pos(calls[0].Pos()), "no length feeds the hash-slice bounds")
		case good:
			r.ok(rule, name, "units:bounds-in-same-units", c.Pos(calls[0].Pos()), "the relative bounds are computed from the length of the sequence stringHash indexes")
		default:
			r.viol(rule, name, "units:bounds-in-same-units", c.Pos(calls[0].Pos()), "the relative hash-slice bounds are computed from a length in other units (bytes of the string) than the sequence stringHash indexes ("+calleeUnits+"): for a key with multi-byte characters other characters are hashed than Mycat hashes, so the key is looked for in another database")
		}
	}
}

// ---------------------------------------------------------------------------------------
// C01 — pruning on the sharding column drops only tables that cannot hold a matching row (shape of the range pruning)

func init() {
	register("C01", "Clauses decided (shape of the comparison pruning; which interval a key value falls in is a value question and is NOT decided): in plan.getFindTableIndexesFunc's route function (a) a condition on another column, `<>`, and any ordering comparison on a non-range shard return Rule.GetSubTableIndexes() unmodified; (b) `=` returns exactly the table of FindTableIndex(v); (c) for a range shard `<`/`<=` return makeList(GetFirstTableIndex(), i+1) and `>`/`>=` return makeList(FindTableIndex(v), GetLastTableIndex()+1): the table of the key itself is always kept, except that for `<` — and only on the `op == LT` edge — i may be adjustShardIndex(…), which (d) lowers the index by one only on the true edge of RangeShard.EqualStart(value, index); (e) no RangeShard implementation's EqualStart is the tautology `FindForKey(key) == index` (index IS FindForKey(key) at the only call site): its accepting paths must depend on something else — the interval's start boundary or the key's position inside the period — otherwise every `<` drops the table that holds the key's own period although rows earlier in that period match. AND/OR/NOT composition, IN/BETWEEN lists, joins and the interval arithmetic of each rule type are not covered.",
		ruleC01)
}

func ruleC01(c *Ctx, r *Report) {
	const rule = "MP-C01"
	r.floor(rule, 12)
	outer := c.Func(planRel, "getFindTableIndexesFunc")
	adjust := c.Func(planRel, "adjustShardIndex")
	makeList := c.Func(planRel, "makeList")
	mSub := c.IfaceMethod("proxy/router", "Rule", "GetSubTableIndexes")
	mFind := c.IfaceMethod("proxy/router", "Rule", "FindTableIndex")
	mFirst := c.IfaceMethod("proxy/router", "Rule", "GetFirstTableIndex")
	mLast := c.IfaceMethod("proxy/router", "Rule", "GetLastTableIndex")
	mEqStart := c.IfaceMethod("proxy/router", "RangeShard", "EqualStart")
	opPkg := c.Pkg("parser/opcode")
	if outer == nil || adjust == nil || makeList == nil || mSub == nil || mFind == nil || mFirst == nil || mLast == nil || mEqStart == nil || opPkg == nil {
		r.undecided(rule, planRel, "anchor", "-", "getFindTableIndexesFunc / adjustShardIndex / makeList / Rule methods / RangeShard.EqualStart / opcode not all found")
		return
	}
	opVal := func(n string) int64 {
		if cst, ok := opPkg.Pkg.Scope().Lookup(n).(*types.Const); ok {
			if v, ok := constantInt64(cst); ok {
				return v
			}
		}
		return -1
	}
	ltV := opVal("LT")
	var fn *ssa.Function
	for _, f := range c.Funcs {
		if f.Parent() == outer {
			fn = f
		}
	}
	if fn == nil || ltV < 0 {
		r.undecided(rule, c.FuncName(outer), "route-func", c.Pos(outer.Pos()), "route closure or opcode.LT not found")
		return
	}
	name := c.FuncName(outer)
	isCallTo := func(v ssa.Value, m *types.Func) *ssa.Call {
		call, ok := stripValue(resolveLoad(stripValue(v))).(*ssa.Call)
		if ok && callsIfaceMethod(&call.Call, m) {
			return call
		}
		return nil
	}
	isFindIdx := func(v ssa.Value) bool {
		ex, ok := stripValue(v).(*ssa.Extract)
		if !ok || ex.Index != 0 {
			return false
		}
		call, ok := ex.Tuple.(*ssa.Call)
		return ok && callsIfaceMethod(&call.Call, mFind)
	}
	plusOne := func(v ssa.Value) ssa.Value {
		b, ok := stripValue(v).(*ssa.BinOp)
		if !ok || b.Op != token.ADD {
			return nil
		}
		if k, ok := constInt(b.Y); ok && k == 1 {
			return b.X
		}
		return nil
	}
	// LT edges: `*op == LT` true
	nret := 0
	var visitRoute func(fn *ssa.Function, depth int)
	visitRoute = func(fn *ssa.Function, depth int) {
		ltEdges := eqConstEdges(fn, func(v ssa.Value) bool { return true }, ltV)
		for _, ret := range returnsOf(fn) {
			isNil, known := returnsNilError(ret)
			if known && !isNil {
				continue
			}
			v := stripValue(ret.Results[0])
			// `return helper(...)`: the route is computed by an unexported helper of the package (extract-method of a branch)
			if ex, ok := v.(*ssa.Extract); ok && ex.Index == 0 && depth > 0 {
				if hc, ok := ex.Tuple.(*ssa.Call); ok {
					if h := staticCallee(&hc.Call); h != nil && h != fn && h.Pkg == fn.Pkg && len(h.Blocks) > 0 && h != makeList {
						visitRoute(h, depth-1)
						continue
					}
				}
			}
			nret++
			cons := fmt.Sprintf("route:return#%d", nret)
			switch {
			case isCallTo(v, mSub) != nil:
				r.ok(rule, name, cons, c.Pos(ret.Pos()), "all tables of the rule (no pruning)")
			default:
				if sl, ok := v.(*ssa.Slice); ok {
					if es := variadicElems(sl); len(es) == 1 && isFindIdx(es[0]) {
						r.ok(rule, name, cons, c.Pos(ret.Pos()), "exactly the table FindTableIndex(v) names")
						continue
					}
				}
				call, ok := v.(*ssa.Call)
				if !ok || !callsFunc(&call.Call, makeList) || len(call.Call.Args) != 2 {
					r.viol(rule, name, cons, c.Pos(ret.Pos()), "the route returned here is neither all tables, the key's own table, nor a makeList range: tables may be dropped without a reason the rule can see")
					continue
				}
				lo, hi := call.Call.Args[0], call.Call.Args[1]
				hiBase := plusOne(hi)
				switch {
				case isCallTo(lo, mFirst) != nil && hiBase != nil:
					// upper end: the key's table, or the adjusted index on the LT edge only
					good, why := true, ""
					for _, l := range phiLeaves(hiBase) {
						if isFindIdx(l) {
							continue
						}
						if ac, ok := l.(*ssa.Call); ok && callsFunc(&ac.Call, adjust) {
							if len(ltEdges) == 0 || !edgesDominate(fn, ltEdges, ac.Block()) {
								good, why = false, "the index is adjusted downwards although the operator is not known to be `<`: for `<=` the table of the key itself is dropped"
							}
							if len(ac.Call.Args) != 3 || !isFindIdx(ac.Call.Args[2]) {
								good, why = false, "adjustShardIndex is not applied to the key's own table index"
							}
							continue
						}
						good, why = false, "the upper end of the range is not the key's own table index"
					}
					if good {
						r.ok(rule, name, cons, c.Pos(ret.Pos()), "[first .. table of the key], lowered by adjustShardIndex only on the `<` edge")
					} else {
						r.viol(rule, name, cons, c.Pos(ret.Pos()), why)
					}
				case isFindIdx(stripValue(lo)) && hiBase != nil && isCallTo(hiBase, mLast) != nil:
					r.ok(rule, name, cons, c.Pos(ret.Pos()), "[table of the key .. last]")
				default:
					r.viol(rule, name, cons, c.Pos(ret.Pos()), "a range route that does not keep the table of the key itself (expected makeList(first, idx+1) or makeList(idx, last+1))")
				}
			}
		}
	}
	visitRoute(fn, 2)
	if nret < 6 {
		r.undecided(rule, name, "route:returns", c.Pos(fn.Pos()), fmt.Sprintf("expected the route function's 7 success returns, found %d", nret))
	}
	// (d) adjustShardIndex
	{
		aname := c.FuncName(adjust)
		idxP := ssa.Value(adjust.Params[2])
		n := 0
		for _, ret := range returnsOf(adjust) {
			n++
			cons := fmt.Sprintf("adjust:return#%d", n)
			v := stripValue(ret.Results[0])
			if v == idxP {
				r.ok(rule, aname, cons, c.Pos(ret.Pos()), "index unchanged")
				continue
			}
			b, ok := v.(*ssa.BinOp)
			k, isK := int64(0), false
			if ok {
				k, isK = constInt(b.Y)
			}
			if ok && b.Op == token.SUB && stripValue(b.X) == idxP && isK && k == 1 {
				dom := false
				allInstrs(adjust, func(in ssa.Instruction) {
					call, ok := in.(*ssa.Call)
					if ok && callsIfaceMethod(&call.Call, mEqStart) && dominatedByCond(ret, call, true) {
						dom = true
					}
				})
				if dom {
					r.ok(rule, aname, cons, c.Pos(ret.Pos()), "index-1 only on the true edge of EqualStart(value, index)")
				} else {
					r.viol(rule, aname, cons, c.Pos(ret.Pos()), "the index is lowered without the key being known to equal the interval's start: `<` drops the table of the key's own interval")
				}
				continue
			}
			r.viol(rule, aname, cons, c.Pos(ret.Pos()), "adjustShardIndex returns something other than index or index-1")
		}
	}
	// (g) BETWEEN / NOT BETWEEN on a range shard: both bound tables stay in the route
	if bt := c.Func(planRel, "getShardBetweenExprRouteResult"); bt != nil {
		bname := c.FuncName(bt)
		unionL := c.Func(planRel, "unionList")
		fromFind := func(v ssa.Value) bool {
			ls := phiLeaves(v)
			if len(ls) == 0 {
				return false
			}
			for _, l := range ls {
				if isFindIdx(l) {
					continue
				}
				if ac, ok := l.(*ssa.Call); ok && callsFunc(&ac.Call, adjust) && len(ac.Call.Args) == 3 {
					okArg := true
					for _, al := range phiLeaves(ac.Call.Args[2]) {
						if !isFindIdx(al) {
							okArg = false
						}
					}
					if okArg {
						continue
					}
				}
				return false
			}
			return true
		}
		// classify a makeList call: "first..x", "y..last", "x..y", or ""
		classify := func(v ssa.Value) string {
			call, ok := stripValue(v).(*ssa.Call)
			if !ok || !callsFunc(&call.Call, makeList) || len(call.Call.Args) != 2 {
				return ""
			}
			lo, hi := call.Call.Args[0], plusOne(call.Call.Args[1])
			if hi == nil {
				return ""
			}
			switch {
			case isCallTo(lo, mFirst) != nil && fromFind(hi):
				return "first..x"
			case fromFind(lo) && isCallTo(hi, mLast) != nil:
				return "y..last"
			case fromFind(lo) && fromFind(hi):
				return "x..y"
			}
			return ""
		}
		nb := 0
		for _, ret := range returnsOf(bt) {
			isNil, known := returnsNilError(ret)
			if known && !isNil {
				continue
			}
			nb++
			cons := fmt.Sprintf("between:return#%d", nb)
			v := stripValue(ret.Results[0])
			if k := classify(v); k == "x..y" {
				r.ok(rule, bname, cons, c.Pos(ret.Pos()), "BETWEEN: every table from the table of one bound to the table of the other")
				continue
			}
			if call, ok := v.(*ssa.Call); ok && unionL != nil && callsFunc(&call.Call, unionL) && len(call.Call.Args) == 2 {
				a, b := classify(call.Call.Args[0]), classify(call.Call.Args[1])
				if (a == "first..x" && b == "y..last") || (a == "y..last" && b == "first..x") {
					r.ok(rule, bname, cons, c.Pos(ret.Pos()), "NOT BETWEEN: [first .. table of the lower bound] and [table of the upper bound .. last]: both bound tables are kept")
					continue
				}
			}
			r.viol(rule, bname, cons, c.Pos(ret.Pos()), "the route of a (NOT) BETWEEN on a range shard is not built from the tables of its two bounds inclusively (makeList(x, y+1), or makeList(first, x+1) ∪ makeList(y, last+1)): the tables that hold the bounds are only partly covered by the condition and must stay in the route")
		}
		if nb == 0 {
			r.undecided(rule, bname, "between:returns", c.Pos(bt.Pos()), "no success return found")
		}
	} else {
		r.undecided(rule, planRel+".getShardBetweenExprRouteResult", "between:anchor", "-", "not found")
	}
	// (f) `value op column` is routed with the mirrored operator: inverseOperator maps GT<->LT, GE<->LE
	if inv := c.Func(planRel, "inverseOperator"); inv != nil {
		want := map[int64]int64{opVal("GT"): opVal("LT"), opVal("GE"): opVal("LE"), opVal("LT"): opVal("GT"), opVal("LE"): opVal("GE")}
		got := map[int64]int64{}
		p0 := ssa.Value(inv.Params[0])
		allInstrs(inv, func(in ssa.Instruction) {
			b, ok := in.(*ssa.BinOp)
			if !ok || b.Op != token.EQL || stripValue(b.X) != p0 {
				return
			}
			k, ok := constInt(b.Y)
			if !ok {
				return
			}
			for _, e := range condEdges(b) {
				if !e.Val {
					continue
				}
				blk := e.If.Block().Succs[e.Succ]
				if ret, ok := blk.Instrs[len(blk.Instrs)-1].(*ssa.Return); ok {
					if v, ok := constInt(ret.Results[0]); ok {
						got[k] = v
					}
				}
			}
		})
		good := true
		for k, v := range want {
			if got[k] != v {
				good = false
			}
		}
		// every other operator is returned unchanged
		for _, ret := range returnsOf(inv) {
			if _, isConst := constInt(ret.Results[0]); !isConst && stripValue(ret.Results[0]) != p0 {
				good = false
			}
		}
		if good {
			r.ok(rule, c.FuncName(inv), "inverse:table", c.Pos(inv.Pos()), "GT<->LT and GE<->LE, every other operator unchanged")
		} else {
			r.viol(rule, c.FuncName(inv), "inverse:table", c.Pos(inv.Pos()), "inverseOperator does not mirror the ordering comparisons (GT<->LT, GE<->LE): `5 < col` is pruned as if it were `col < 5`")
		}
	} else {
		r.undecided(rule, planRel+".inverseOperator", "inverse:table", "-", "not found")
	}
	// (e) EqualStart is not FindForKey(key) == index
	rsT := c.NamedType("proxy/router", "RangeShard")
	if rsT == nil {
		r.undecided(rule, "proxy/router.RangeShard", "eqstart:anchor", "-", "RangeShard not found")
		return
	}
	iface, _ := rsT.Underlying().(*types.Interface)
	ne := 0
	for _, fnE := range c.Funcs {
		if fnE.Name() != "EqualStart" || fnE.Signature.Recv() == nil || c.IsMockFunc(fnE) || len(fnE.Blocks) == 0 {
			continue
		}
		if iface == nil || !types.Implements(fnE.Signature.Recv().Type(), iface) {
			continue
		}
		recvN := namedOf(fnE.Signature.Recv().Type())
		if recvN == nil {
			continue
		}
		ne++
		ename := c.FuncName(fnE)
		// the function FindForKey returns
		var keyFn *ssa.Function
		if ff := c.Method("proxy/router", recvN.Obj().Name(), "FindForKey"); ff != nil {
			for _, ret := range returnsOf(ff) {
				for _, res := range ret.Results {
					if call, ok := stripValue(res).(*ssa.Call); ok {
						keyFn = staticCallee(&call.Call)
					}
					if ex, ok := stripValue(res).(*ssa.Extract); ok {
						if call, ok := ex.Tuple.(*ssa.Call); ok {
							keyFn = staticCallee(&call.Call)
						}
					}
				}
			}
		}
		idxP := ssa.Value(fnE.Params[2])
		trivial := func(cond ssa.Value) bool {
			cv := stripValue(cond)
			if u, ok := cv.(*ssa.UnOp); ok && u.Op == token.NOT {
				cv = stripValue(u.X)
			}
			// "could the key be read at all" flags (second results of calls) say nothing about where the key lies
			if ex, ok := cv.(*ssa.Extract); ok && ex.Index > 0 {
				return true
			}
			b, ok := cv.(*ssa.BinOp)
			if !ok {
				return false
			}
			// err != nil / err == nil of the key function
			if isNilConst(b.X) || isNilConst(b.Y) {
				return true
			}
			if b.Op != token.EQL && b.Op != token.NEQ {
				return false
			}
			x, y := stripValue(b.X), stripValue(b.Y)
			if y != idxP {
				x, y = y, x
			}
			if y != idxP {
				return false
			}
			ex, ok := x.(*ssa.Extract)
			if !ok {
				return false
			}
			call, ok := ex.Tuple.(*ssa.Call)
			return ok && keyFn != nil && staticCallee(&call.Call) == keyFn
		}
		taut := false
		nacc := 0
		for _, ret := range returnsOf(fnE) {
			vals, zero := retValues(ret, 0)
			if zero {
				continue
			}
			may := false
			nonTrivialValue := false
			for _, v := range vals {
				for _, l := range phiLeaves(v) {
					if b, ok := constBool(l); ok {
						if b {
							may = true
						}
						continue
					}
					may = true
					if !trivial(l) {
						nonTrivialValue = true
					}
				}
			}
			if !may {
				continue
			}
			nacc++
			// conditions on the way: any If whose edge dominates the return and whose condition is not trivial
			nonTrivialGuard := false
			for _, blk := range fnE.Blocks {
				iff, ok := blk.Instrs[len(blk.Instrs)-1].(*ssa.If)
				if !ok || trivial(iff.Cond) {
					continue
				}
				for succ := 0; succ < 2; succ++ {
					if edgeDominates(fnE, blk, succ, ret.Block()) {
						nonTrivialGuard = true
					}
				}
			}
			if !nonTrivialValue && !nonTrivialGuard {
				taut = true
			}
		}
		switch {
		case nacc == 0:
			r.ok(rule, ename, "eqstart:not-a-tautology", c.Pos(fnE.Pos()), "never answers true: `<` never drops the key's own table")
		case taut:
			r.viol(rule, ename, "eqstart:not-a-tautology", c.Pos(fnE.Pos()), "EqualStart(key, index) is `FindForKey(key) == index`, and index IS FindForKey(key) where it is called: it answers true for every key, so `col < v` always drops the table of v's own period although rows of that period earlier than v match")
		default:
			r.ok(rule, ename, "eqstart:not-a-tautology", c.Pos(fnE.Pos()), "the answer depends on more than the key's table index (the interval's start / the key's position inside its period)")
		}
	}
	if ne < 3 {
		r.undecided(rule, "proxy/router", "eqstart:implementations", "-", fmt.Sprintf("expected the range/date EqualStart implementations, found %d", ne))
	}
}

// ---------------------------------------------------------------------------------------
// C02 — cross-shard SELECT: structure of the merge

func init() {
	register("C02", "Clauses decided (structure of the cross-shard merge, each necessary for the statement; the merged values themselves are NOT decided): (pipeline) MergeSelectResult concatenates the shard results, then removes duplicates (DISTINCT), folds groups / top-level aggregates, then sorts, then cuts LIMIT/OFFSET, then trims the helper columns — in that order, each step on the nil-error edge of the previous one; (extra) every function that appends helper columns to the select list for the shards (GROUP BY / ORDER BY expressions) is followed, before the SQL is generated, by the registration of an aggregate merger for appended columns that are aggregates (an ORDER BY SUM(x) column that is not merged makes the rows come back ordered by one shard's partial sum); (limit) when the statement has GROUP BY the LIMIT is not sent to the shards (a shard's first n groups are not the table's first n groups, and a group cut off on one shard is aggregated from the others only) — reported on the pinned tree as a known finding; (first) the first of several shard results is never returned alone (PC5d). Row values, NULL ordering, collations, DISTINCT aggregates, UNION and joins are not covered.",
		ruleC02, ruleC39d)
}

func ruleC02(c *Ctx, r *Report) {
	const rule = "MP-C02"
	r.floor(rule, 8)
	merge := c.Func(planRel, "MergeSelectResult")
	hs := c.Func(planRel, "HandleSelectStmt")
	hlimit := c.Func(planRel, "handleLimit")
	setMerger := c.Method(planRel, "SelectPlan", "setAggregateFuncMerger")
	gen := c.Func(planRel, "generateShardingSQLs")
	if merge == nil || hs == nil || hlimit == nil || setMerger == nil || gen == nil {
		r.undecided(rule, planRel, "anchor", "-", "MergeSelectResult / HandleSelectStmt / handleLimit / setAggregateFuncMerger / generateShardingSQLs not all found")
		return
	}
	// ---- (pipeline)
	{
		name := c.FuncName(merge)
		steps := []string{"mergeMultiResultSet", "removeDistinctRowInResult", "buildSelectGroupByResult|buildSelectOnlyResult", "sortSelectResult", "limitSelectResult", "trimExtraFields"}
		find := func(alt string) []ssa.Instruction {
			var out []ssa.Instruction
			for _, n := range strings.Split(alt, "|") {
				if f := c.Func(planRel, n); f != nil {
					out = append(out, callsIn(merge, func(cc *ssa.CallCommon) bool { return callsFunc(cc, f) })...)
				}
			}
			return out
		}
		var prev []ssa.Instruction
		prevName := ""
		for _, st := range steps {
			cur := find(st)
			if len(cur) == 0 {
				r.viol(rule, name, "pipeline:"+st, c.Pos(merge.Pos()), "the merge step "+st+" is missing")
				continue
			}
			if prev != nil {
				good := true
				for _, cinst := range cur {
					for _, pinst := range prev {
						// the later step never runs before the earlier one, and is reachable from it
						before := cinst.Block() != pinst.Block() && blockReachable(cinst.Block(), pinst.Block())
						sameBlockBefore := cinst.Block() == pinst.Block() && instrIndex(cinst) < instrIndex(pinst)
						if before || sameBlockBefore {
							good = false
						}
						// a failed earlier step does not fall through into the later one
						if pc, ok := pinst.(*ssa.Call); ok && errResultOf(pc) != nil {
							for _, e := range errNilEdgesOfCall(pc) {
								if e.Val {
									continue
								}
								eb := e.If.Block().Succs[e.Succ]
								if eb == cinst.Block() || blockReachable(eb, cinst.Block()) {
									good = false
								}
							}
						}
					}
					reach := false
					for _, pinst := range prev {
						if pinst.Block() == cinst.Block() || blockReachable(pinst.Block(), cinst.Block()) {
							reach = true
						}
					}
					if !reach {
						good = false
					}
				}
				if good {
					r.ok(rule, name, "pipeline:"+prevName+"->"+st, c.Pos(cur[0].Pos()), "runs after "+prevName+" (on its nil-error edge)")
				} else {
					r.viol(rule, name, "pipeline:"+prevName+"->"+st, c.Pos(cur[0].Pos()), st+" does not run after "+prevName+" succeeded: e.g. cutting LIMIT before sorting, or sorting before the groups are folded, returns other rows than a single database would")
				}
			}
			prev, prevName = cur, st
		}
	}
	// ---- (extra)
	{
		name := c.FuncName(hs)
		fFields := c.Field("parser/ast", "FieldList", "Fields")
		// appenders: callees of HandleSelectStmt that store an append(...) into FieldList.Fields
		isAppender := func(f *ssa.Function) bool {
			if f == nil || len(f.Blocks) == 0 {
				return false
			}
			found := false
			allInstrs(f, func(in ssa.Instruction) {
				st, ok := in.(*ssa.Store)
				if !ok || fieldOfAddr(st.Addr) != fFields {
					return
				}
				if call, ok := stripValue(st.Val).(*ssa.Call); ok {
					if bi, ok := call.Call.Value.(*ssa.Builtin); ok && bi.Name() == "append" {
						// a removal (append(a[:i], a[i+1:]...)) is not an appender: its first operand is a reslice
						if _, cut := stripValue(call.Call.Args[0]).(*ssa.Slice); !cut {
							found = true
						}
					}
				}
			})
			return found
		}
		registers := func(f *ssa.Function) bool {
			if f == nil {
				return false
			}
			return len(callsIn(f, func(cc *ssa.CallCommon) bool { return callsFunc(cc, setMerger) })) > 0
		}
		var appCalls, regCalls []ssa.Instruction
		allInstrs(hs, func(in ssa.Instruction) {
			cc := callCommon(in)
			if cc == nil {
				return
			}
			f := staticCallee(cc)
			if isAppender(f) {
				appCalls = append(appCalls, in)
			}
			if registers(f) {
				regCalls = append(regCalls, in)
			}
		})
		if fFields == nil || len(appCalls) == 0 {
			r.undecided(rule, name, "extra:aggregates-merged", c.Pos(hs.Pos()), "no function appending helper columns found in HandleSelectStmt")
		}
		for i, a := range appCalls {
			cons := fmt.Sprintf("extra:aggregates-merged:%s@%d", staticCallee(callCommon(a)).Name(), i+1)
			good := false
			for _, rc := range regCalls {
				if instrDominates(a, rc) {
					good = true
				}
			}
			if good {
				r.ok(rule, name, cons, c.Pos(a.Pos()), "aggregate mergers are registered after the helper columns were appended")
			} else {
				r.viol(rule, name, cons, c.Pos(a.Pos()), "helper columns are appended to the select list after the only place that registers aggregate mergers ran: an appended aggregate (ORDER BY SUM(x), GROUP BY on an aggregate alias) is not merged across shards and the rows are sorted/grouped by one shard's partial value")
			}
		}
	}
	// ---- (limit)
	{
		name := c.FuncName(hlimit)
		fGroupBy := c.Field("parser/ast", "SelectStmt", "GroupBy")
		fLimit := c.Field("parser/ast", "SelectStmt", "Limit")
		cleared := false
		for _, fn := range []*ssa.Function{hlimit, hs} {
			var gbEdges []CondEdge
			allInstrs(fn, func(in ssa.Instruction) {
				b, ok := in.(*ssa.BinOp)
				if !ok || b.Op != token.NEQ || !isNilConst(b.Y) || loadedField(b.X) != fGroupBy {
					return
				}
				for _, e := range condEdges(b) {
					if e.Val {
						gbEdges = append(gbEdges, e)
					}
				}
			})
			allInstrs(fn, func(in ssa.Instruction) {
				st, ok := in.(*ssa.Store)
				if !ok || fieldOfAddr(st.Addr) != fLimit || !isNilConst(st.Val) {
					return
				}
				if len(gbEdges) > 0 && edgesDominate(fn, gbEdges, st.Block()) {
					cleared = true
				}
			})
		}
		if fGroupBy == nil || fLimit == nil {
			r.undecided(rule, name, "limit:not-pushed-with-group-by", c.Pos(hlimit.Pos()), "ast.SelectStmt.GroupBy / Limit not found")
		} else if cleared {
			r.ok(rule, name, "limit:not-pushed-with-group-by", c.Pos(hlimit.Pos()), "with GROUP BY the LIMIT is removed from the statement sent to the shards and applied after the merge")
		} else {
			r.viol(rule, name, "limit:not-pushed-with-group-by", c.Pos(hlimit.Pos()), "a LIMIT is sent to every shard even when the statement has GROUP BY: each shard returns its own first n groups, so a group that is not among the first n on any single shard is lost and the others are aggregated from part of the shards")
		}
	}
}

// schemaRewrittenOnPath: path-sensitive search from the edge e. Boolean (and other) phis take the value of the edge they
// are entered through; an If on a value known that way follows only the matching branch. Succeeds when a path executes a
// call satisfying isDB and later a WriteName call whose argument, resolved along the path, is result #0 of that call.
func schemaRewrittenOnPath(fn *ssa.Function, e CondEdge, isDB func(cc *ssa.CallCommon) bool) bool {
	type state struct {
		b      *ssa.BasicBlock
		pred   *ssa.BasicBlock
		phis   map[*ssa.Phi]ssa.Value
		passed map[ssa.Value]bool
		depth  int
	}
	found := false
	var walk func(st state)
	visited := map[string]bool{}
	walk = func(st state) {
		if found || st.depth > 40 {
			return
		}
		// evaluate phis of this block by the incoming edge
		phis := map[*ssa.Phi]ssa.Value{}
		for k, v := range st.phis {
			phis[k] = v
		}
		if st.pred != nil {
			for _, in := range st.b.Instrs {
				phi, ok := in.(*ssa.Phi)
				if !ok {
					break
				}
				for i, p := range st.b.Preds {
					if p == st.pred {
						v := phi.Edges[i]
						if pv, ok := stripValue(v).(*ssa.Phi); ok {
							if r, ok := phis[pv]; ok {
								v = r
							}
						}
						phis[phi] = v
					}
				}
			}
		}
		resolve := func(v ssa.Value) ssa.Value {
			for i := 0; i < 8; i++ {
				v = stripValue(resolveLoad(stripValue(v)))
				phi, ok := v.(*ssa.Phi)
				if !ok {
					return v
				}
				r, ok := phis[phi]
				if !ok {
					return v
				}
				v = r
			}
			return v
		}
		key := fmt.Sprintf("%d|%d|%d", st.b.Index, len(st.passed), len(phis))
		if visited[key] {
			return
		}
		visited[key] = true
		passed := map[ssa.Value]bool{}
		for k := range st.passed {
			passed[k] = true
		}
		for _, in := range st.b.Instrs {
			cc := callCommon(in)
			if cc == nil {
				continue
			}
			if isDB(cc) {
				if v, ok := in.(ssa.Value); ok {
					passed[v] = true
				}
				continue
			}
			if f := staticCallee(cc); f != nil && f.Name() == "WriteName" && len(cc.Args) >= 2 {
				a := resolve(cc.Args[1])
				if ex, ok := a.(*ssa.Extract); ok && ex.Index == 0 && passed[ex.Tuple] {
					found = true
					return
				}
			}
		}
		last := st.b.Instrs[len(st.b.Instrs)-1]
		if iff, ok := last.(*ssa.If); ok {
			cond := iff.Cond
			neg := false
			for {
				u, ok := cond.(*ssa.UnOp)
				if !ok || u.Op != token.NOT {
					break
				}
				cond, neg = u.X, !neg
			}
			if b, ok := constBool(resolve(cond)); ok {
				if neg {
					b = !b
				}
				idx := 1
				if b {
					idx = 0
				}
				walk(state{st.b.Succs[idx], st.b, phis, passed, st.depth + 1})
				return
			}
		}
		for _, s := range st.b.Succs {
			walk(state{s, st.b, phis, passed, st.depth + 1})
		}
	}
	start := e.If.Block().Succs[e.Succ]
	walk(state{start, e.If.Block(), map[*ssa.Phi]ssa.Value{}, map[ssa.Value]bool{}, 0})
	return found
}
