package main

import (
	"bufio"
	"fmt"
	"os"
	"os/exec"
	"path/filepath"
	"regexp"
	"strings"
)

// Mutant self-test (thorough tier): every rule has recorded one-edit mutants of /repo's source (regex replacement in one
// file, applied through a go/packages overlay: /repo itself is never written). Each mutant is analysed in a fresh
// process; the expected rule must report a failed obligation. The self-test never decides the property: it is evidence
// that the rule has teeth and still recognises the code it was written for.
//
// mutants/<prop>.txt line format (fields separated by " || "):
//
//	name || repo-relative file || regexp (Go RE2, (?s) allowed) || replacement || expected rule
type mutant struct {
	name, file, pat, repl, rule string
}

func readMutants(path string) ([]mutant, error) {
	f, err := os.Open(path)
	if err != nil {
		return nil, err
	}
	defer f.Close()
	var out []mutant
	sc := bufio.NewScanner(f)
	sc.Buffer(make([]byte, 1<<20), 1<<20)
	for sc.Scan() {
		line := strings.TrimSpace(sc.Text())
		if line == "" || strings.HasPrefix(line, "#") {
			continue
		}
		// five fields; the replacement may itself contain " || " (Go source), so split the first three separators from
		// the left and the last one from the right
		var p []string
		rest := line
		for i := 0; i < 3; i++ {
			j := strings.Index(rest, " || ")
			if j < 0 {
				return nil, fmt.Errorf("bad mutant line: %q", line)
			}
			p = append(p, rest[:j])
			rest = rest[j+4:]
		}
		j := strings.LastIndex(rest, " || ")
		if j < 0 {
			return nil, fmt.Errorf("bad mutant line: %q", line)
		}
		p = append(p, rest[:j], rest[j+4:])
		unesc := func(s string) string { return strings.ReplaceAll(strings.ReplaceAll(s, `\n`, "\n"), `\t`, "\t") }
		out = append(out, mutant{strings.TrimSpace(p[0]), strings.TrimSpace(p[1]), strings.TrimSpace(p[2]), unesc(strings.TrimSpace(p[3])), strings.TrimSpace(p[4])})
	}
	return out, sc.Err()
}

type mutResult struct {
	Name   string `json:"name"`
	File   string `json:"file"`
	Rule   string `json:"expected_rule"`
	Status string `json:"status"` // killed | survived | stale | invalid
	Detail string `json:"detail,omitempty"`
}

func runSelfTest(prop, repo, verif string) (results []mutResult) {
	ms, err := readMutants(filepath.Join(verif, "mutants", prop+".txt"))
	if err != nil {
		return nil
	}
	self, _ := os.Executable()
	for _, m := range ms {
		res := mutResult{Name: m.name, File: m.file, Rule: m.rule}
		src, err := os.ReadFile(filepath.Join(repo, m.file))
		if err != nil {
			res.Status, res.Detail = "stale", err.Error()
			results = append(results, res)
			continue
		}
		re, err := regexp.Compile(m.pat)
		if err != nil {
			res.Status, res.Detail = "invalid", "regexp: "+err.Error()
			results = append(results, res)
			continue
		}
		loc := re.FindIndex(src)
		if loc == nil {
			res.Status, res.Detail = "stale", "pattern no longer matches the source"
			results = append(results, res)
			continue
		}
		repl := re.ReplaceAll(src[loc[0]:loc[1]], []byte(m.repl))
		mut := append(append(append([]byte{}, src[:loc[0]]...), repl...), src[loc[1]:]...)
		tf, _ := os.CreateTemp("", "gaeamut*.go")
		tf.Write(mut)
		tf.Close()
		cmd := exec.Command(self, "-prop", prop, "-tier", "quick", "-no-evidence", "-repo", repo, "-verif", verif, "-overlay", m.file+"="+tf.Name())
		out, _ := cmd.CombinedOutput()
		os.Remove(tf.Name())
		text := string(out)
		switch {
		case strings.Contains(text, " LOAD "):
			res.Status, res.Detail = "invalid", "mutated source does not type-check"
		case strings.Contains(text, ") "+m.rule+" "):
			res.Status = "killed"
			for _, l := range strings.Split(text, "\n") {
				if strings.HasPrefix(l, "FAILED-OBLIGATION") && strings.Contains(l, ") "+m.rule+" ") {
					if len(l) > 260 {
						l = l[:260]
					}
					res.Detail = l
					break
				}
			}
		default:
			res.Status = "survived"
		}
		results = append(results, res)
	}
	return results
}
