package main

// C29 — credentials authenticate into exactly their own namespace, across reloads.
// Structural clauses: the credential index (UserManager.userNamespaces / users) is keyed injectively, edited only for
// the namespace being reloaded, read back with the key it was written with, and the session is bound to the namespace
// of the very (user, password) pair that passed the check.

import (
	"fmt"
	"go/constant"
	"go/token"
	"go/types"
	"strings"

	"golang.org/x/tools/go/ssa"
)

func init() {
	register("C29", "Clauses decided (structure of the credential index, necessary for the statement): (key) the key under which UserManager.userNamespaces stores a credential is an injective function of (user name, password): a comparable struct holding the two strings in separate fields — a string concatenation or format is reported, because (\"a:b\",\"c\") and (\"a\",\"b:c\") collide and no decoder can recover the pair; insert and lookup build the key with the same constructor and the same argument order; (clear) ClearNamespaceUsers edits userNamespaces and users only under the edge `stored namespace == namespace being cleared`, removes the entry it is iterating, and the user name / password it removes from `users` are the key's own components (field reads, not a decode of a string); (add) addNamespaceUsers files each user under (user.UserName, user.Password) of the same element with the namespace's own name; (rebuild) RebuildNamespaceUsers clears exactly namespace.Name before adding; (check) every Check*Password iterates users[<the user parameter>] and returns, with true, the very element that matched; (deleg) the Manager wrappers forward their arguments unchanged and in order to the current UserManager; (bind) in handleHandshakeResponse the namespace stored in the session is GetNamespaceByUser(user, password) with the handshake's user and, on every path, the password returned by the same Check*Password call whose boolean let the handshake pass; (clone) Manager edits a UserManager only through a fresh CloneUserManager copy. The scramble arithmetic (C30) and interleavings of reload with handshakes are not covered.",
		ruleC29)
}

type keyShape struct {
	kind  string      // "struct" | "concat" | "format" | "leaf"
	comps []ssa.Value // struct: one per field (nil = never stored); concat: the non-constant operands
	typ   types.Type
	ctor  *ssa.Function // outermost module constructor the value came from (nil if built in place)
}

// credKeyShape describes how the value v is built from leaves, looking through single-result module functions
// (parameters are replaced by the caller's arguments).
func credKeyShape(c *Ctx, v ssa.Value, env map[*ssa.Parameter]ssa.Value, depth int) keyShape {
	v = stripValue(v)
	if p, ok := v.(*ssa.Parameter); ok && env != nil {
		if a, ok := env[p]; ok {
			return keyShape{kind: "leaf", comps: []ssa.Value{a}, typ: v.Type()}
		}
	}
	subst := func(x ssa.Value) ssa.Value {
		x = stripValue(x)
		if p, ok := x.(*ssa.Parameter); ok && env != nil {
			if a, ok := env[p]; ok {
				return a
			}
		}
		return x
	}
	switch x := v.(type) {
	case *ssa.Call:
		callee := staticCallee(&x.Call)
		if callee != nil && callee.Pkg != nil && callee.Pkg.Pkg.Path() == "fmt" && callee.Name() == "Sprintf" {
			return keyShape{kind: "format", typ: v.Type()}
		}
		if callee != nil && c.InModule(callee) && len(callee.Blocks) > 0 && callee.Signature.Results().Len() == 1 && depth < 3 {
			env2 := map[*ssa.Parameter]ssa.Value{}
			for i, p := range callee.Params {
				if i < len(x.Call.Args) {
					env2[p] = subst(x.Call.Args[i])
				}
			}
			var got *keyShape
			for _, ret := range returnsOf(callee) {
				vals, zero := retValues(ret, 0)
				if zero || len(vals) != 1 {
					return keyShape{kind: "leaf", comps: []ssa.Value{v}, typ: v.Type()}
				}
				s := credKeyShape(c, vals[0], env2, depth+1)
				if got != nil && got.kind != s.kind {
					return keyShape{kind: "leaf", comps: []ssa.Value{v}, typ: v.Type()}
				}
				got = &s
			}
			if got != nil {
				if got.ctor == nil {
					got.ctor = callee
				}
				return *got
			}
		}
	case *ssa.BinOp:
		if x.Op == token.ADD && isStringType(x.Type()) {
			var comps []ssa.Value
			var walk func(y ssa.Value)
			walk = func(y ssa.Value) {
				y = stripValue(y)
				if b, ok := y.(*ssa.BinOp); ok && b.Op == token.ADD {
					walk(b.X)
					walk(b.Y)
					return
				}
				if _, ok := y.(*ssa.Const); ok {
					return
				}
				comps = append(comps, subst(y))
			}
			walk(x)
			return keyShape{kind: "concat", comps: comps, typ: v.Type()}
		}
	case *ssa.UnOp:
		if x.Op == token.MUL {
			if cell, ok := x.X.(*ssa.Alloc); ok {
				if st, ok := cell.Type().Underlying().(*types.Pointer).Elem().Underlying().(*types.Struct); ok {
					comps := make([]ssa.Value, st.NumFields())
					okAll := true
					if refs := cell.Referrers(); refs != nil {
						for _, rf := range *refs {
							switch u := rf.(type) {
							case *ssa.FieldAddr:
								n := 0
								if fr := u.Referrers(); fr != nil {
									for _, f := range *fr {
										if s, ok := f.(*ssa.Store); ok && s.Addr == u {
											n++
											comps[u.Field] = subst(s.Val)
										}
									}
								}
								if n > 1 {
									okAll = false
								}
							case *ssa.UnOp, *ssa.DebugRef:
							case *ssa.Store:
								okAll = false // whole-struct store: not a literal built field by field
							default:
								okAll = false
							}
						}
					}
					if okAll {
						return keyShape{kind: "struct", comps: comps, typ: cell.Type().Underlying().(*types.Pointer).Elem()}
					}
				}
			}
		}
	}
	return keyShape{kind: "leaf", comps: []ssa.Value{subst(v)}, typ: v.Type()}
}

// loadOfField: v is a load of field `f` of some pointer value; returns the base pointer.
func loadOfField(v ssa.Value, f *types.Var) (ssa.Value, bool) {
	u, ok := stripValue(v).(*ssa.UnOp)
	if !ok || u.Op != token.MUL {
		return nil, false
	}
	fa, ok := u.X.(*ssa.FieldAddr)
	if !ok || fieldOfAddr(fa) != f {
		return nil, false
	}
	return stripValue(fa.X), true
}

// mapOfField: m is (a load of) the map stored in field f.
func mapOfField(m ssa.Value, f *types.Var) bool {
	_, ok := loadOfField(m, f)
	return ok
}

// rangeKeyOf: v is the key (idx 1) or value (idx 2) extracted from a `range` over the map in field f.
func rangeExtractOf(v ssa.Value, f *types.Var, idx int) bool {
	v = stripValue(resolveLoad(stripValue(v)))
	ex, ok := v.(*ssa.Extract)
	if !ok || ex.Index != idx {
		return false
	}
	nx, ok := ex.Tuple.(*ssa.Next)
	if !ok {
		return false
	}
	rg, ok := nx.Iter.(*ssa.Range)
	if !ok {
		return false
	}
	return mapOfField(rg.X, f)
}

// keyComponentOf: v is field #i of the struct value iterated as range key of the map in field f (either an ssa.Field of
// the extract, or a load of a field of the loop variable's cell whose reaching stores all store the range key).
func keyComponentOf(v ssa.Value, f *types.Var) (int, bool) {
	v = stripValue(v)
	switch x := v.(type) {
	case *ssa.Field:
		if rangeExtractOf(x.X, f, 1) {
			return x.Field, true
		}
	case *ssa.UnOp:
		if x.Op != token.MUL {
			return 0, false
		}
		fa, ok := x.X.(*ssa.FieldAddr)
		if !ok {
			return 0, false
		}
		cell, ok := fa.X.(*ssa.Alloc)
		if !ok {
			return 0, false
		}
		sts, zero, ok := reachingStores(cell, x)
		if !ok || zero || len(sts) == 0 {
			return 0, false
		}
		for _, s := range sts {
			if !rangeExtractOf(s.Val, f, 1) {
				return 0, false
			}
		}
		return fa.Field, true
	}
	return 0, false
}

func ruleC29(c *Ctx, r *Report) {
	const rule = "MP-C29"
	r.floor(rule, 22)
	um := c.NamedType(serverRel, "UserManager")
	fNS := c.Field(serverRel, "UserManager", "userNamespaces")
	fUsers := c.Field(serverRel, "UserManager", "users")
	add := c.Method(serverRel, "UserManager", "addNamespaceUsers")
	clear := c.Method(serverRel, "UserManager", "ClearNamespaceUsers")
	rebuild := c.Method(serverRel, "UserManager", "RebuildNamespaceUsers")
	lookup := c.Method(serverRel, "UserManager", "GetNamespaceByUser")
	clone := c.Func(serverRel, "CloneUserManager")
	hhr := c.Method(serverRel, "Session", "handleHandshakeResponse")
	fUserName := c.Field("models", "User", "UserName")
	fPassword := c.Field("models", "User", "Password")
	fNsName := c.Field("models", "Namespace", "Name")
	if um == nil || fNS == nil || fUsers == nil || add == nil || clear == nil || rebuild == nil || lookup == nil || clone == nil || hhr == nil ||
		fUserName == nil || fPassword == nil || fNsName == nil {
		r.undecided(rule, "proxy/server.UserManager", "anchor", "-", "UserManager / its fields / add, clear, rebuild, lookup, clone / handleHandshakeResponse / models.User fields not all found")
		return
	}

	// ---- (key) every keyed access of userNamespaces
	type access struct {
		fn    *ssa.Function
		in    ssa.Instruction
		key   ssa.Value
		write bool
	}
	var accs []access
	for _, fn := range c.Funcs {
		if c.IsMockFunc(fn) {
			continue
		}
		allInstrs(fn, func(in ssa.Instruction) {
			switch x := in.(type) {
			case *ssa.MapUpdate:
				if mapOfField(x.Map, fNS) {
					accs = append(accs, access{fn, in, x.Key, true})
				}
			case *ssa.Lookup:
				if mapOfField(x.X, fNS) {
					accs = append(accs, access{fn, in, x.Index, false})
				}
			case *ssa.Call:
				if b, ok := x.Call.Value.(*ssa.Builtin); ok && b.Name() == "delete" && len(x.Call.Args) == 2 && mapOfField(x.Call.Args[0], fNS) {
					accs = append(accs, access{fn, in, x.Call.Args[1], true})
				}
			}
		})
	}
	if len(accs) == 0 {
		r.undecided(rule, "proxy/server.UserManager", "key:accesses", "-", "no keyed access of userNamespaces found")
	}
	var insertShape, lookupShape *keyShape
	for _, a := range accs {
		name := c.FuncName(a.fn)
		if rangeExtractOf(a.key, fNS, 1) {
			r.ok(rule, name, "key:"+accessKind(a.in)+":iterated-key", c.Pos(a.in.Pos()), "the key is the one being iterated in userNamespaces itself")
			continue
		}
		if um2 := c.Field(serverRel, "UserManager", "userNamespaces"); a.fn == clone && um2 != nil {
			// copy loop of CloneUserManager ranges over the source manager's map
			if ex, ok := stripValue(resolveLoad(stripValue(a.key))).(*ssa.Extract); ok {
				if nx, ok := ex.Tuple.(*ssa.Next); ok {
					if rg, ok := nx.Iter.(*ssa.Range); ok && mapOfField(rg.X, fNS) {
						r.ok(rule, name, "key:copy", c.Pos(a.in.Pos()), "copied key of another UserManager's userNamespaces")
						continue
					}
				}
			}
		}
		sh := credKeyShape(c, a.key, nil, 0)
		cons := "key:" + accessKind(a.in)
		switch sh.kind {
		case "struct":
			distinct := len(sh.comps) >= 2
			seen := map[ssa.Value]bool{}
			for _, cv := range sh.comps {
				if cv == nil || seen[cv] {
					distinct = false
				}
				seen[cv] = true
			}
			if !distinct {
				r.viol(rule, name, cons, c.Pos(a.in.Pos()), "the credential key is a struct but user name and password do not each fill their own field")
				break
			}
			r.ok(rule, name, cons, c.Pos(a.in.Pos()), fmt.Sprintf("the key is a %s value holding user name and password in separate fields: injective", types.TypeString(sh.typ, shortQual)))
			s := sh
			if a.fn == add {
				insertShape = &s
			}
			if a.fn == lookup {
				lookupShape = &s
			}
		case "concat", "format":
			r.viol(rule, name, cons, c.Pos(a.in.Pos()), "the credential key is a string built by concatenating/formatting user name and password: not injective ((\"a:b\",\"c\") and (\"a\",\"b:c\") share a key; a password containing the separator is decoded as another password), so reloading one namespace can remove or capture another namespace's credential")
			s := sh
			if a.fn == add {
				insertShape = &s
			}
			if a.fn == lookup {
				lookupShape = &s
			}
		default:
			r.undecided(rule, name, cons, c.Pos(a.in.Pos()), "cannot see how the credential key is built from user name and password")
		}
	}
	// insert and lookup agree
	switch {
	case insertShape == nil || lookupShape == nil:
		r.undecided(rule, "proxy/server.UserManager", "key:insert-lookup-agree", "-", "did not find both the insert (addNamespaceUsers) and the lookup (GetNamespaceByUser) of userNamespaces")
	default:
		agree := insertShape.kind == lookupShape.kind && len(insertShape.comps) == len(lookupShape.comps) && insertShape.ctor == lookupShape.ctor
		// argument order: insert comps are loads of User.UserName, User.Password; lookup comps are the parameters in order
		if agree {
			for i := range insertShape.comps {
				iv, lv := insertShape.comps[i], lookupShape.comps[i]
				var want *ssa.Parameter
				if _, ok := loadOfField(iv, fUserName); ok && len(lookup.Params) >= 3 {
					want = lookup.Params[1]
				} else if _, ok := loadOfField(iv, fPassword); ok && len(lookup.Params) >= 3 {
					want = lookup.Params[2]
				}
				if want == nil || stripValue(lv) != ssa.Value(want) {
					agree = false
				}
			}
		}
		if agree {
			r.ok(rule, c.FuncName(lookup), "key:insert-lookup-agree", c.Pos(lookup.Pos()), "GetNamespaceByUser builds its key with the same constructor as addNamespaceUsers, user name and password in the same positions")
		} else {
			r.viol(rule, c.FuncName(lookup), "key:insert-lookup-agree", c.Pos(lookup.Pos()), "GetNamespaceByUser does not build the lookup key the way addNamespaceUsers builds the stored key (constructor or order of user name / password differs): a configured credential resolves to no namespace or to another one")
		}
	}

	// ---- (add)
	{
		name := c.FuncName(add)
		nsParam := paramOfType(add, "models", "Namespace")
		var upNS, upUsers []*ssa.MapUpdate
		allInstrs(add, func(in ssa.Instruction) {
			if mu, ok := in.(*ssa.MapUpdate); ok {
				if mapOfField(mu.Map, fNS) {
					upNS = append(upNS, mu)
				}
				if mapOfField(mu.Map, fUsers) {
					upUsers = append(upUsers, mu)
				}
			}
		})
		if len(upNS) != 1 || len(upUsers) != 1 || nsParam == nil {
			r.undecided(rule, name, "add:shape", c.Pos(add.Pos()), "expected one update of userNamespaces and one of users per configured user")
		} else {
			// key components belong to one element; the value is the namespace's own name
			var elem ssa.Value
			okElem := insertShape != nil && len(insertShape.comps) >= 2
			if okElem {
				for _, cv := range insertShape.comps {
					base, ok1 := loadOfField(cv, fUserName)
					if !ok1 {
						base, ok1 = loadOfField(cv, fPassword)
					}
					if !ok1 || (elem != nil && !equivValue(base, elem, 6)) {
						okElem = false
						break
					}
					elem = base
				}
				n, p := 0, 0
				for _, cv := range insertShape.comps {
					if _, ok := loadOfField(cv, fUserName); ok {
						n++
					}
					if _, ok := loadOfField(cv, fPassword); ok {
						p++
					}
				}
				if n != 1 || p != 1 {
					okElem = false
				}
			}
			if okElem {
				r.ok(rule, name, "add:key-of-one-user", c.Pos(upNS[0].Pos()), "the key is made of UserName and Password of the same configured user")
			} else {
				r.viol(rule, name, "add:key-of-one-user", c.Pos(upNS[0].Pos()), "the stored key is not (UserName, Password) of one configured user")
			}
			if base, ok := loadOfField(upNS[0].Value, fNsName); ok && base == ssa.Value(nsParam) {
				r.ok(rule, name, "add:value-is-own-namespace", c.Pos(upNS[0].Pos()), "the credential is filed under the name of the namespace being added")
			} else {
				r.viol(rule, name, "add:value-is-own-namespace", c.Pos(upNS[0].Pos()), "the namespace recorded for the credential is not the Name of the namespace being added")
			}
			// users[user.UserName] = append(users[user.UserName], user.Password) for the same element
			mu := upUsers[0]
			kb, ok1 := loadOfField(mu.Key, fUserName)
			okU := ok1 && (elem == nil || equivValue(kb, elem, 6))
			okP := false
			if ap, ok := stripValue(mu.Value).(*ssa.Call); ok {
				if b, ok := ap.Call.Value.(*ssa.Builtin); ok && b.Name() == "append" && len(ap.Call.Args) == 2 {
					if lk, ok := stripValue(ap.Call.Args[0]).(*ssa.Lookup); ok && mapOfField(lk.X, fUsers) {
						if b2, ok := loadOfField(lk.Index, fUserName); ok && equivValue(b2, kb, 6) {
							for _, v := range variadicElems(ap.Call.Args[1]) {
								if b3, ok := loadOfField(v, fPassword); ok && equivValue(b3, kb, 6) {
									okP = true
								}
							}
						}
					}
				}
			}
			if okU && okP {
				r.ok(rule, name, "add:password-list", c.Pos(mu.Pos()), "users[UserName] gains exactly the Password of the same configured user")
			} else {
				r.viol(rule, name, "add:password-list", c.Pos(mu.Pos()), "the password list of the user is not extended by the same user's own password (users[u.UserName] = append(users[u.UserName], u.Password))")
			}
		}
	}

	// ---- (clear)  (edits may live in unexported helpers of UserManager called from ClearNamespaceUsers: they are
	// analysed as if inlined — keys are resolved through the call's arguments, guards count at the call site)
	{
		name := c.FuncName(clear)
		var nsParam *ssa.Parameter
		for _, p := range clear.Params[1:] {
			if isStringType(p.Type()) {
				nsParam = p
			}
		}
		// guard edges: `stored namespace == namespace` (true edge of ==, false edge of !=)
		var guards []CondEdge
		allInstrs(clear, func(in ssa.Instruction) {
			b, ok := in.(*ssa.BinOp)
			if !ok || (b.Op != token.EQL && b.Op != token.NEQ) {
				return
			}
			x, y := stripValue(b.X), stripValue(b.Y)
			if (rangeExtractOf(x, fNS, 2) && y == ssa.Value(nsParam)) || (rangeExtractOf(y, fNS, 2) && x == ssa.Value(nsParam)) {
				for _, e := range condEdges(b) {
					if e.Val == (b.Op == token.EQL) {
						guards = append(guards, e)
					}
				}
			}
		})
		guarded := func(at ssa.Instruction) bool {
			return len(guards) > 0 && edgesDominate(clear, guards, at.Block())
		}
		type edit struct {
			in      ssa.Instruction
			which   string // users | userNamespaces
			kind    string // delete | update
			key     ssa.Value
			guardAt ssa.Instruction
			val     ssa.Value // stored value (update)
		}
		type cmp struct {
			in      ssa.Instruction
			other   ssa.Value // resolved in clear's frame
			listIdx ssa.Value // resolved index of the users[...] lookup the element comes from
		}
		var edits []edit
		var cmps []cmp
		var walk func(fn *ssa.Function, subst map[*ssa.Parameter]ssa.Value, guardAt ssa.Instruction, depth int)
		walk = func(fn *ssa.Function, subst map[*ssa.Parameter]ssa.Value, guardAt ssa.Instruction, depth int) {
			res := func(v ssa.Value) ssa.Value {
				v = stripValue(resolveLoad(stripValue(v)))
				if p, ok := v.(*ssa.Parameter); ok {
					if a, ok := subst[p]; ok {
						return a
					}
				}
				return v
			}
			at := func(in ssa.Instruction) ssa.Instruction {
				if guardAt != nil {
					return guardAt
				}
				return in
			}
			allInstrs(fn, func(in ssa.Instruction) {
				switch x := in.(type) {
				case *ssa.MapUpdate:
					if mapOfField(x.Map, fNS) {
						edits = append(edits, edit{in, "userNamespaces", "update", res(x.Key), at(in), x.Value})
					} else if mapOfField(x.Map, fUsers) {
						edits = append(edits, edit{in, "users", "update", res(x.Key), at(in), x.Value})
					}
				case *ssa.BinOp:
					if (x.Op == token.NEQ || x.Op == token.EQL) && isStringType(x.X.Type()) {
						var other, elem ssa.Value
						if elemOfMapSlice(x.X, fUsers) {
							other, elem = x.Y, x.X
						} else if elemOfMapSlice(x.Y, fUsers) {
							other, elem = x.X, x.Y
						}
						if other != nil {
							var idx ssa.Value
							if u, ok := stripValue(resolveLoad(stripValue(elem))).(*ssa.UnOp); ok {
								if ia, ok := u.X.(*ssa.IndexAddr); ok {
									if lk, ok := stripValue(ia.X).(*ssa.Lookup); ok {
										idx = res(lk.Index)
									}
								}
							}
							cmps = append(cmps, cmp{in, res(other), idx})
						}
					}
				case *ssa.Call:
					if b, ok := x.Call.Value.(*ssa.Builtin); ok {
						if b.Name() == "delete" && len(x.Call.Args) == 2 {
							if mapOfField(x.Call.Args[0], fNS) {
								edits = append(edits, edit{in, "userNamespaces", "delete", res(x.Call.Args[1]), at(in), nil})
							} else if mapOfField(x.Call.Args[0], fUsers) {
								edits = append(edits, edit{in, "users", "delete", res(x.Call.Args[1]), at(in), nil})
							}
						}
						return
					}
					h := staticCallee(&x.Call)
					if depth == 0 || h == nil || h == fn || h == clear || len(h.Blocks) == 0 || h.Signature.Recv() == nil || namedOf(h.Signature.Recv().Type()) != um {
						return
					}
					sub2 := map[*ssa.Parameter]ssa.Value{}
					for k, p := range h.Params {
						if k < len(x.Call.Args) {
							sub2[p] = res(x.Call.Args[k])
						}
					}
					walk(h, sub2, at(in), depth-1)
				}
			})
		}
		walk(clear, map[*ssa.Parameter]ssa.Value{}, nil, 2)
		n := 0
		for _, e := range edits {
			n++
			cons := fmt.Sprintf("clear:%s:%s#%d", e.which, e.kind, n)
			if !guarded(e.guardAt) {
				r.viol(rule, name, cons, c.Pos(e.in.Pos()), "this edit of the credential index is not confined to entries whose stored namespace equals the namespace being cleared: reloading or deleting one namespace changes another namespace's credentials")
				continue
			}
			if e.which == "userNamespaces" {
				if e.kind == "delete" && rangeExtractOf(e.key, fNS, 1) {
					r.ok(rule, name, cons, c.Pos(e.in.Pos()), "removes the iterated entry, under `stored namespace == namespace`")
				} else {
					r.viol(rule, name, cons, c.Pos(e.in.Pos()), "ClearNamespaceUsers changes a userNamespaces entry other than the one it is iterating")
				}
				continue
			}
			if i, ok := keyComponentOf(e.key, fNS); ok {
				r.ok(rule, name, cons, c.Pos(e.in.Pos()), fmt.Sprintf("the user whose password list is edited is field #%d of the iterated key", i))
			} else if fromDecode(e.key, fNS) {
				r.viol(rule, name, cons, c.Pos(e.in.Pos()), "the user name is decoded from a string key: for a user name or password containing the separator the decode yields another user/password, so another namespace's credential is removed")
			} else {
				r.viol(rule, name, cons, c.Pos(e.in.Pos()), "the user whose password list is edited is not a component of the iterated key")
			}
		}
		if n < 3 {
			r.undecided(rule, name, "clear:edits", c.Pos(clear.Pos()), "expected the removal from userNamespaces and the delete/update of users")
		}
		// the password filtered out is the key's own password component, a different field than the user name
		np := 0
		for _, cm := range cmps {
			np++
			cons := fmt.Sprintf("clear:password-compare#%d", np)
			if i, ok := keyComponentOf(cm.other, fNS); ok {
				uidx := -1
				if cm.listIdx != nil {
					if j, ok := keyComponentOf(cm.listIdx, fNS); ok {
						uidx = j
					}
				}
				if uidx >= 0 && uidx != i {
					r.ok(rule, name, cons, c.Pos(cm.in.Pos()), fmt.Sprintf("the password removed is field #%d of the iterated key (user name is field #%d)", i, uidx))
				} else {
					r.viol(rule, name, cons, c.Pos(cm.in.Pos()), "the value compared with the stored passwords is not the password component of the iterated key")
				}
			} else if fromDecode(cm.other, fNS) {
				r.viol(rule, name, cons, c.Pos(cm.in.Pos()), "the password to remove is decoded from a string key: a password containing the separator is cut short, so the namespace's own password stays and another namespace's password equal to the prefix is removed")
			} else {
				r.viol(rule, name, cons, c.Pos(cm.in.Pos()), "the password removed from users is not a component of the iterated key")
			}
		}
		if np == 0 {
			r.undecided(rule, name, "clear:password-compare", c.Pos(clear.Pos()), "no comparison between the stored passwords and the cleared credential's password found")
		}
		// the filtered list is built from nil (checked where the update happens)
		for _, e := range edits {
			if e.which != "users" || e.kind != "update" {
				continue
			}
			okBase := true
			seen := map[ssa.Value]bool{}
			var walkv func(v ssa.Value)
			walkv = func(v ssa.Value) {
				v = stripValue(v)
				if seen[v] {
					return
				}
				seen[v] = true
				switch x := v.(type) {
				case *ssa.Phi:
					for _, ed := range x.Edges {
						walkv(ed)
					}
				case *ssa.Call:
					if b, ok := x.Call.Value.(*ssa.Builtin); ok && b.Name() == "append" {
						walkv(x.Call.Args[0])
						return
					}
					okBase = false
				case *ssa.Const:
					if !x.IsNil() {
						okBase = false
					}
				case *ssa.MakeSlice:
				default:
					okBase = false
				}
			}
			walkv(e.val)
			if okBase {
				r.ok(rule, name, "clear:new-list", c.Pos(e.in.Pos()), "the filtered password list is built from nil, not in place")
			} else {
				r.viol(rule, name, "clear:new-list", c.Pos(e.in.Pos()), "the filtered password list reuses the existing list's backing array (filtered in place): a list still shared with another UserManager is rewritten under it")
			}
		}
	}

	// ---- (rebuild)
	{
		name := c.FuncName(rebuild)
		nsParam := paramOfType(rebuild, "models", "Namespace")
		cl := callsIn(rebuild, func(cc *ssa.CallCommon) bool { return callsFunc(cc, clear) })
		ad := callsIn(rebuild, func(cc *ssa.CallCommon) bool { return callsFunc(cc, add) })
		ok := len(cl) == 1 && len(ad) == 1 && nsParam != nil
		if ok {
			ccl, cad := callCommon(cl[0]), callCommon(ad[0])
			base, okN := loadOfField(ccl.Args[len(ccl.Args)-1], fNsName)
			ok = okN && base == ssa.Value(nsParam) && stripValue(cad.Args[len(cad.Args)-1]) == ssa.Value(nsParam) &&
				instrDominates(cl[0], ad[0]) && stripValue(ccl.Args[0]) == stripValue(cad.Args[0])
		}
		if ok {
			r.ok(rule, name, "rebuild:clear-own-then-add", c.Pos(rebuild.Pos()), "clears exactly namespace.Name, then adds the same namespace, on the same UserManager")
		} else {
			r.viol(rule, name, "rebuild:clear-own-then-add", c.Pos(rebuild.Pos()), "RebuildNamespaceUsers does not clear namespace.Name before adding the namespace's users (stale or foreign credentials survive a reload)")
		}
	}

	// ---- (check) Check*Password
	for _, mname := range []string{"CheckPassword", "CheckHashPassword", "CheckSha2Password"} {
		fn := c.Method(serverRel, "UserManager", mname)
		if fn == nil {
			r.undecided(rule, "proxy/server.UserManager."+mname, "check:anchor", "-", "method not found")
			continue
		}
		name := c.FuncName(fn)
		userParam := fn.Params[1]
		// the candidate loop may live in a private helper that is handed the comparison as a function literal
		if d := hofDelegationOf(c, fn); d != nil && d.userIdx >= 0 {
			fn, userParam = d.h, d.h.Params[d.userIdx]
		}
		// the list iterated
		var lists []*ssa.Lookup
		allInstrs(fn, func(in ssa.Instruction) {
			if lk, ok := in.(*ssa.Lookup); ok && mapOfField(lk.X, fUsers) {
				lists = append(lists, lk)
			}
		})
		okList := len(lists) == 1 && stripValue(lists[0].Index) == ssa.Value(userParam)
		if okList {
			r.ok(rule, name, "check:list-of-user", c.Pos(lists[0].Pos()), "the candidate passwords are users[<user parameter>]")
		} else {
			r.viol(rule, name, "check:list-of-user", c.Pos(fn.Pos()), "the candidate passwords are not exactly users[<the user being authenticated>]")
		}
		nt := 0
		for _, ret := range returnsOf(fn) {
			v0, zero0 := retValues(ret, 0)
			if zero0 {
				continue
			}
			mayTrue := false
			for _, v := range v0 {
				if b, ok := constBool(v); !ok || b {
					mayTrue = true
				}
			}
			if !mayTrue {
				continue
			}
			nt++
			cons := fmt.Sprintf("check:true-return#%d", nt)
			v1, zero1 := retValues(ret, 1)
			good := !zero1 && len(v1) == 1 && okList && elemOfSlice(v1[0], lists[0])
			if good {
				// dominated by the success edge of a comparison that involves this element
				good = false
				elem := stripValue(resolveLoad(stripValue(v1[0])))
				allInstrs(fn, func(in ssa.Instruction) {
					call, ok := in.(*ssa.Call)
					if !ok || !isBoolType(call.Type()) {
						return
					}
					if !dependsOn(call, elem, 4) {
						return
					}
					if dominatedByCond(ret, call, true) {
						good = true
					}
				})
			}
			if good {
				r.ok(rule, name, cons, c.Pos(ret.Pos()), "returns true together with the very list element whose comparison succeeded")
			} else {
				r.viol(rule, name, cons, c.Pos(ret.Pos()), "a true result is not accompanied by the password whose comparison succeeded (the session would be bound through another password's namespace)")
			}
		}
		if nt == 0 {
			r.undecided(rule, name, "check:true-return", c.Pos(fn.Pos()), "no accepting return found")
		}
	}

	// ---- (deleg) Manager wrappers forward unchanged
	for _, mname := range []string{"CheckUser", "CheckPassword", "CheckHashPassword", "CheckSha2Password", "GetNamespaceByUser"} {
		w := c.Method(serverRel, "Manager", mname)
		target := c.Method(serverRel, "UserManager", mname)
		if w == nil || target == nil {
			r.undecided(rule, "proxy/server.Manager."+mname, "deleg:anchor", "-", "wrapper or target not found")
			continue
		}
		name := c.FuncName(w)
		calls := callsIn(w, func(cc *ssa.CallCommon) bool { return callsFunc(cc, target) })
		ok := len(calls) == 1
		if ok {
			cc := callCommon(calls[0])
			ok = len(cc.Args) == len(w.Params)
			for i := 1; ok && i < len(w.Params); i++ {
				if stripValue(cc.Args[i]) != ssa.Value(w.Params[i]) {
					ok = false
				}
			}
			// and the result is returned unchanged
			if ok {
				cv := calls[0].(ssa.Value)
				for _, ret := range returnsOf(w) {
					for i := range ret.Results {
						vals, zero := retValues(ret, i)
						if zero || len(vals) != 1 {
							ok = false
							continue
						}
						v := stripValue(vals[0])
						if ex, isEx := v.(*ssa.Extract); isEx {
							if ex.Tuple != cv || ex.Index != i {
								ok = false
							}
						} else if v != cv {
							ok = false
						}
					}
				}
			}
		}
		if ok {
			r.ok(rule, name, "deleg:forwards-unchanged", c.Pos(w.Pos()), "forwards its arguments in order to the current UserManager and returns its results unchanged")
		} else {
			r.viol(rule, name, "deleg:forwards-unchanged", c.Pos(w.Pos()), "the Manager wrapper does not forward (user, password/salt/auth) unchanged and in order, or alters the result")
		}
	}

	// ---- (bind) handleHandshakeResponse
	{
		name := c.FuncName(hhr)
		mLookup := c.Method(serverRel, "Manager", "GetNamespaceByUser")
		checks := credentialCheckFns(c)
		lk := callsIn(hhr, func(cc *ssa.CallCommon) bool { return mLookup != nil && callsFunc(cc, mLookup) })
		if len(lk) != 1 || len(checks) < 3 {
			r.undecided(rule, name, "bind:lookup", c.Pos(hhr.Pos()), "expected exactly one Manager.GetNamespaceByUser call and the three Manager.Check*Password methods")
		} else {
			cc := callCommon(lk[0])
			userArg, pwArg := cc.Args[1], cc.Args[2]
			// every check call authenticates the same user value
			sameUser := true
			var checkCalls []*ssa.Call
			allInstrs(hhr, func(in ssa.Instruction) {
				if call, ok := in.(*ssa.Call); ok {
					if f := staticCallee(&call.Call); f != nil && checks[f] {
						checkCalls = append(checkCalls, call)
						has := false
						for _, a := range call.Call.Args[1:] {
							if sameVal(a, userArg) {
								has = true
							}
						}
						if !has {
							sameUser = false
						}
					}
				}
			})
			if sameUser && len(checkCalls) > 0 {
				r.ok(rule, name, "bind:same-user", c.Pos(lk[0].Pos()), fmt.Sprintf("the namespace is looked up for the user value that all %d password checks authenticated", len(checkCalls)))
			} else {
				r.viol(rule, name, "bind:same-user", c.Pos(lk[0].Pos()), "the namespace is looked up for a user value other than the one whose password was checked")
			}
			// password leaves: second result of the check calls; paired with the boolean that passed
			okPw := true
			why := ""
			leaves := phiLeaves(pwArg)
			for _, l := range leaves {
				ex, ok := l.(*ssa.Extract)
				if !ok || ex.Index != 1 {
					okPw, why = false, "a value other than a Check*Password result can reach the lookup"
					break
				}
				call, ok := ex.Tuple.(*ssa.Call)
				if !ok || staticCallee(&call.Call) == nil || !checks[staticCallee(&call.Call)] {
					okPw, why = false, "a value other than a Check*Password result can reach the lookup"
					break
				}
			}
			// pairing: when password and succ are phis of one block, their edges come from the same call
			if okPw {
				if pphi, ok := stripValue(pwArg).(*ssa.Phi); ok {
					paired := false
					for _, in := range pphi.Block().Instrs {
						sphi, ok := in.(*ssa.Phi)
						if !ok || sphi == pphi || !isBoolType(sphi.Type()) {
							continue
						}
						all := true
						for i := range sphi.Edges {
							se, ok1 := stripValue(sphi.Edges[i]).(*ssa.Extract)
							pe, ok2 := stripValue(pphi.Edges[i]).(*ssa.Extract)
							if !ok1 || !ok2 || se.Tuple != pe.Tuple || se.Index != 0 {
								all = false
							}
						}
						if all && dominatedByCond(lk[0], sphi, true) {
							paired = true
						}
					}
					if !paired {
						okPw, why = false, "the password reaching the lookup is not, on every path, the result of the same call whose boolean let the handshake pass"
					}
				} else if ex, ok := stripValue(pwArg).(*ssa.Extract); ok {
					succ := extractOf(ex.Tuple, 0)
					if succ == nil || !dominatedByCond(lk[0], succ, true) {
						okPw, why = false, "the lookup is not dominated by the success of the check that produced the password"
					}
				} else {
					okPw, why = false, "unrecognised flow of the matched password"
				}
			}
			if okPw {
				r.ok(rule, name, "bind:matched-password", c.Pos(lk[0].Pos()), fmt.Sprintf("on every path the password used for the lookup is the one returned by the check that succeeded (%d sources)", len(leaves)))
			} else {
				r.viol(rule, name, "bind:matched-password", c.Pos(lk[0].Pos()), why)
			}
			// the session's namespace fields receive exactly that result
			fSessNS := c.Field(serverRel, "Session", "namespace")
			fExecNS := c.Field(serverRel, "SessionExecutor", "namespace")
			nst := 0
			okSt := true
			allInstrs(hhr, func(in ssa.Instruction) {
				st, ok := in.(*ssa.Store)
				if !ok {
					return
				}
				f := fieldOfAddr(st.Addr)
				if f == nil || (f != fSessNS && f != fExecNS) {
					return
				}
				nst++
				if !sameVal(st.Val, lk[0].(ssa.Value)) {
					okSt = false
				}
			})
			if nst >= 2 && okSt {
				r.ok(rule, name, "bind:session-namespace", c.Pos(lk[0].Pos()), "Session.namespace and SessionExecutor.namespace are set to the lookup result")
			} else {
				r.viol(rule, name, "bind:session-namespace", c.Pos(lk[0].Pos()), "the session (or its executor) is bound to something other than the namespace of the authenticated credential")
			}
		}
	}

	// ---- (clone) the copy shares no password list with its source, and clearing builds a new list
	{
		name := c.FuncName(clone)
		nu := 0
		allInstrs(clone, func(in ssa.Instruction) {
			mu, ok := in.(*ssa.MapUpdate)
			if !ok || !mapOfField(mu.Map, fUsers) {
				return
			}
			nu++
			cons := fmt.Sprintf("clone:password-list-copied#%d", nu)
			fresh := false
			switch x := stripValue(mu.Value).(type) {
			case *ssa.MakeSlice:
				fresh = true
			case *ssa.Call: // append(make([]string, 0, n), v...) / append([]string(nil), v...)
				if bi, ok := x.Call.Value.(*ssa.Builtin); ok && bi.Name() == "append" {
					base := stripValue(x.Call.Args[0])
					if _, ok := base.(*ssa.MakeSlice); ok {
						fresh = true
					}
					if isNilConst(base) {
						fresh = true
					}
				}
			}
			if fresh {
				r.ok(rule, name, cons, c.Pos(mu.Pos()), "the clone gets a newly made password list (filled by copy)")
			} else {
				r.viol(rule, name, cons, c.Pos(mu.Pos()), "the cloned UserManager shares a password list's backing array with the manager handshakes are reading: editing the clone during a prepare changes which credentials authenticate before (or without) the commit")
			}
		})
		if nu == 0 {
			r.undecided(rule, name, "clone:password-list-copied", c.Pos(clone.Pos()), "no store into the clone's users map found")
		}
	}

	// ---- (clone) Manager edits only fresh copies
	{
		n := 0
		for _, fn := range c.Funcs {
			if c.IsMockFunc(fn) || fn == rebuild {
				continue
			}
			for _, in := range callsIn(fn, func(cc *ssa.CallCommon) bool {
				return callsFunc(cc, rebuild) || callsFunc(cc, clear) || callsFunc(cc, add)
			}) {
				cc := callCommon(in)
				recv := stripValue(resolveLoad(stripValue(cc.Args[0])))
				n++
				cons := fmt.Sprintf("clone:%s@%d", staticCallee(cc).Name(), countBefore(fn, in, func(cc2 *ssa.CallCommon) bool { return staticCallee(cc2) == staticCallee(cc) })+1)
				fresh := false
				if call, ok := recv.(*ssa.Call); ok {
					if f := staticCallee(&call.Call); f != nil && (f == clone || f.Name() == "NewUserManager") {
						fresh = true
					}
				}
				if fresh {
					r.ok(rule, c.FuncName(fn), cons, c.Pos(in.Pos()), "the UserManager edited is a fresh copy (CloneUserManager / NewUserManager), not the one handshakes read")
				} else {
					r.viol(rule, c.FuncName(fn), cons, c.Pos(in.Pos()), "a UserManager that handshakes may be reading is edited in place")
				}
			}
		}
		if n < 3 {
			r.undecided(rule, "proxy/server.Manager", "clone:sites", "-", "expected the prepare, delete and create paths to edit a UserManager")
		}
	}
}

func accessKind(in ssa.Instruction) string {
	switch x := in.(type) {
	case *ssa.MapUpdate:
		return "insert"
	case *ssa.Lookup:
		return "lookup"
	case *ssa.Call:
		_ = x
		return "delete"
	}
	return "access"
}

func shortQual(p *types.Package) string { return p.Name() }

func isBoolType(t types.Type) bool {
	b, ok := t.Underlying().(*types.Basic)
	return ok && b.Info()&types.IsBoolean != 0
}

func paramOfType(fn *ssa.Function, rel, name string) *ssa.Parameter {
	for _, p := range fn.Params {
		t := p.Type()
		if pt, ok := t.Underlying().(*types.Pointer); ok {
			t = pt.Elem()
		}
		if n := namedOf(t); n != nil && n.Obj().Name() == name && n.Obj().Pkg() != nil && hasSuffixPath(n.Obj().Pkg().Path(), rel) {
			return p
		}
	}
	return nil
}

func hasSuffixPath(p, rel string) bool {
	return p == rel || (len(p) > len(rel) && p[len(p)-len(rel)-1] == '/' && p[len(p)-len(rel):] == rel)
}

// elemOfSlice: v is a load of an element of the slice value produced by lk.
func elemOfSlice(v ssa.Value, lk *ssa.Lookup) bool {
	u, ok := stripValue(resolveLoad(stripValue(v))).(*ssa.UnOp)
	if !ok || u.Op != token.MUL {
		return false
	}
	ia, ok := u.X.(*ssa.IndexAddr)
	return ok && stripValue(ia.X) == ssa.Value(lk)
}

// elemOfMapSlice: v is an element of a slice looked up in the map of field f.
func elemOfMapSlice(v ssa.Value, f *types.Var) bool {
	u, ok := stripValue(resolveLoad(stripValue(v))).(*ssa.UnOp)
	if !ok || u.Op != token.MUL {
		return false
	}
	ia, ok := u.X.(*ssa.IndexAddr)
	if !ok {
		return false
	}
	lk, ok := stripValue(ia.X).(*ssa.Lookup)
	return ok && mapOfField(lk.X, f)
}

// fromDecode: v is (a component of) the result of a call that receives the iterated key of the map in field f.
func fromDecode(v ssa.Value, f *types.Var) bool {
	v = stripValue(resolveLoad(stripValue(v)))
	for depth := 0; depth < 4; depth++ {
		switch x := v.(type) {
		case *ssa.Extract:
			v = x.Tuple
			continue
		case *ssa.UnOp:
			if x.Op == token.MUL {
				if ia, ok := x.X.(*ssa.IndexAddr); ok {
					v = stripValue(ia.X)
					continue
				}
			}
			return false
		case *ssa.Call:
			for _, a := range x.Call.Args {
				if rangeExtractOf(a, f, 1) {
					return true
				}
			}
			return false
		default:
			return false
		}
	}
	return false
}

// dependsOn: the value v is computed (through conversions, slices, calls' arguments) from `leaf`.
func dependsOn(v ssa.Value, leaf ssa.Value, depth int) bool {
	v = stripValue(v)
	if v == leaf || stripValue(resolveLoad(v)) == leaf || equivValue(v, leaf, 3) {
		return true
	}
	if depth == 0 {
		return false
	}
	switch x := v.(type) {
	case *ssa.Call:
		for _, a := range x.Call.Args {
			if dependsOn(a, leaf, depth-1) {
				return true
			}
		}
	case *ssa.Convert:
		return dependsOn(x.X, leaf, depth-1)
	case *ssa.Slice:
		return dependsOn(x.X, leaf, depth-1)
	case *ssa.ChangeType:
		return dependsOn(x.X, leaf, depth-1)
	case *ssa.MakeInterface:
		return dependsOn(x.X, leaf, depth-1)
	}
	return false
}

// countBefore counts call instructions matching pred that precede `in` in block order of fn.
func countBefore(fn *ssa.Function, in ssa.Instruction, pred func(cc *ssa.CallCommon) bool) int {
	n := 0
	done := false
	allInstrs(fn, func(i2 ssa.Instruction) {
		if done {
			return
		}
		if i2 == in {
			done = true
			return
		}
		if cc := callCommon(i2); cc != nil && pred(cc) {
			n++
		}
	})
	return n
}

// ---------------------------------------------------------------------------------------
// C30 — password checks accept exactly the proofs MySQL would accept (structural clauses)

func init() {
	register("C30", "Clauses decided (shape of the acceptance test, necessary for the statement; the scramble arithmetic itself is a value property and is NOT decided): (accept) in UserManager.CheckPassword / CheckSha2Password every accepting return is dominated by the true edge of bytes.Equal between the client's response parameter and mysql.CalcPassword / CalcCachingSha2Password applied to the salt parameter and the candidate password of users[user]; in CheckHashPassword it is dominated by mysql.CheckHashPassword(response, salt, <candidate>) being true and by the candidate having the '*' prefix; mysql.CheckHashPassword answers true only as the result of a full bytes.Equal; (pure) none of the check and scramble functions writes through a slice parameter (store through an index of the parameter, copy into it, append to it): the same response and salt are tested against several candidate passwords and by several checks in turn, so a check that overwrites them makes a correct proof fail for the next candidate.",
		ruleC30)
}

func ruleC30(c *Ctx, r *Report) {
	const rule = "MP-C30"
	r.floor(rule, 14)
	fUsers := c.Field(serverRel, "UserManager", "users")
	calcNative := c.Func("mysql", "CalcPassword")
	calcSha2 := c.Func("mysql", "CalcCachingSha2Password")
	checkHash := c.Func("mysql", "CheckHashPassword")
	if fUsers == nil || calcNative == nil || calcSha2 == nil || checkHash == nil {
		r.undecided(rule, "mysql", "anchor", "-", "UserManager.users / mysql.CalcPassword / CalcCachingSha2Password / CheckHashPassword not all found")
		return
	}
	isPkgFunc := func(cc *ssa.CallCommon, pkg, name string) bool {
		f := staticCallee(cc)
		return f != nil && f.Pkg != nil && f.Pkg.Pkg.Path() == pkg && f.Name() == name
	}
	type spec struct {
		method string
		calc   *ssa.Function // nil: hash form
	}
	for _, sp := range []spec{{"CheckPassword", calcNative}, {"CheckSha2Password", calcSha2}, {"CheckHashPassword", nil}} {
		fn := c.Method(serverRel, "UserManager", sp.method)
		if fn == nil || len(fn.Params) < 4 {
			r.undecided(rule, "proxy/server.UserManager."+sp.method, "accept:anchor", "-", "method not found")
			continue
		}
		name := c.FuncName(fn)
		saltP, authP := ssa.Value(fn.Params[2]), ssa.Value(fn.Params[3])
		isElem := func(v ssa.Value) bool { return elemOfMapSlice(v, fUsers) }
		// higher-order form: `return u.helper(user, func(candidate string) bool {…})`. The loop obligations are decided
		// on the helper (its test is the call of the function parameter on a list element), the comparison obligations
		// on the literal (its candidate is the literal's parameter, salt and response are the captured parameters).
		var hof *hofDelegation
		if d := hofDelegationOf(c, fn); d != nil && d.userIdx >= 0 && len(d.lit.Params) == 1 {
			hof = d
		}
		if hof != nil {
			lit := hof.lit
			isCand := func(v ssa.Value) bool { return stripValue(v) == ssa.Value(lit.Params[0]) }
			asParam := func(v ssa.Value) ssa.Value { return hof.captured(v) }
			var litTests []*ssa.Call
			allInstrs(lit, func(in ssa.Instruction) {
				call, ok := in.(*ssa.Call)
				if !ok {
					return
				}
				if sp.calc != nil {
					if !isPkgFunc(&call.Call, "bytes", "Equal") || len(call.Call.Args) != 2 {
						return
					}
					a, b := call.Call.Args[0], call.Call.Args[1]
					if asParam(b) == authP {
						a, b = b, a
					}
					cc, ok := stripValue(b).(*ssa.Call)
					if asParam(a) != authP || !ok || !callsFunc(&cc.Call, sp.calc) || len(cc.Call.Args) != 2 {
						return
					}
					if asParam(cc.Call.Args[0]) == saltP && derivedOnlyFrom(cc.Call.Args[1], isCand, 3) {
						litTests = append(litTests, call)
					}
					return
				}
				if callsFunc(&call.Call, checkHash) && len(call.Call.Args) == 3 &&
					asParam(call.Call.Args[0]) == authP && asParam(call.Call.Args[1]) == saltP && derivedOnlyFrom(call.Call.Args[2], isCand, 3) {
					litTests = append(litTests, call)
				}
			})
			isTest := func(v ssa.Value) bool {
				for _, t := range litTests {
					if stripValue(v) == ssa.Value(t) {
						return true
					}
				}
				return false
			}
			bad := trueImplies(lit, isTest)
			if bad == "" && sp.calc == nil {
				// the '*' prefix gate: every test is evaluated only behind it
				for _, t := range litTests {
					gated := false
					allInstrs(lit, func(in ssa.Instruction) {
						if g, ok := in.(*ssa.Call); ok && isStarGate(c, g, isCand) && dominatedByCond(t, g, true) {
							gated = true
						}
					})
					if !gated {
						bad = "a candidate is tested as a stored SHA1 hash without having the '*' prefix (a clear-text password would be accepted as its own hash)"
					}
				}
			}
			if len(litTests) == 0 {
				bad = "the function literal handed to " + hof.h.Name() + " contains no equality test between the response and the scramble of (salt, candidate)"
			}
			if bad == "" {
				r.ok(rule, name, "accept:literal", c.Pos(lit.Pos()), "the comparison handed to "+hof.h.Name()+" answers true only as the result of the full equality test on its candidate")
			} else {
				r.viol(rule, name, "accept:literal", c.Pos(lit.Pos()), bad)
			}
		}
		var elemOf func(v ssa.Value, depth int) bool
		elemOf = func(v ssa.Value, depth int) bool {
			v = stripValue(v)
			if isElem(v) {
				return true
			}
			if depth == 0 {
				return false
			}
			switch x := v.(type) {
			case *ssa.Convert:
				return elemOf(x.X, depth-1)
			case *ssa.Slice:
				return elemOf(x.X, depth-1)
			case *ssa.ChangeType:
				return elemOf(x.X, depth-1)
			}
			return false
		}
		// accepting comparisons
		var tests []*ssa.Call
		if hof != nil {
			fn = hof.h
		}
		allInstrs(fn, func(in ssa.Instruction) {
			call, ok := in.(*ssa.Call)
			if !ok {
				return
			}
			if hof != nil {
				// the helper's test: the function parameter applied to an element of users[user]
				if !call.Call.IsInvoke() && stripValue(call.Call.Value) == ssa.Value(hof.h.Params[hof.litIdx]) && len(call.Call.Args) == 1 && isElem(call.Call.Args[0]) {
					tests = append(tests, call)
				}
				return
			}
			if sp.calc != nil {
				if !isPkgFunc(&call.Call, "bytes", "Equal") || len(call.Call.Args) != 2 {
					return
				}
				a, b := stripValue(call.Call.Args[0]), stripValue(call.Call.Args[1])
				if b == authP {
					a, b = b, a
				}
				if a != authP {
					return
				}
				cc, ok := b.(*ssa.Call)
				if !ok || !callsFunc(&cc.Call, sp.calc) || len(cc.Call.Args) != 2 {
					return
				}
				if stripValue(cc.Call.Args[0]) == saltP && elemOf(cc.Call.Args[1], 3) {
					tests = append(tests, call)
				}
				return
			}
			if callsFunc(&call.Call, checkHash) && len(call.Call.Args) == 3 &&
				stripValue(call.Call.Args[0]) == authP && stripValue(call.Call.Args[1]) == saltP && elemOf(call.Call.Args[2], 3) {
				tests = append(tests, call)
			}
		})
		nt := 0
		for _, ret := range returnsOf(fn) {
			v0, zero := retValues(ret, 0)
			if zero {
				continue
			}
			may := false
			for _, v := range v0 {
				if b, ok := constBool(v); !ok || b {
					may = true
				}
			}
			if !may {
				continue
			}
			nt++
			cons := fmt.Sprintf("accept:true-return#%d", nt)
			good := false
			for _, t := range tests {
				if dominatedByCond(ret, t, true) {
					good = true
				}
			}
			if good && sp.calc == nil && hof == nil {
				// the '*' prefix gate
				good = false
				allInstrs(fn, func(in ssa.Instruction) {
					call, ok := in.(*ssa.Call)
					if ok && isStarGate(c, call, isElem) && dominatedByCond(ret, call, true) {
						good = true
					}
				})
				if !good {
					r.viol(rule, name, cons, c.Pos(ret.Pos()), "a candidate is tested as a stored SHA1 hash without having the '*' prefix (a clear-text password would be accepted as its own hash)")
					continue
				}
			}
			if good {
				what := "bytes.Equal(response, scramble(salt, candidate password))"
				if sp.calc == nil {
					what = "mysql.CheckHashPassword(response, salt, candidate hash) on a '*'-prefixed candidate"
				}
				r.ok(rule, name, cons, c.Pos(ret.Pos()), "acceptance is dominated by "+what)
			} else {
				r.viol(rule, name, cons, c.Pos(ret.Pos()), "a handshake can be accepted without the full equality test between the client's response and the scramble of (salt, candidate password): proofs MySQL would reject pass, or the test uses other inputs than this handshake's salt and response")
			}
		}
		if nt == 0 {
			r.undecided(rule, name, "accept:true-return", c.Pos(fn.Pos()), "no accepting return found")
		}
		// every candidate is tested: in the clear-text checks no iteration skips the comparison (CheckHashPassword may skip
		// entries that are not stored hashes: '*' + 40 hex digits)
		if sp.calc != nil && len(tests) > 0 {
			skipped := false
			for _, t := range tests {
				// loop header = the block that decides iteration; find a path from a body entry back to the header that
				// does not pass the test: start at every successor of the header that leads into the loop
				var header *ssa.BasicBlock
				for _, b := range fn.Blocks {
					if !b.Dominates(t.Block()) {
						continue
					}
					isHeader := false
					for _, pr := range b.Preds {
						if b.Dominates(pr) { // back edge pr -> b
							isHeader = true
						}
					}
					if isHeader && (header == nil || header.Dominates(b)) {
						header = b
					}
				}
				if header == nil {
					continue
				}
				for _, succ := range header.Succs {
					if !blockReachable(succ, header) && succ != header {
						continue
					}
					searchExits(fn, nil, succ, SearchOpts{
						Stop: func(in ssa.Instruction) bool { return in == ssa.Instruction(t) },
						EdgeOK: func(b *ssa.BasicBlock, i int) bool {
							if b.Succs[i] == header {
								skipped = true
								return false
							}
							return true
						},
					})
				}
			}
			if skipped {
				r.viol(rule, name, "accept:every-candidate-tested", c.Pos(fn.Pos()), "an iteration over users[user] can move on to the next candidate without comparing the response with this candidate's scramble: a correct proof of a skipped password is rejected")
			} else {
				r.ok(rule, name, "accept:every-candidate-tested", c.Pos(fn.Pos()), "every candidate of users[user] is compared")
			}
		}
		// a rejection is answered only after every candidate of users[user] was tried: each `return false` is dominated
		// by the exit edge of the loop over the candidates
		var exitEdges []CondEdge
		allInstrs(fn, func(in ssa.Instruction) {
			b, ok := in.(*ssa.BinOp)
			if !ok || b.Op != token.LSS {
				return
			}
			l, ok := stripValue(b.Y).(*ssa.Call)
			if !ok {
				return
			}
			bi, ok := l.Call.Value.(*ssa.Builtin)
			if !ok || bi.Name() != "len" {
				return
			}
			lk, ok := stripValue(l.Call.Args[0]).(*ssa.Lookup)
			if !ok || !mapOfField(lk.X, fUsers) {
				return
			}
			for _, e := range condEdges(b) {
				if !e.Val {
					exitEdges = append(exitEdges, e)
				}
			}
		})
		nf := 0
		for _, ret := range returnsOf(fn) {
			v0, zero := retValues(ret, 0)
			if zero || len(v0) != 1 {
				continue
			}
			if b, ok := constBool(v0[0]); !ok || b {
				continue
			}
			nf++
			cons := fmt.Sprintf("reject:after-all-candidates#%d", nf)
			if len(exitEdges) > 0 && edgesDominate(fn, exitEdges, ret.Block()) {
				r.ok(rule, name, cons, c.Pos(ret.Pos()), "the rejection is returned only after the loop over users[user] is exhausted")
			} else {
				r.viol(rule, name, cons, c.Pos(ret.Pos()), "the check can answer false before every configured password of the user was tried: a correct proof for a later candidate is rejected")
			}
		}
		if nf == 0 {
			r.undecided(rule, name, "reject:after-all-candidates", c.Pos(fn.Pos()), "no rejecting return found")
		}
	}
	// mysql.CheckHashPassword: true only as the result of bytes.Equal
	{
		name := c.FuncName(checkHash)
		okAll, n := true, 0
		for _, ret := range returnsOf(checkHash) {
			vals, zero := retValues(ret, 0)
			if zero {
				continue
			}
			for _, v := range vals {
				if b, ok := constBool(v); ok && !b {
					continue
				}
				n++
				call, ok := stripValue(v).(*ssa.Call)
				if !ok || !isPkgFunc(&call.Call, "bytes", "Equal") {
					okAll = false
					continue
				}
				for _, a := range call.Call.Args {
					if _, cut := stripValue(a).(*ssa.Slice); cut {
						okAll = false // a prefix/suffix comparison is not the full proof
					}
				}
			}
		}
		if okAll && n > 0 {
			r.ok(rule, name, "accept:result-is-equality", c.Pos(checkHash.Pos()), "answers true only as the result of bytes.Equal on whole slices")
		} else {
			r.viol(rule, name, "accept:result-is-equality", c.Pos(checkHash.Pos()), "can answer true other than through a full bytes.Equal comparison")
		}
	}
	// the whole response takes part: when mysql.CheckHashPassword reads the response by index, its length is tested for
	// (in)equality with the digest size (a `<` guard lets a longer response with a correct prefix pass)
	{
		name := c.FuncName(checkHash)
		resp := ssa.Value(checkHash.Params[0])
		indexed, lenEq := false, false
		allInstrs(checkHash, func(in ssa.Instruction) {
			switch x := in.(type) {
			case *ssa.IndexAddr:
				if stripValue(x.X) == resp {
					indexed = true
				}
			case *ssa.BinOp:
				if x.Op != token.EQL && x.Op != token.NEQ {
					return
				}
				for _, side := range []ssa.Value{x.X, x.Y} {
					if l, ok := stripValue(side).(*ssa.Call); ok {
						if bi, ok := l.Call.Value.(*ssa.Builtin); ok && bi.Name() == "len" && stripValue(l.Call.Args[0]) == resp {
							lenEq = true
						}
					}
				}
			}
		})
		switch {
		case !indexed:
			r.ok(rule, name, "accept:whole-response", c.Pos(checkHash.Pos()), "the response is only used as a whole")
		case lenEq:
			r.ok(rule, name, "accept:whole-response", c.Pos(checkHash.Pos()), "the response is read by index under a length (in)equality test")
		default:
			r.viol(rule, name, "accept:whole-response", c.Pos(checkHash.Pos()), "the response is read byte by byte without its length being tested for equality with the digest size: bytes beyond the digest are ignored, so a longer response with a correct prefix is accepted (MySQL accepts exactly 20 bytes)")
		}
	}
	// purity: no write through slice parameters
	pure := []*ssa.Function{checkHash, calcNative, calcSha2, c.Func("mysql", "CalcPasswordSHA1")}
	for _, m := range []string{"CheckPassword", "CheckSha2Password", "CheckHashPassword"} {
		pure = append(pure, c.Method(serverRel, "UserManager", m))
	}
	for _, fn := range pure {
		if fn == nil {
			r.undecided(rule, "mysql", "pure:anchor", "-", "a check/scramble function was not found")
			continue
		}
		name := c.FuncName(fn)
		if w, pos := writesThroughSliceParam(c, fn, 2, map[*ssa.Function]bool{}); w != "" {
			r.viol(rule, name, "pure:slice-params", pos, w+": the client's response (or the salt) is tested against several candidate passwords and by several checks in turn; after this write a correct proof fails for the next candidate")
		} else {
			r.ok(rule, name, "pure:slice-params", c.Pos(fn.Pos()), "no store, copy or append through a slice parameter (module callees followed to depth 2)")
		}
	}
}

// writesThroughSliceParam reports a write into the backing array of one of fn's slice parameters: a Store whose address
// is an index of (a reslice of) the parameter, copy(param, ..), append(param, ..), or passing it to a module function
// that does so (depth-bounded).
func writesThroughSliceParam(c *Ctx, fn *ssa.Function, depth int, seen map[*ssa.Function]bool) (string, string) {
	if seen[fn] {
		return "", ""
	}
	seen[fn] = true
	params := map[ssa.Value]bool{}
	for _, p := range fn.Params {
		if _, ok := p.Type().Underlying().(*types.Slice); ok {
			params[p] = true
		}
	}
	if len(params) == 0 {
		return "", ""
	}
	var derives func(v ssa.Value, d int) ssa.Value
	derives = func(v ssa.Value, d int) ssa.Value {
		v = stripValue(resolveLoad(stripValue(v)))
		if params[v] {
			return v
		}
		if d == 0 {
			return nil
		}
		switch x := v.(type) {
		case *ssa.Slice:
			return derives(x.X, d-1)
		case *ssa.Phi:
			for _, e := range x.Edges {
				if p := derives(e, d-1); p != nil {
					return p
				}
			}
		}
		return nil
	}
	msg, pos := "", ""
	allInstrs(fn, func(in ssa.Instruction) {
		if msg != "" {
			return
		}
		switch x := in.(type) {
		case *ssa.Store:
			if ia, ok := x.Addr.(*ssa.IndexAddr); ok {
				if p := derives(ia.X, 4); p != nil {
					msg, pos = fmt.Sprintf("stores into an element of its parameter %q", p.Name()), c.Pos(x.Pos())
				}
			}
		case *ssa.Call:
			if b, ok := x.Call.Value.(*ssa.Builtin); ok {
				if (b.Name() == "copy" || b.Name() == "append") && len(x.Call.Args) > 0 {
					if p := derives(x.Call.Args[0], 4); p != nil {
						msg, pos = fmt.Sprintf("%ss into its parameter %q", b.Name(), p.Name()), c.Pos(x.Pos())
					}
				}
				return
			}
			callee := staticCallee(&x.Call)
			if callee == nil || !c.InModule(callee) || depth == 0 || len(callee.Blocks) == 0 {
				return
			}
			for i, a := range x.Call.Args {
				if p := derives(a, 4); p != nil && i < len(callee.Params) {
					// does the callee write through the corresponding parameter?
					sub := map[*ssa.Function]bool{}
					for k := range seen {
						sub[k] = true
					}
					if w, wpos := writesThroughOneParam(c, callee, callee.Params[i], depth-1, sub); w != "" {
						msg, pos = fmt.Sprintf("passes its parameter %q to %s, which %s", p.Name(), c.FuncName(callee), w), wpos
					}
				}
			}
		}
	})
	return msg, pos
}

func writesThroughOneParam(c *Ctx, fn *ssa.Function, param *ssa.Parameter, depth int, seen map[*ssa.Function]bool) (string, string) {
	if _, ok := param.Type().Underlying().(*types.Slice); !ok {
		return "", ""
	}
	var derives func(v ssa.Value, d int) bool
	derives = func(v ssa.Value, d int) bool {
		v = stripValue(resolveLoad(stripValue(v)))
		if v == ssa.Value(param) {
			return true
		}
		if d == 0 {
			return false
		}
		switch x := v.(type) {
		case *ssa.Slice:
			return derives(x.X, d-1)
		case *ssa.Phi:
			for _, e := range x.Edges {
				if derives(e, d-1) {
					return true
				}
			}
		}
		return false
	}
	msg, pos := "", ""
	allInstrs(fn, func(in ssa.Instruction) {
		if msg != "" {
			return
		}
		switch x := in.(type) {
		case *ssa.Store:
			if ia, ok := x.Addr.(*ssa.IndexAddr); ok && derives(ia.X, 4) {
				msg, pos = fmt.Sprintf("stores into an element of %q", param.Name()), c.Pos(x.Pos())
			}
		case *ssa.Call:
			if b, ok := x.Call.Value.(*ssa.Builtin); ok {
				if (b.Name() == "copy" || b.Name() == "append") && len(x.Call.Args) > 0 && derives(x.Call.Args[0], 4) {
					msg, pos = fmt.Sprintf("%ss into %q", b.Name(), param.Name()), c.Pos(x.Pos())
				}
				return
			}
			callee := staticCallee(&x.Call)
			if callee == nil || !c.InModule(callee) || depth == 0 || len(callee.Blocks) == 0 || seen[callee] {
				return
			}
			seen[callee] = true
			for i, a := range x.Call.Args {
				if derives(a, 4) && i < len(callee.Params) {
					if w, wpos := writesThroughOneParam(c, callee, callee.Params[i], depth-1, seen); w != "" {
						msg, pos = fmt.Sprintf("passes it to %s, which %s", c.FuncName(callee), w), wpos
					}
				}
			}
		}
	})
	return msg, pos
}

// ---------------------------------------------------------------------------------------
// C15 — binding parameters cannot change the statement (structural clauses)

func init() {
	register("C15", "Clauses decided (shape of the placeholder splice, necessary for the statement): (types) every value stored into Stmt.args has a dynamic type that is either nil, a Go numeric type (rendered by %v as a numeric literal), or a type for which util.ItoString answers quote=true (read out of its type switch: []byte) — the writer's table (bindStmtArgs, handleStmtSendLongData) and the reader's table (ItoString) agree, so no byte-carrying value is spliced bare; (splice) in Stmt.GetRewriteSQL the text written for a placeholder is, on every path, escapeSQL(ItoString(args[index]).text), wrapped in the quote character exactly on the quote==true edge, and nothing else reaches the buffer for a placeholder; (escape) escapeSQL prefixes a backslash to every byte of its escaped set, and that set contains the backslash and the quote character GetRewriteSQL wraps with (sibling agreement of the two constants); (exec) in handleStmtExecute the SQL handed to handleQuery for a statement with parameters is GetRewriteSQL's result, dominated by bindStmtArgs succeeding. NOT decided: that backslash escaping denotes the same bytes under every sql_mode (NO_BACKSLASH_ESCAPES), numeric formatting of floats (NaN/Inf, precision), character-set dependent multi-byte sequences — all value-level.",
		ruleC15)
}

func ruleC15(c *Ctx, r *Report) {
	const rule = "MP-C15"
	r.floor(rule, 12)
	fArgs := c.Field(serverRel, "Stmt", "args")
	ito := c.Func("util", "ItoString")
	esc := c.Func(serverRel, "escapeSQL")
	rewrite := c.Method(serverRel, "Stmt", "GetRewriteSQL")
	exec := c.seMethod("handleStmtExecute")
	bind := c.seMethod("bindStmtArgs")
	hq := c.seMethod("handleQuery")
	if fArgs == nil || ito == nil || esc == nil || rewrite == nil || exec == nil || bind == nil || hq == nil {
		r.undecided(rule, serverRel, "anchor", "-", "Stmt.args / util.ItoString / escapeSQL / GetRewriteSQL / handleStmtExecute / bindStmtArgs / handleQuery not all found")
		return
	}
	// the splice may live in a function GetRewriteSQL delegates to (GetRewriteSQLInMode): follow single delegations
	hasSplice := func(fn *ssa.Function) bool {
		found := false
		allInstrs(fn, func(in ssa.Instruction) {
			if b, ok := in.(*ssa.BinOp); ok && b.Op == token.EQL {
				if s, ok := constString(b.Y); ok && s == "?" {
					found = true
				}
			}
		})
		return found
	}
	rewriteFns := map[*ssa.Function]bool{rewrite: true}
	for d := 0; d < 3 && !hasSplice(rewrite); d++ {
		var next *ssa.Function
		n := 0
		allInstrs(rewrite, func(in ssa.Instruction) {
			if cc := callCommon(in); cc != nil {
				if f := staticCallee(cc); f != nil && c.InModule(f) {
					next = f
					n++
				}
			}
		})
		if n != 1 {
			break
		}
		rewrite = next
		rewriteFns[next] = true
	}
	// ---- reader's table: types ItoString quotes
	quoted := map[string]bool{}
	allInstrs(ito, func(in ssa.Instruction) {
		ta, ok := in.(*ssa.TypeAssert)
		if !ok || !ta.CommaOk {
			return
		}
		okv := extractOf(ta, 1)
		if okv == nil {
			return
		}
		all, any := true, false
		for _, ret := range returnsOf(ito) {
			if !dominatedByCond(ret, okv, true) {
				continue
			}
			any = true
			vals, zero := retValues(ret, 0)
			if zero || len(vals) != 1 {
				all = false
				continue
			}
			if b, ok := constBool(vals[0]); !ok || !b {
				all = false
			}
		}
		if any && all {
			quoted[types.TypeString(ta.AssertedType, shortQual)] = true
		}
	})
	if len(quoted) == 0 {
		r.viol(rule, c.FuncName(ito), "types:quoted-set", c.Pos(ito.Pos()), "util.ItoString asks for quotes for no type at all: byte strings bound to placeholders are spliced bare")
	} else {
		var qs []string
		for k := range quoted {
			qs = append(qs, k)
		}
		sortStrings(qs)
		r.ok(rule, c.FuncName(ito), "types:quoted-set", c.Pos(ito.Pos()), "ItoString asks for quotes for: "+strings.Join(qs, ", "))
	}
	// the default (unquoted) rendering is %v
	// ---- writer's table: dynamic types stored into Stmt.args elements
	isArgsSlice := func(v ssa.Value) bool {
		v = stripValue(resolveLoad(stripValue(v)))
		return loadedField(v) == fArgs
	}
	nw := 0
	seenW := map[string]bool{}
	for _, fn := range c.Funcs {
		if c.IsMockFunc(fn) || fn.Pkg == nil || !strings.HasSuffix(fn.Pkg.Pkg.Path(), serverRel) {
			continue
		}
		allInstrs(fn, func(in ssa.Instruction) {
			st, ok := in.(*ssa.Store)
			if !ok {
				return
			}
			ia, ok := st.Addr.(*ssa.IndexAddr)
			if !ok || !isArgsSlice(ia.X) {
				return
			}
			for _, leaf := range phiLeaves(st.Val) {
				tname := ""
				verdict := ""
				switch x := leaf.(type) {
				case *ssa.Const:
					if x.IsNil() {
						tname, verdict = "nil", "ok"
					}
				case *ssa.MakeInterface:
					t := x.X.Type()
					tname = types.TypeString(t, shortQual)
					if b, ok := t.Underlying().(*types.Basic); ok && b.Info()&(types.IsInteger|types.IsFloat) != 0 {
						verdict = "ok"
					} else if quoted[tname] {
						verdict = "ok"
					} else {
						verdict = "bad"
					}
				}
				// stripValue looks through MakeInterface: recover it from the raw operand
				if tname == "" {
					if mi := findMakeInterface(st.Val, leaf); mi != nil {
						t := mi.X.Type()
						tname = types.TypeString(t, shortQual)
						if b, ok := t.Underlying().(*types.Basic); ok && b.Info()&(types.IsInteger|types.IsFloat) != 0 {
							verdict = "ok"
						} else if quoted[tname] {
							verdict = "ok"
						} else {
							verdict = "bad"
						}
					}
				}
				key := c.FuncName(fn) + "|" + tname
				if tname != "" && seenW[key] {
					continue
				}
				seenW[key] = true
				nw++
				cons := "types:stored:" + tname
				switch verdict {
				case "ok":
					why := "numeric: rendered as a number"
					if tname == "nil" {
						why = "rendered as NULL"
					} else if quoted[tname] {
						why = "quoted and escaped by the reader"
					}
					r.ok(rule, c.FuncName(fn), cons, c.Pos(st.Pos()), "a "+tname+" is bound: "+why)
				case "bad":
					r.viol(rule, c.FuncName(fn), cons, c.Pos(st.Pos()), "a value of dynamic type "+tname+" is bound to a placeholder, but util.ItoString renders that type without quotes: its bytes are spliced into the statement as SQL text")
				default:
					r.undecided(rule, c.FuncName(fn), fmt.Sprintf("types:stored:?#%d", nw), c.Pos(st.Pos()), "cannot determine the dynamic type of a value stored into Stmt.args")
				}
			}
		})
	}
	if nw < 8 {
		r.undecided(rule, serverRel, "types:writers", "-", fmt.Sprintf("expected the typed stores of bindStmtArgs and handleStmtSendLongData, found %d", nw))
	}

	// ---- splice
	quoteChars := map[byte]bool{}
	{
		name := c.FuncName(rewrite)
		var placeholderWrites []*ssa.Call
		var phEdges []CondEdge
		allInstrs(rewrite, func(in ssa.Instruction) {
			if b, ok := in.(*ssa.BinOp); ok && (b.Op == token.EQL || b.Op == token.NEQ) {
				if s, ok := constString(b.Y); ok && s == "?" {
					for _, e := range condEdges(b) {
						if e.Val == (b.Op == token.EQL) {
							phEdges = append(phEdges, e)
						}
					}
				}
			}
		})
		allInstrs(rewrite, func(in ssa.Instruction) {
			call, ok := in.(*ssa.Call)
			if !ok {
				return
			}
			f := staticCallee(&call.Call)
			if f == nil || f.Name() != "WriteString" && f.Name() != "Write" && f.Name() != "WriteByte" {
				return
			}
			if len(phEdges) > 0 && edgesDominate(rewrite, phEdges, call.Block()) {
				placeholderWrites = append(placeholderWrites, call)
			}
		})
		// classify a value: escaped (escapeSQL(ItoString#1(args[..])))
		var itoCall *ssa.Call
		var escapedCore func(v ssa.Value) bool
		if len(placeholderWrites) == 0 {
			r.undecided(rule, name, "splice:placeholder-write", c.Pos(rewrite.Pos()), "no buffer write on the placeholder edge found")
		} else if len(placeholderWrites) > 1 {
			// the literal is written in pieces: quote, escaped text, quote (on the quote edge) / escaped text alone
			escapedCore = func(v ssa.Value) bool {
				call, ok := stripValue(resolveLoad(stripValue(v))).(*ssa.Call)
				if !ok || !callsFunc(&call.Call, esc) {
					return false
				}
				ex, ok := stripValue(resolveLoad(stripValue(call.Call.Args[0]))).(*ssa.Extract)
				if !ok || ex.Index != 1 {
					return false
				}
				ic, ok := ex.Tuple.(*ssa.Call)
				if !ok || !callsFunc(&ic.Call, ito) {
					return false
				}
				u, ok := stripValue(ic.Call.Args[0]).(*ssa.UnOp)
				if !ok || u.Op != token.MUL {
					return false
				}
				ia, ok := u.X.(*ssa.IndexAddr)
				if !ok || !isArgsSlice(ia.X) {
					return false
				}
				itoCall = ic
				return true
			}
			var eW, qW []*ssa.Call
			good, why := true, ""
			for _, w := range placeholderWrites {
				a := w.Call.Args[len(w.Call.Args)-1]
				if escapedCore(a) {
					eW = append(eW, w)
					continue
				}
				if k, ok := constInt(a); ok {
					quoteChars[byte(k)] = true
					qW = append(qW, w)
					continue
				}
				if sv, ok := constString(a); ok && len(sv) == 1 {
					quoteChars[sv[0]] = true
					qW = append(qW, w)
					continue
				}
				good, why = false, "a value other than escapeSQL(ItoString(args[index])) or a single quote character is written for a placeholder"
			}
			var quoteVal ssa.Value
			if itoCall != nil {
				quoteVal = extractOf(itoCall, 0)
			}
			if good && (quoteVal == nil || len(eW) == 0) {
				good, why = false, "the escaped text or the quote flag of ItoString is not used"
			}
			if good && len(quoteChars) != 1 {
				good, why = false, "the literal is not wrapped in one and the same quote character"
			}
			if good {
				onTrue := func(in ssa.Instruction) bool { return dominatedByCond(in, quoteVal, true) }
				onFalse := func(in ssa.Instruction) bool { return dominatedByCond(in, quoteVal, false) }
				for _, q := range qW {
					if !onTrue(q) {
						good, why = false, "a quote character is written although ItoString did not ask for quotes"
					}
				}
				anyT, anyF := false, false
				for _, e := range eW {
					if !onFalse(e) { // may run with quote == true: needs a quote before and after
						anyT = true
						before, after := false, false
						for _, q := range qW {
							if instrDominates(q, e) || (q.Block() != e.Block() && blockReachable(q.Block(), e.Block()) && !blockReachable(e.Block(), q.Block())) {
								before = true
							}
							if instrDominates(e, q) || (q.Block() != e.Block() && blockReachable(e.Block(), q.Block()) && !blockReachable(q.Block(), e.Block())) {
								after = true
							}
						}
						if !before || !after {
							good, why = false, "on the quote==true edge the escaped text is written without a quote character before and after it: a byte string is spliced as SQL text"
						}
					}
					if !onTrue(e) {
						anyF = true
					}
				}
				if good && (!anyT || !anyF) {
					good, why = false, "the escaped text is not written on both the quoted and the unquoted path"
				}
			}
			if good {
				r.ok(rule, name, "splice:escaped-and-quoted", c.Pos(placeholderWrites[0].Pos()), "the placeholder text is escapeSQL(ItoString(args[index])), written between two quote characters exactly on the quote==true edge")
			} else {
				r.viol(rule, name, "splice:escaped-and-quoted", c.Pos(placeholderWrites[0].Pos()), why)
			}
		} else {
			w := placeholderWrites[0]
			arg := w.Call.Args[len(w.Call.Args)-1]
			escapedCore = func(v ssa.Value) bool {
				call, ok := stripValue(v).(*ssa.Call)
				if !ok || !callsFunc(&call.Call, esc) {
					return false
				}
				ex, ok := stripValue(resolveLoad(stripValue(call.Call.Args[0]))).(*ssa.Extract)
				if !ok || ex.Index != 1 {
					return false
				}
				ic, ok := ex.Tuple.(*ssa.Call)
				if !ok || !callsFunc(&ic.Call, ito) {
					return false
				}
				// the argument is an element of s.args
				u, ok := stripValue(ic.Call.Args[0]).(*ssa.UnOp)
				if !ok || u.Op != token.MUL {
					return false
				}
				ia, ok := u.X.(*ssa.IndexAddr)
				if !ok || !isArgsSlice(ia.X) {
					return false
				}
				itoCall = ic
				return true
			}
			type leafKind struct {
				ok, quotedBoth bool
			}
			classify := func(v ssa.Value) leafKind {
				v = stripValue(v)
				if escapedCore(v) {
					return leafKind{true, false}
				}
				// concat chain of constants and exactly one escaped core
				var parts []ssa.Value
				var walk func(y ssa.Value)
				walk = func(y ssa.Value) {
					y = stripValue(y)
					if b, ok := y.(*ssa.BinOp); ok && b.Op == token.ADD {
						walk(b.X)
						walk(b.Y)
						return
					}
					parts = append(parts, y)
				}
				walk(v)
				cores, okAll := 0, true
				var first, last string
				for i, p := range parts {
					if s, ok := constString(p); ok {
						if i == 0 {
							first = s
						}
						if i == len(parts)-1 {
							last = s
						}
						continue
					}
					if escapedCore(p) {
						cores++
						continue
					}
					okAll = false
				}
				if !okAll || cores != 1 || len(parts) != 3 || first == "" || first != last || len(first) != 1 {
					return leafKind{false, false}
				}
				quoteChars[first[0]] = true
				return leafKind{true, true}
			}
			good, why := true, ""
			var quoteVal ssa.Value
			check := func(v ssa.Value, pred, blk *ssa.BasicBlock) {
				k := classify(v)
				if !k.ok {
					good, why = false, "a value other than escapeSQL(ItoString(args[index])) (optionally wrapped in one quote character on both sides) reaches the statement text for a placeholder"
					return
				}
				if itoCall != nil {
					quoteVal = extractOf(itoCall, 0)
				}
				if quoteVal == nil {
					good, why = false, "the quote flag of ItoString is not used"
					return
				}
				// truth of quote on this edge
				val, known := false, false
				if pred != nil {
					if iff, ok := pred.Instrs[len(pred.Instrs)-1].(*ssa.If); ok {
						for _, e := range condEdges(quoteVal) {
							if e.If == iff && pred.Succs[e.Succ] == blk {
								val, known = e.Val, true
							}
						}
					}
					if !known {
						for _, e := range condEdges(quoteVal) {
							if edgeDominates(rewrite, e.If.Block(), e.Succ, pred) {
								val, known = e.Val, true
							}
						}
					}
				}
				if !known {
					good, why = false, "cannot tell whether the quote flag is set where this text is chosen"
					return
				}
				if val != k.quotedBoth {
					if val {
						good, why = false, "on the quote==true edge the escaped text is written without the surrounding quotes: a byte string is spliced as SQL text"
					} else {
						good, why = false, "quotes are added although ItoString did not ask for them"
					}
				}
			}
			if phi, ok := stripValue(arg).(*ssa.Phi); ok {
				for i, e := range phi.Edges {
					check(e, phi.Block().Preds[i], phi.Block())
				}
			} else {
				k := classify(arg)
				if !k.ok {
					good, why = false, "a value other than escapeSQL(ItoString(args[index])) reaches the statement text for a placeholder"
				} else if !k.quotedBoth {
					good, why = false, "the placeholder text is never quoted"
				} else {
					good, why = false, "the placeholder text is always quoted, whatever ItoString answered (NULL and numbers become strings)"
				}
			}
			if good {
				r.ok(rule, name, "splice:escaped-and-quoted", c.Pos(w.Pos()), "the placeholder text is escapeSQL(ItoString(args[index])), wrapped in quotes exactly on the quote==true edge")
			} else {
				r.viol(rule, name, "splice:escaped-and-quoted", c.Pos(w.Pos()), why)
			}
		}
	}
	// ---- escape
	{
		name := c.FuncName(esc)
		// first choice: evaluate the per-byte decision concretely (256 bytes x 2 modes), following helper calls; this does
		// not depend on how the decision is written. Only when the loop has a shape the evaluator cannot run, the
		// structural reading below is used.
		var semModeParam *ssa.Parameter
		for _, p := range esc.Params[1:] {
			if isBoolType(p.Type()) {
				semModeParam = p
			}
		}
		tbl, semantic := escapeTable(c, esc, semModeParam)
		semModeDiffers := false
		if semantic {
			okPrefix, detail := true, ""
			for m := 0; m < 2; m++ {
				for b := 0; b < 256; b++ {
					pf := tbl[m][b]
					if len(pf) == 0 {
						continue
					}
					if len(pf) > 1 || !(pf[0] == '\\' || (quoteChars[pf[0]] && pf[0] == byte(b))) {
						okPrefix, detail = false, fmt.Sprintf("byte %q gets the prefix %q (mode flag %v)", string(rune(b)), string(pf), m == 1)
					}
					if len(tbl[0][b]) != len(tbl[1][b]) || (len(pf) > 0 && len(tbl[1-m][b]) > 0 && tbl[1-m][b][0] != pf[0]) {
						semModeDiffers = true
					}
				}
			}
			missing := ""
			need := []byte{'\\'}
			for q := range quoteChars {
				need = append(need, q)
			}
			for _, b := range need {
				if len(tbl[0][b]) == 0 {
					missing += fmt.Sprintf(" %q", string(rune(b)))
				}
			}
			switch {
			case !okPrefix:
				r.viol(rule, name, "escape:prefix-on-recognised-bytes", c.Pos(esc.Pos()), "the escape decision, evaluated for every byte, prefixes something other than a backslash or the doubled quote: "+detail)
			case missing != "":
				r.viol(rule, name, "escape:covers-quote-char", c.Pos(esc.Pos()), "escapeSQL does not escape"+missing+", which GetRewriteSQL relies on (the quote character it wraps byte strings with, and the escape character itself): a bound value can terminate its literal")
			default:
				r.ok(rule, name, "escape:prefix-on-recognised-bytes", c.Pos(esc.Pos()), "evaluated for all 256 bytes in both modes: a prefix is a backslash or the doubled quote, nothing else")
				r.ok(rule, name, "escape:covers-quote-char", c.Pos(esc.Pos()), "in the default mode the backslash and the quote character used by GetRewriteSQL get an escape prefix")
			}
		}
		set := map[byte]bool{}
		var edges []CondEdge
		allInstrs(esc, func(in ssa.Instruction) {
			b, ok := in.(*ssa.BinOp)
			if !ok || b.Op != token.EQL {
				return
			}
			k, ok := constInt(b.Y)
			if !ok {
				return
			}
			set[byte(k)] = true
			for _, e := range condEdges(b) {
				if e.Val {
					edges = append(edges, e)
				}
			}
		})
		// on every recognised-byte edge a constant escape byte (backslash, or the quote itself when doubling) is appended
		var prefixAppends []ssa.Instruction
		prefixes := map[byte]bool{}
		allInstrs(esc, func(in ssa.Instruction) {
			call, ok := in.(*ssa.Call)
			if !ok {
				return
			}
			if b, ok := call.Call.Value.(*ssa.Builtin); !ok || b.Name() != "append" {
				return
			}
			for _, v := range variadicElems(call.Call.Args[1]) {
				if k, ok := constInt(v); ok {
					prefixAppends = append(prefixAppends, call)
					prefixes[byte(k)] = true
				}
			}
		})
		okEsc := len(prefixAppends) > 0 && len(edges) > 0
		for _, e := range edges {
			lead := false
			for _, pa := range prefixAppends {
				if edgeDominates(esc, e.If.Block(), e.Succ, pa.Block()) || e.If.Block().Succs[e.Succ] == pa.Block() {
					lead = true
				}
				// `a == x || a == y` : the true edges of both comparisons join in the appending block
				for _, p := range pa.Block().Preds {
					if p == e.If.Block() {
						lead = true
					}
				}
			}
			if !lead {
				okEsc = false
			}
		}
		for pb := range prefixes {
			if pb != '\\' && !quoteChars[pb] {
				okEsc = false
			}
		}
		need := []byte{'\\'}
		for q := range quoteChars {
			need = append(need, q)
		}
		missing := ""
		for _, b := range need {
			if !set[b] {
				missing += fmt.Sprintf(" %q", string(rune(b)))
			}
		}
		switch {
		case semantic:
			// decided above
		case !okEsc:
			r.viol(rule, name, "escape:prefix-on-recognised-bytes", c.Pos(esc.Pos()), "escapeSQL does not prefix an escape byte (backslash, or the doubled quote) on every edge where it recognised a byte of its escaped set")
		case missing != "":
			r.viol(rule, name, "escape:covers-quote-char", c.Pos(esc.Pos()), "escapeSQL does not escape"+missing+", which GetRewriteSQL relies on (the quote character it wraps byte strings with, and the escape character itself): a bound value can terminate its literal")
		default:
			r.ok(rule, name, "escape:prefix-on-recognised-bytes", c.Pos(esc.Pos()), "an escape byte is appended on every recognised-byte edge")
			r.ok(rule, name, "escape:covers-quote-char", c.Pos(esc.Pos()), fmt.Sprintf("the escaped set contains the backslash and the quote character used by GetRewriteSQL (%d comparisons)", len(edges)))
		}
		// mode awareness: the client can switch the backend's reading of backslashes (SET sql_mode is passed through), so
		// the escaping must depend on the session's sql_mode
		settable := false
		setStr := c.seMethod("setStringSessionVariable")
		for _, s := range c.callSites(func(cc *ssa.CallCommon) bool { return setStr != nil && callsFunc(cc, setStr) }) {
			cc := callCommon(s.In)
			if len(cc.Args) >= 2 {
				if k, ok := constString(cc.Args[1]); ok && k == "sql_mode" {
					settable = true
				}
			}
		}
		fSessVars := c.Field(serverRel, "SessionExecutor", "sessionVariables")
		switch {
		case !settable:
			r.ok(rule, name, "escape:mode-aware", c.Pos(esc.Pos()), "sql_mode is not passed through from the client: one escaping suffices")
		default:
			// does a branch of esc depend on a parameter other than the text?
			var modeParam *ssa.Parameter
			for _, p := range esc.Params[1:] {
				dep := false
				allInstrs(esc, func(in ssa.Instruction) {
					if iff, ok := in.(*ssa.If); ok && dependsOnParam(iff.Cond, p, 4) {
						dep = true
					}
				})
				if dep {
					modeParam = p
				}
			}
			if semantic {
				modeParam = nil
				if semModeDiffers {
					modeParam = semModeParam
				}
				if modeParam != nil {
					for q := range quoteChars {
						if len(tbl[0][q]) > 0 && len(tbl[1][q]) > 0 {
							r.ok(rule, name, "escape:quote-in-every-mode", c.Pos(esc.Pos()), "the quote character gets an escape prefix in both modes")
						} else {
							r.viol(rule, name, "escape:quote-in-every-mode", c.Pos(esc.Pos()), "in one of the two sql_mode branches the quote character is not escaped: a bound value can terminate its literal in that mode")
						}
					}
					if len(tbl[1]['\\']) != 0 {
						r.viol(rule, name, "escape:backslash-literal-in-nbe-mode", c.Pos(esc.Pos()), "with the mode flag set (NO_BACKSLASH_ESCAPES) a backslash still gets a prefix: the backend reads both bytes, so the value stored differs from the bound value")
					} else {
						r.ok(rule, name, "escape:backslash-literal-in-nbe-mode", c.Pos(esc.Pos()), "with the mode flag set a backslash is written as it is")
					}
				}
			}
			if modeParam != nil && !semantic {
				// the quote character is recognised whatever the mode: in the mode-independent part, or on both mode edges
				var modeEdges []CondEdge
				allInstrs(esc, func(in ssa.Instruction) {
					if iff, ok := in.(*ssa.If); ok && dependsOnParam(iff.Cond, modeParam, 4) {
						modeEdges = append(modeEdges, CondEdge{If: iff, Succ: 0, Val: true}, CondEdge{If: iff, Succ: 1, Val: false})
					}
				})
				for q := range quoteChars {
					inT, inF, inN := false, false, false
					allInstrs(esc, func(in ssa.Instruction) {
						b, ok := in.(*ssa.BinOp)
						if !ok || b.Op != token.EQL {
							return
						}
						if k, ok := constInt(b.Y); !ok || byte(k) != q {
							return
						}
						t, f := false, false
						for _, me := range modeEdges {
							if edgeDominates(esc, me.If.Block(), me.Succ, b.Block()) {
								if me.Succ == 0 {
									t = true
								} else {
									f = true
								}
							}
						}
						switch {
						case t:
							inT = true
						case f:
							inF = true
						default:
							inN = true
						}
					})
					if inN || (inT && inF) {
						r.ok(rule, name, "escape:quote-in-every-mode", c.Pos(esc.Pos()), "the quote character is escaped on both sides of the mode branch")
					} else {
						r.viol(rule, name, "escape:quote-in-every-mode", c.Pos(esc.Pos()), "in one of the two sql_mode branches the quote character is not escaped: a bound value can terminate its literal in that mode")
					}
				}
			}
			if modeParam == nil {
				r.viol(rule, name, "escape:mode-aware", c.Pos(esc.Pos()), "the escaping is a function of the text alone, but SET sql_mode is passed through to the backend: with NO_BACKSLASH_ESCAPES a backslash-escaped quote ends the literal and the rest of the bound value is read as SQL; no single escaping is right in both modes")
			} else {
				// the mode reaching the execution path comes from the session's variables
				okMode, why := false, "the sql_mode flag of the escaping is not derived from the session's variables on the COM_STMT_EXECUTE path"
				for _, ci := range callsIn(exec, func(cc *ssa.CallCommon) bool { f := staticCallee(cc); return f != nil && rewriteFns[f] }) {
					cc := callCommon(ci)
					f := staticCallee(cc)
					if f != rewrite {
						why = "COM_STMT_EXECUTE uses the default-mode rewrite, whatever sql_mode the session has set"
						continue
					}
					for _, a := range cc.Args[1:] {
						if call, ok := stripValue(a).(*ssa.Call); ok {
							if g := staticCallee(&call.Call); g != nil && fSessVars != nil && readsField(g, fSessVars, 2, c) {
								okMode = true
								// the detection must not fail open: the SET was handed to the backend as text, so "I could
								// not parse the mode list" is no reason to assume the default lexing
								failOpen := false
								for _, ret := range returnsOf(g) {
									if len(ret.Results) != 1 {
										continue
									}
									if b, ok := constBool(ret.Results[0]); !ok || b {
										continue
									}
									allInstrs(g, func(in ssa.Instruction) {
										pc, ok := in.(*ssa.Call)
										if !ok || errResultOf(pc) == nil {
											return
										}
										for _, e := range errNilEdgesOfCall(pc) {
											if !e.Val && instrDominatedByEdge(ret, e) {
												failOpen = true
											}
										}
									})
								}
								if failOpen {
									r.viol(rule, c.FuncName(g), "mode:no-fail-open", c.Pos(g.Pos()), "the sql_mode detection answers `backslashes escape` when it cannot parse the mode list (an unknown mode name, an expression): the SET itself was passed to the backend as text, so the backend may run NO_BACKSLASH_ESCAPES while the proxy escapes with backslashes")
								} else {
									r.ok(rule, c.FuncName(g), "mode:no-fail-open", c.Pos(g.Pos()), "no `false` answer on the error edge of a parse")
								}
							}
						}
					}
				}
				if okMode {
					r.ok(rule, name, "escape:mode-aware", c.Pos(esc.Pos()), "the escaping branches on a mode flag that handleStmtExecute derives from the session's sql_mode variable")
				} else {
					r.viol(rule, name, "escape:mode-aware", c.Pos(esc.Pos()), why)
				}
			}
		}
	}
	// ---- exec
	{
		name := c.FuncName(exec)
		hqs := callsIn(exec, func(cc *ssa.CallCommon) bool { return callsFunc(cc, hq) })
		rws := callsIn(exec, func(cc *ssa.CallCommon) bool { f := staticCallee(cc); return f != nil && rewriteFns[f] })
		bds := callsIn(exec, func(cc *ssa.CallCommon) bool { return callsFunc(cc, bind) })
		if len(hqs) == 0 || len(rws) != 1 || len(bds) != 1 {
			r.undecided(rule, name, "exec:shape", c.Pos(exec.Pos()), "expected handleQuery call(s), one GetRewriteSQL and one bindStmtArgs call")
		} else {
			// every text handed to handleQuery is the rewritten one (after bindStmtArgs succeeded) or, where no parameter
			// was bound (not after bindStmtArgs), the prepared text itself; one of them is the rewritten text
			fSQL := c.Field(serverRel, "Stmt", "sql")
			good := true
			nRew := 0
			for _, hqc := range hqs {
				sqlArg := callCommon(hqc).Args[len(callCommon(hqc).Args)-1]
				for _, l := range phiLeaves(sqlArg) {
					if ex, ok := l.(*ssa.Extract); ok && ex.Tuple == rws[0].(ssa.Value) && ex.Index == 0 {
						nRew++
						continue
					}
					if loadedField(l) == fSQL {
						if ld, ok := l.(ssa.Instruction); ok && (ld.Block() == bds[0].Block() || blockReachable(bds[0].Block(), ld.Block())) {
							good = false
						}
						continue
					}
					good = false
				}
			}
			if good && nRew >= 1 && dominatedByNilErr(rws[0], bds[0].(*ssa.Call)) {
				r.ok(rule, name, "exec:runs-rewritten-text", c.Pos(hqs[0].Pos()), "the text executed is GetRewriteSQL's result (after bindStmtArgs succeeded) or, for a statement without parameters, the prepared text")
			} else {
				r.viol(rule, name, "exec:runs-rewritten-text", c.Pos(hqs[0].Pos()), "the text executed for a statement with parameters is not GetRewriteSQL's result after a successful bindStmtArgs")
			}
		}
	}
}

// findMakeInterface finds the MakeInterface through which `leaf` (already stripped) was reached from raw value v.
func findMakeInterface(v ssa.Value, leaf ssa.Value) *ssa.MakeInterface {
	seen := map[ssa.Value]bool{}
	var walk func(x ssa.Value, d int) *ssa.MakeInterface
	walk = func(x ssa.Value, d int) *ssa.MakeInterface {
		if x == nil || seen[x] || d > 8 {
			return nil
		}
		seen[x] = true
		switch y := x.(type) {
		case *ssa.MakeInterface:
			if stripValue(y.X) == leaf || y.X == leaf {
				return y
			}
			return nil
		case *ssa.Phi:
			for _, e := range y.Edges {
				if m := walk(e, d+1); m != nil {
					return m
				}
			}
		case *ssa.ChangeInterface:
			return walk(y.X, d+1)
		case *ssa.UnOp:
			if y.Op == token.MUL {
				if cell, ok := y.X.(*ssa.Alloc); ok {
					if sts, _, ok := reachingStores(cell, y); ok {
						for _, s := range sts {
							if m := walk(s.Val, d+1); m != nil {
								return m
							}
						}
					}
				}
			}
		}
		return nil
	}
	return walk(v, 0)
}

func sortStrings(a []string) {
	for i := 1; i < len(a); i++ {
		for j := i; j > 0 && a[j] < a[j-1]; j-- {
			a[j], a[j-1] = a[j-1], a[j]
		}
	}
}

// dependsOnParam: v is computed from parameter p (through unary/binary operators and conversions).
func dependsOnParam(v ssa.Value, p *ssa.Parameter, depth int) bool {
	v = stripValue(v)
	if v == ssa.Value(p) {
		return true
	}
	if depth == 0 {
		return false
	}
	switch x := v.(type) {
	case *ssa.UnOp:
		return dependsOnParam(x.X, p, depth-1)
	case *ssa.BinOp:
		return dependsOnParam(x.X, p, depth-1) || dependsOnParam(x.Y, p, depth-1)
	case *ssa.Convert:
		return dependsOnParam(x.X, p, depth-1)
	case *ssa.Phi:
		for _, e := range x.Edges {
			if dependsOnParam(e, p, depth-1) {
				return true
			}
		}
	}
	return false
}

// readsField: fn (or a module callee, depth-bounded) loads field f.
func readsField(fn *ssa.Function, f *types.Var, depth int, c *Ctx) bool {
	found := false
	allInstrs(fn, func(in ssa.Instruction) {
		if found {
			return
		}
		if fa, ok := in.(*ssa.FieldAddr); ok && fieldOfAddr(fa) == f {
			found = true
			return
		}
		if depth > 0 {
			if cc := callCommon(in); cc != nil {
				if g := staticCallee(cc); g != nil && g != fn && c.InModule(g) && len(g.Blocks) > 0 && readsField(g, f, depth-1, c) {
					found = true
				}
			}
		}
	})
	return found
}

// ---------------------------------------------------------------------------------------
// C14 — prepared-statement parameters are exactly the grammar's placeholders (by construction)

func init() {
	register("C14", "Clause decided (agreement by construction): the parameter positions CalcParams reports are produced by the SQL grammar's own lexer. (lexer) CalcParams' offsets are, by def-use, the result of a function of package parser, and its count is len() of that very value; (marker) in that function an offset is appended only on the edge `token == paramMarker` of a token returned by (*Scanner).scan, the offset being that token's position, and paramMarker is the token the lexer's byte table assigns to '?' (initTokenByte('?', paramMarker)) — the same constant the generated grammar uses for parameter markers; (cut) every text piece of the statement template is cut at those offsets; (prepare) handleStmtPrepare stores CalcParams' count and pieces on its nil-error edge and fails the prepare otherwise. A private scanner in CalcParams (byte comparisons with quote characters and '?') is reported: it cannot know the lexer's contexts (backquoted identifiers, comments, escaped and doubled quotes). What the lexer itself accepts is not examined.",
		ruleC14)
}

func ruleC14(c *Ctx, r *Report) {
	const rule = "MP-C14"
	r.floor(rule, 5)
	calc := c.Func(serverRel, "CalcParams")
	prepare := c.seMethod("handleStmtPrepare")
	scan := c.Method("parser", "Scanner", "scan")
	ppkg := c.Pkg("parser")
	if calc == nil || prepare == nil || scan == nil || ppkg == nil {
		r.undecided(rule, serverRel+".CalcParams", "anchor", "-", "CalcParams / handleStmtPrepare / parser.Scanner.scan not found")
		return
	}
	var markerVal int64 = -1
	if obj, ok := ppkg.Pkg.Scope().Lookup("paramMarker").(*types.Const); ok {
		if v, ok := constantInt64(obj); ok {
			markerVal = v
		}
	}
	if markerVal < 0 {
		r.undecided(rule, "parser", "marker:const", "-", "constant parser.paramMarker not found")
		return
	}
	name := c.FuncName(calc)
	// ---- (lexer) offsets come from package parser
	var helper *ssa.Function
	var helperCall *ssa.Call
	okOff := true
	nret := 0
	for _, ret := range returnsOf(calc) {
		isNil, known := returnsNilError(ret)
		if known && !isNil {
			continue
		}
		nret++
		vals, zero := retValues(ret, 1)
		if zero || len(vals) == 0 {
			okOff = false
			continue
		}
		for _, v := range vals {
			for _, l := range phiLeaves(v) {
				ex, ok := l.(*ssa.Extract)
				if !ok || ex.Index != 0 {
					okOff = false
					continue
				}
				call, ok := ex.Tuple.(*ssa.Call)
				f := (*ssa.Function)(nil)
				if ok {
					f = staticCallee(&call.Call)
				}
				if f == nil || f.Pkg != ppkg {
					okOff = false
					continue
				}
				helper, helperCall = f, call
			}
		}
	}
	if nret == 0 || !okOff || helper == nil {
		r.viol(rule, name, "lexer:offsets-from-parser", c.Pos(calc.Pos()), "CalcParams finds the placeholders with a scanner of its own (byte comparisons) instead of the SQL lexer: a '?' inside a backquoted identifier, a comment, or after an escaped/doubled quote is counted (or a valid statement is refused), so the parameter count told to the client differs from the grammar's")
		return
	}
	r.ok(rule, name, "lexer:offsets-from-parser", c.Pos(helperCall.Pos()), "the offsets are the result of parser."+helper.Name())
	// count == len(offsets)
	okCnt := true
	for _, ret := range returnsOf(calc) {
		isNil, known := returnsNilError(ret)
		if known && !isNil {
			continue
		}
		vals, zero := retValues(ret, 0)
		if zero {
			okCnt = false
			continue
		}
		for _, v := range vals {
			for _, l := range phiLeaves(v) {
				call, ok := l.(*ssa.Call)
				if !ok {
					okCnt = false
					continue
				}
				bi, ok := call.Call.Value.(*ssa.Builtin)
				if !ok || bi.Name() != "len" {
					okCnt = false
					continue
				}
				same := false
				for _, a := range phiLeaves(call.Call.Args[0]) {
					if ex, ok := a.(*ssa.Extract); ok && ex.Tuple == ssa.Value(helperCall) && ex.Index == 0 {
						same = true
					}
				}
				if !same {
					okCnt = false
				}
			}
		}
	}
	if okCnt {
		r.ok(rule, name, "lexer:count-is-len-offsets", c.Pos(calc.Pos()), "the parameter count is len() of the lexer's offsets")
	} else {
		r.viol(rule, name, "lexer:count-is-len-offsets", c.Pos(calc.Pos()), "the parameter count is not the number of markers the lexer found")
	}
	// (cut) the template is cut at the offsets: every Slice of the statement text has bounds derived from elements of the
	// lexer's offsets — in CalcParams itself or in a helper it hands both the text and the offsets to
	okCut, ncut := true, 0
	fromHelperCall := func(v ssa.Value) bool {
		for _, a := range phiLeaves(v) {
			if ex, ok := a.(*ssa.Extract); ok && ex.Tuple == ssa.Value(helperCall) && ex.Index == 0 {
				continue
			}
			return false
		}
		return true
	}
	var checkCuts func(fn *ssa.Function, sqlV ssa.Value, isOffsets func(v ssa.Value) bool, depth int)
	checkCuts = func(fn *ssa.Function, sqlV ssa.Value, isOffsets func(v ssa.Value) bool, depth int) {
		isOffsetElem := func(v ssa.Value) bool {
			ls := phiLeaves(v)
			if len(ls) == 0 {
				return false
			}
			for _, l := range ls {
				u, ok := l.(*ssa.UnOp)
				if !ok || u.Op != token.MUL {
					return false
				}
				ia, ok := u.X.(*ssa.IndexAddr)
				if !ok || !isOffsets(ia.X) {
					return false
				}
			}
			return true
		}
		var boundOK func(v ssa.Value, d int) bool
		boundOK = func(v ssa.Value, d int) bool {
			if v == nil {
				return true
			}
			v = stripValue(v)
			if _, ok := v.(*ssa.Const); ok {
				return true
			}
			if isOffsetElem(v) {
				return true
			}
			if d == 0 {
				return false
			}
			switch x := v.(type) {
			case *ssa.BinOp:
				return boundOK(x.X, d-1) && boundOK(x.Y, d-1)
			case *ssa.Phi:
				for _, e := range x.Edges {
					if e == ssa.Value(x) {
						continue
					}
					if !boundOK(e, d-1) {
						return false
					}
				}
				return true
			}
			return false
		}
		allInstrs(fn, func(in ssa.Instruction) {
			switch x := in.(type) {
			case *ssa.Slice:
				if stripValue(x.X) != sqlV {
					return
				}
				ncut++
				if !boundOK(x.Low, 4) || !boundOK(x.High, 4) {
					okCut = false
				}
			case *ssa.Call:
				if depth == 0 {
					return
				}
				h := staticCallee(&x.Call)
				if h == nil || h == fn || !c.InModule(h) || len(h.Blocks) == 0 {
					return
				}
				var sqlP2, offP2 *ssa.Parameter
				for k, a := range x.Call.Args {
					if k >= len(h.Params) {
						break
					}
					if stripValue(a) == sqlV {
						sqlP2 = h.Params[k]
					}
					if isOffsets(a) {
						offP2 = h.Params[k]
					}
				}
				if sqlP2 != nil && offP2 != nil {
					checkCuts(h, sqlP2, func(v ssa.Value) bool {
						for _, l := range phiLeaves(v) {
							if l != ssa.Value(offP2) {
								return false
							}
						}
						return true
					}, depth-1)
				}
			}
		})
	}
	checkCuts(calc, ssa.Value(calc.Params[0]), fromHelperCall, 1)
	if ncut > 0 && okCut {
		r.ok(rule, name, "cut:pieces-at-offsets", c.Pos(calc.Pos()), fmt.Sprintf("the %d text pieces are cut at the lexer's offsets", ncut))
	} else {
		r.viol(rule, name, "cut:pieces-at-offsets", c.Pos(calc.Pos()), "the statement template is not cut exactly at the lexer's marker offsets: a bound value is spliced at another position than the marker")
	}

	// ---- (marker) in the helper: appended only on tok == paramMarker, of a token from scan, with that token's offset
	{
		hname := c.FuncName(helper)
		scans := callsIn(helper, func(cc *ssa.CallCommon) bool { return callsFunc(cc, scan) })
		if len(scans) != 1 {
			r.undecided(rule, hname, "marker:scan", c.Pos(helper.Pos()), "expected one (*Scanner).scan call")
		} else {
			tok := extractOf(scans[0].(ssa.Value), 0)
			var edges []CondEdge
			if tok != nil {
				edges = eqConstEdges(helper, func(v ssa.Value) bool { return v == ssa.Value(tok) }, markerVal)
			}
			na, okApp := 0, true
			allInstrs(helper, func(in ssa.Instruction) {
				call, ok := in.(*ssa.Call)
				if !ok {
					return
				}
				bi, ok := call.Call.Value.(*ssa.Builtin)
				if !ok || bi.Name() != "append" {
					return
				}
				if _, isInts := call.Type().Underlying().(*types.Slice); !isInts {
					return
				}
				na++
				if len(edges) == 0 || !edgesDominate(helper, edges, call.Block()) {
					okApp = false
				}
				// the value recorded is the position of that token (field Offset of scan's second result)
				for _, v := range variadicElems(call.Call.Args[1]) {
					okPos := false
					if u, ok := stripValue(v).(*ssa.UnOp); ok && u.Op == token.MUL {
						if fa, ok := u.X.(*ssa.FieldAddr); ok {
							if f := fieldOfAddr(fa); f != nil && f.Name() == "Offset" {
								if cell, ok := fa.X.(*ssa.Alloc); ok {
									if sts, zero, ok := reachingStores(cell, u); ok && !zero && len(sts) > 0 {
										okPos = true
										for _, st := range sts {
											ex, ok := stripValue(st.Val).(*ssa.Extract)
											if !ok || ex.Tuple != scans[0].(ssa.Value) || ex.Index != 1 {
												okPos = false
											}
										}
									}
								}
							}
						}
					}
					if !okPos {
						okApp = false
					}
				}
			})
			if na > 0 && okApp {
				r.ok(rule, hname, "marker:append-on-param-marker", c.Pos(helper.Pos()), fmt.Sprintf("an offset is appended only on the edge token == paramMarker (%d) of a token returned by the lexer", markerVal))
			} else {
				r.viol(rule, hname, "marker:append-on-param-marker", c.Pos(helper.Pos()), "offsets are recorded for tokens other than the lexer's parameter marker (or for none)")
			}
		}
		if okInv, why := scanLoopStopsOnInvalid(c, helper, scan); okInv {
			r.ok(rule, hname, "marker:stops-on-invalid-token", c.Pos(helper.Pos()), "the `invalid` token ends the scan with an error")
		} else {
			r.viol(rule, hname, "marker:stops-on-invalid-token", c.Pos(helper.Pos()), why)
		}
		// the lexer's byte table gives '?' the token paramMarker
		initTB := c.Func("parser", "initTokenByte")
		okTB := false
		if initTB != nil {
			for _, s := range c.callSites(func(cc *ssa.CallCommon) bool { return callsFunc(cc, initTB) }) {
				cc := callCommon(s.In)
				if len(cc.Args) == 2 {
					a, ok1 := constInt(cc.Args[0])
					b, ok2 := constInt(cc.Args[1])
					if ok1 && ok2 && a == '?' && b == markerVal {
						okTB = true
					}
				}
			}
		}
		if okTB {
			r.ok(rule, "parser.init", "marker:question-mark-token", "-", "the lexer's byte table maps '?' to paramMarker")
		} else {
			r.viol(rule, "parser.init", "marker:question-mark-token", "-", "the lexer does not emit paramMarker for '?' (initTokenByte('?', paramMarker) not found)")
		}
	}
	// ---- (prepare)
	{
		pname := c.FuncName(prepare)
		calls := callsIn(prepare, func(cc *ssa.CallCommon) bool { return callsFunc(cc, calc) })
		fCount := c.Field(serverRel, "Stmt", "paramCount")
		fItems := c.Field(serverRel, "Stmt", "sqlItems")
		if len(calls) != 1 || fCount == nil || fItems == nil {
			r.undecided(rule, pname, "prepare:uses-calc", c.Pos(prepare.Pos()), "expected one CalcParams call")
		} else {
			call := calls[0].(*ssa.Call)
			good := true
			n := 0
			allInstrs(prepare, func(in ssa.Instruction) {
				st, ok := in.(*ssa.Store)
				if !ok {
					return
				}
				f := fieldOfAddr(st.Addr)
				want := -1
				if f == fCount {
					want = 0
				} else if f == fItems {
					want = 2
				} else {
					return
				}
				n++
				ex, ok := stripValue(resolveLoad(stripValue(st.Val))).(*ssa.Extract)
				if !ok || ex.Tuple != ssa.Value(call) || ex.Index != want || !dominatedByNilErr(st, call) {
					good = false
				}
			})
			if good && n == 2 {
				r.ok(rule, pname, "prepare:uses-calc", c.Pos(call.Pos()), "the statement's parameter count and template are CalcParams' results, stored on its nil-error edge")
			} else {
				r.viol(rule, pname, "prepare:uses-calc", c.Pos(call.Pos()), "the prepared statement's parameter count / template are not CalcParams' results on its success edge")
			}
		}
	}
}

// scanLoopStopsOnInvalid: in fn, which drives (*Scanner).scan in a loop, the token is compared with the lexer's `invalid`
// token (the scanner does not advance past a byte it has no token for) and that edge leaves the loop: it reaches only
// returns, never the scan call again.
func scanLoopStopsOnInvalid(c *Ctx, fn *ssa.Function, scan *ssa.Function) (bool, string) {
	ppkg := c.Pkg("parser")
	if ppkg == nil {
		return false, "package parser not found"
	}
	cst, ok := ppkg.Pkg.Scope().Lookup("invalid").(*types.Const)
	if !ok {
		return false, "parser.invalid not found"
	}
	inv, ok := constantInt64(cst)
	if !ok {
		return false, "parser.invalid has no integer value"
	}
	scans := callsIn(fn, func(cc *ssa.CallCommon) bool { return callsFunc(cc, scan) })
	if len(scans) == 0 {
		return false, "no scan call"
	}
	for _, sc := range scans {
		tok := extractOf(sc.(ssa.Value), 0)
		if tok == nil {
			continue
		}
		found := false
		for _, e := range eqConstEdges(fn, func(v ssa.Value) bool { return v == ssa.Value(tok) }, inv) {
			{
				again := false
				searchExits(fn, nil, e.If.Block().Succs[e.Succ], SearchOpts{Stop: func(x ssa.Instruction) bool {
					if x == sc {
						again = true
						return true
					}
					return false
				}})
				if !again {
					found = true
				}
			}
		}
		if !found {
			return false, "the loop keeps scanning after the lexer returned its `invalid` token; the scanner does not advance past such a byte (e.g. NUL), so the loop never ends and the session goroutine spins"
		}
	}
	return true, ""
}

func constantInt64(obj *types.Const) (int64, bool) {
	s := obj.Val().ExactString()
	var v int64
	if _, err := fmt.Sscanf(s, "%d", &v); err != nil {
		return 0, false
	}
	return v, true
}

// ---------------------------------------------------------------------------------------
// C13 — binary rows carry the same values (wire-class agreement between the writer and the reader tables)

func init() {
	register("C13", "Clause decided (writer/reader table agreement; the values themselves are NOT decided): for every MySQL column type, the wire class with which mysql.AppendBinaryValue writes a binary-protocol value (1/2/4/8 fixed bytes, length-encoded string, or a self-length-prefixed temporal value) equals the wire class with which the repository's own binary-row reader RowData.ParseBinary reads a value of that type. Both tables are read out of the SSA of the two functions (the body selected by `type == K` for every Type* constant of package mysql, classified by what it appends / how it advances). A type the writer appends without the length prefix the reader expects (or with another width) makes every following column of the row decode wrongly. Types only one side knows are listed, not judged. Value conversion (signedness, precision, dates, NULL bitmap arithmetic) is value-level and not covered.",
		ruleC13)
}

func ruleC13(c *Ctx, r *Report) {
	const rule = "TB-C13"
	r.floor(rule, 14)
	w := c.Func("mysql", "AppendBinaryValue")
	rd := c.Method("mysql", "RowData", "ParseBinary")
	lenencW := c.Func("mysql", "AppendLenEncStringBytes")
	lenencR := c.Func("mysql", "ReadLenEncStringAsBytes")
	lenInt := c.Func("mysql", "ReadLenEncInt")
	mpkg := c.Pkg("mysql")
	fType := c.Field("mysql", "Field", "Type")
	if w == nil || rd == nil || lenencW == nil || lenencR == nil || lenInt == nil || mpkg == nil || fType == nil {
		r.undecided(rule, "mysql", "anchor", "-", "AppendBinaryValue / RowData.ParseBinary / AppendLenEncStringBytes / ReadLenEncStringAsBytes / ReadLenEncInt / Field.Type not all found")
		return
	}
	// Type* constants
	names := map[int64][]string{}
	for _, n := range mpkg.Pkg.Scope().Names() {
		if !strings.HasPrefix(n, "Type") {
			continue
		}
		cst, ok := mpkg.Pkg.Scope().Lookup(n).(*types.Const)
		if !ok {
			continue
		}
		if b, ok := cst.Type().Underlying().(*types.Basic); !ok || b.Info()&types.IsInteger == 0 {
			continue
		}
		if v, ok := constantInt64(cst); ok {
			names[v] = append(names[v], n)
		}
	}
	// bodies selected by `scrutinee == K`
	bodies := func(fn *ssa.Function, isScrut func(v ssa.Value) bool) map[int64][]*ssa.BasicBlock {
		out := map[int64][]*ssa.BasicBlock{}
		allInstrs(fn, func(in ssa.Instruction) {
			b, ok := in.(*ssa.BinOp)
			if !ok || b.Op != token.EQL || !isScrut(b.X) {
				return
			}
			k, ok := constInt(b.Y)
			if !ok {
				return
			}
			for _, e := range condEdges(b) {
				if e.Val {
					out[k] = append(out[k], e.If.Block().Succs[e.Succ])
				}
			}
		})
		return out
	}
	isCmpBlock := func(blk *ssa.BasicBlock, isScrut func(v ssa.Value) bool) bool {
		for _, in := range blk.Instrs {
			if b, ok := in.(*ssa.BinOp); ok && b.Op == token.EQL && isScrut(b.X) {
				return true
			}
		}
		return false
	}
	region := func(start *ssa.BasicBlock, depth int, isScrut func(v ssa.Value) bool) []*ssa.BasicBlock {
		seen := map[*ssa.BasicBlock]bool{start: true}
		out := []*ssa.BasicBlock{start}
		frontier := []*ssa.BasicBlock{start}
		for d := 0; d < depth; d++ {
			var next []*ssa.BasicBlock
			for _, b := range frontier {
				for _, s := range b.Succs {
					if seen[s] || isCmpBlock(s, isScrut) || s.Dominates(start) {
						continue
					}
					seen[s] = true
					out = append(out, s)
					next = append(next, s)
				}
			}
			frontier = next
		}
		return out
	}
	// ---- writer table
	ftParam := ssa.Value(w.Params[1])
	dataParam := ssa.Value(w.Params[0])
	isFT := func(v ssa.Value) bool { return stripValue(v) == ftParam }
	wclass := map[int64]string{}
	for k, bs := range bodies(w, isFT) {
		for _, body := range bs {
			for _, blk := range region(body, 3, isFT) {
				for _, in := range blk.Instrs {
					call, ok := in.(*ssa.Call)
					if !ok {
						continue
					}
					bi, ok := call.Call.Value.(*ssa.Builtin)
					if !ok || bi.Name() != "append" || stripValue(call.Call.Args[0]) != dataParam {
						continue
					}
					arg := stripValue(call.Call.Args[1])
					cls := "?"
					switch x := arg.(type) {
					case *ssa.Slice:
						if hi, ok := constInt(x.High); ok && x.High != nil {
							if _, isArr := x.X.(*ssa.Alloc); !isArr {
								cls = fmt.Sprintf("fixed%d", hi)
							}
						}
						if cls == "?" {
							if arr, ok := x.X.(*ssa.Alloc); ok {
								if pt, ok := arr.Type().Underlying().(*types.Pointer); ok {
									if at, ok := pt.Elem().Underlying().(*types.Array); ok {
										cls = fmt.Sprintf("fixed%d", at.Len()) // append(data, t[0])
									}
								}
							}
						}
					case *ssa.Call:
						if callsFunc(&x.Call, lenencW) {
							cls = "lenenc"
						}
					default:
						cls = "self-prefixed" // append(data, t...) : the value carries its own length byte
					}
					if prev, ok := wclass[k]; ok && prev != cls {
						cls = prev + "|" + cls
					}
					wclass[k] = cls
				}
			}
		}
	}
	// ---- reader table
	isTypeLoad := func(v ssa.Value) bool { return loadedField(resolveLoad(stripValue(v))) == fType }
	rclass := map[int64]string{}
	for k, bs := range bodies(rd, isTypeLoad) {
		for _, body := range bs {
			cls := ""
			set := func(s string) {
				if cls == "" || cls == s {
					cls = s
				} else if !strings.Contains(cls, s) {
					cls = cls + "|" + s
				}
			}
			for _, blk := range region(body, 6, isTypeLoad) {
				for _, in := range blk.Instrs {
					switch x := in.(type) {
					case *ssa.Call:
						if callsFunc(&x.Call, lenencR) {
							set("lenenc")
						}
						if callsFunc(&x.Call, lenInt) {
							set("self-prefixed")
						}
					case *ssa.BinOp:
						if x.Op == token.ADD {
							if n, ok := constInt(x.Y); ok && (n == 1 || n == 2 || n == 4 || n == 8) {
								if _, isPhi := stripValue(x.X).(*ssa.Phi); isPhi && x.Type().Underlying() == types.Typ[types.Int] {
									set(fmt.Sprintf("fixed%d", n))
								}
							}
						}
					}
				}
			}
			if cls != "" {
				rclass[k] = cls
			}
		}
	}
	// the NULL bitmap is per row: the slice whose bits are set for NULL columns is made anew for every row — inside the loop
	// over the rows, or inside a helper that the loop calls once per row
	if bb := c.Func("mysql", "BuildBinaryResultset"); bb != nil {
		bname := c.FuncName(bb)
		nb := 0
		var scan func(fn *ssa.Function, callSite ssa.Instruction, depth int)
		scan = func(fn *ssa.Function, callSite ssa.Instruction, depth int) {
			allInstrs(fn, func(in ssa.Instruction) {
				if st, ok := in.(*ssa.Store); ok {
					ia, ok := st.Addr.(*ssa.IndexAddr)
					if !ok {
						return
					}
					b, ok := st.Val.(*ssa.BinOp)
					if !ok || b.Op != token.OR {
						return
					}
					nb++
					fresh := true
					for _, l := range phiLeaves(ia.X) {
						mk, ok := l.(*ssa.MakeSlice)
						if !ok {
							fresh = false
							continue
						}
						inLoop := blockReachable(st.Block(), mk.Block()) && blockReachable(mk.Block(), st.Block())
						// in a helper: made once per call, and the call itself sits in the row loop of the builder
						perCall := callSite != nil && blockReachable(callSite.Block(), callSite.Block())
						if !inLoop && !perCall {
							fresh = false
						}
					}
					if fresh {
						r.ok(rule, bname, "bitmap:fresh-per-row", c.Pos(st.Pos()), "the NULL bitmap is allocated anew for every row")
					} else {
						r.viol(rule, bname, "bitmap:fresh-per-row", c.Pos(st.Pos()), "the NULL bitmap is allocated once for all rows and never cleared: a column that was NULL in an earlier row is flagged NULL in later rows while its value bytes are still appended")
					}
					return
				}
				if depth == 0 {
					return
				}
				if cc := callCommon(in); cc != nil {
					if h := staticCallee(cc); h != nil && h != fn && h.Pkg == fn.Pkg && len(h.Blocks) > 0 && h.Object() != nil && !h.Object().Exported() {
						scan(h, in, depth-1)
					}
				}
			})
		}
		scan(bb, nil, 1)
		if nb == 0 {
			r.undecided(rule, bname, "bitmap:fresh-per-row", c.Pos(bb.Pos()), "no NULL-bit store found")
		}
	}
	if len(wclass) < 10 || len(rclass) < 10 {
		r.undecided(rule, "mysql", "tables", "-", fmt.Sprintf("could not read the two tables (writer %d types, reader %d types)", len(wclass), len(rclass)))
		return
	}
	var keys []int64
	for k := range wclass {
		keys = append(keys, k)
	}
	for k := range rclass {
		if _, ok := wclass[k]; !ok {
			keys = append(keys, k)
		}
	}
	for i := 1; i < len(keys); i++ {
		for j := i; j > 0 && keys[j] < keys[j-1]; j-- {
			keys[j], keys[j-1] = keys[j-1], keys[j]
		}
	}
	for _, k := range keys {
		nm := fmt.Sprintf("type#%d", k)
		if ns := names[k]; len(ns) > 0 {
			sortStrings(ns)
			nm = strings.Join(ns, "/")
		}
		wc, wok := wclass[k]
		rc, rok := rclass[k]
		cons := "wire-class:" + nm
		// reader classes may contain a self-prefixed read followed by fixed advances inside the temporal decoding; the
		// leading class decides
		rlead := rc
		if strings.Contains(rc, "self-prefixed") {
			rlead = "self-prefixed"
		} else if strings.Contains(rc, "lenenc") {
			rlead = "lenenc"
		}
		switch {
		case wok && rok && wc == rlead:
			r.ok(rule, c.FuncName(w), cons, c.Pos(w.Pos()), fmt.Sprintf("written as %s, read as %s", wc, rlead))
		case wok && rok:
			r.viol(rule, c.FuncName(w), cons, c.Pos(w.Pos()), fmt.Sprintf("AppendBinaryValue writes %s as %s but the repository's binary-row reader ParseBinary reads that type as %s: the value and every later column of the row are decoded wrongly by a client", nm, wc, rlead))
		case wok:
			r.info(rule, c.FuncName(w), cons, c.Pos(w.Pos()), fmt.Sprintf("written as %s; the reader has no case for it", wc))
		default:
			r.info(rule, c.FuncName(rd), cons, c.Pos(rd.Pos()), fmt.Sprintf("read as %s; the writer refuses the type (error instead of a value)", rlead))
		}
	}
}

// ---------------------------------------------------------------------------------------
// C36 — the SQL blacklist: which text is fingerprinted, and by what

func init() {
	register("C36", "Clauses decided (structure of the blacklist decision; that mysql.GetFingerprint itself ignores exactly literals, spacing, case and comments is a language property and is NOT decided): (text) the fingerprint on which a statement's blacklist decision is taken is computed from that statement's own text — the request context memoises the fingerprint, so wherever it is (re)set before a doQuery call the text fingerprinted is the text handed to doQuery (in doMultiStmts: the piece, not the whole packet), and every command starts with a fresh RequestContext; (same) the blacklist keys and the request side are produced by the same composition GetMd5(GetFingerprint(text)) (parseBlackSqls, setContextSQLFingerprint, getSQLFingerprint/getSQLFingerprintMd5), and IsSQLAllowed looks up exactly that MD5; (gate) checkSQLAllowed returns nil only on the allowed edge and dominates execution (shared with C21).",
		ruleC36)
}

func ruleC36(c *Ctx, r *Report) {
	const rule = "MP-C36"
	r.floor(rule, 7)
	setFP := c.Func(serverRel, "setContextSQLFingerprint")
	getFP := c.Func(serverRel, "getSQLFingerprint")
	getMD5 := c.Func(serverRel, "getSQLFingerprintMd5")
	parseBlack := c.Func(serverRel, "parseBlackSqls")
	isAllowed := c.Method(serverRel, "Namespace", "IsSQLAllowed")
	checkAllowed := c.seMethod("checkSQLAllowed")
	doQuery := c.seMethod("doQuery")
	execCmd := c.seMethod("ExecuteCommand")
	fp := c.Func("mysql", "GetFingerprint")
	md5 := c.Func("mysql", "GetMd5")
	newCtx := c.Func("util", "NewRequestContext")
	if setFP == nil || getFP == nil || getMD5 == nil || parseBlack == nil || isAllowed == nil || checkAllowed == nil || doQuery == nil || execCmd == nil || fp == nil || md5 == nil || newCtx == nil {
		r.undecided(rule, serverRel, "anchor", "-", "blacklist / fingerprint helpers not all found")
		return
	}
	// ---- (text) every function that sets the memo and then runs doQuery fingerprints the text it runs
	n := 0
	for _, fn := range c.Funcs {
		if c.IsMockFunc(fn) || fn.Pkg == nil || !strings.HasSuffix(fn.Pkg.Pkg.Path(), serverRel) {
			continue
		}
		sets := callsIn(fn, func(cc *ssa.CallCommon) bool { return callsFunc(cc, setFP) })
		if len(sets) == 0 {
			continue
		}
		qs := callsIn(fn, func(cc *ssa.CallCommon) bool { return callsFunc(cc, doQuery) })
		for i, s := range sets {
			scc := callCommon(s)
			text := scc.Args[len(scc.Args)-1]
			for _, q := range qs {
				if !instrDominates(s, q) {
					continue
				}
				n++
				qcc := callCommon(q)
				cons := fmt.Sprintf("text:fingerprint-of-the-statement-run@%d", i+1)
				if sameVal(text, qcc.Args[len(qcc.Args)-1]) {
					r.ok(rule, c.FuncName(fn), cons, c.Pos(s.Pos()), "the memoised fingerprint is computed from the text handed to doQuery")
				} else {
					r.viol(rule, c.FuncName(fn), cons, c.Pos(s.Pos()), "the request context's fingerprint is set from another text than the statement that is then checked and executed (the whole multi-statement packet instead of the piece): the blacklist lookup of the piece uses the packet's fingerprint, so a blacklisted statement inside a multi-statement query is not rejected")
				}
			}
		}
	}
	if n == 0 {
		r.undecided(rule, serverRel, "text:set-sites", "-", "no setContextSQLFingerprint call followed by doQuery found")
	}
	// a command starts with a fresh context
	{
		nc := callsIn(execCmd, func(cc *ssa.CallCommon) bool { return callsFunc(cc, newCtx) })
		fresh := len(nc) == 1 && nc[0].Block() == execCmd.Blocks[0]
		if fresh {
			r.ok(rule, c.FuncName(execCmd), "text:fresh-context-per-command", c.Pos(nc[0].Pos()), "every command gets a new RequestContext (empty memo)")
		} else {
			r.viol(rule, c.FuncName(execCmd), "text:fresh-context-per-command", c.Pos(execCmd.Pos()), "commands do not start with a new RequestContext: the fingerprint memoised for an earlier statement decides a later statement's blacklist lookup")
		}
	}
	// ---- (same) composition GetMd5(GetFingerprint(text))
	fpOf := func(fn *ssa.Function, v ssa.Value) bool { // v is GetFingerprint(<string param of fn>) possibly via getSQLFingerprint
		for _, l := range phiLeaves(v) {
			call, ok := l.(*ssa.Call)
			if !ok {
				return false
			}
			if callsFunc(&call.Call, fp) || callsFunc(&call.Call, getFP) {
				continue
			}
			// memo getters of the request context are the same value set before
			if f := staticCallee(&call.Call); f != nil && strings.HasPrefix(f.Name(), "GetFingerprint") {
				continue
			}
			return false
		}
		return true
	}
	for _, fn := range []*ssa.Function{parseBlack, setFP, getMD5} {
		name := c.FuncName(fn)
		calls := callsIn(fn, func(cc *ssa.CallCommon) bool { return callsFunc(cc, md5) })
		in := fn
		if len(calls) == 0 {
			// the composition may have been extracted into an unexported helper of the same package
			allInstrs(fn, func(x ssa.Instruction) {
				if cc := callCommon(x); cc != nil {
					if h := staticCallee(cc); h != nil && h.Pkg == fn.Pkg && len(h.Blocks) > 0 && h != fn {
						if hc := callsIn(h, func(cc2 *ssa.CallCommon) bool { return callsFunc(cc2, md5) }); len(hc) == 1 && len(calls) == 0 {
							calls, in = hc, h
						}
					}
				}
			})
		}
		if len(calls) != 1 {
			r.viol(rule, name, "same:md5-of-fingerprint", c.Pos(fn.Pos()), "expected exactly one GetMd5 call")
			continue
		}
		if fpOf(in, callCommon(calls[0]).Args[0]) {
			r.ok(rule, name, "same:md5-of-fingerprint", c.Pos(calls[0].Pos()), "GetMd5 is applied to GetFingerprint(text)")
		} else {
			r.viol(rule, name, "same:md5-of-fingerprint", c.Pos(calls[0].Pos()), "the MD5 is not taken of GetFingerprint(text): blacklist keys and request keys are normalised differently, so variants of a blacklisted statement are not recognised")
		}
	}
	// getSQLFingerprint computes GetFingerprint of its own sql parameter
	{
		name := c.FuncName(getFP)
		calls := callsIn(getFP, func(cc *ssa.CallCommon) bool { return callsFunc(cc, fp) })
		if len(calls) == 1 && stripValue(callCommon(calls[0]).Args[0]) == ssa.Value(getFP.Params[len(getFP.Params)-1]) {
			r.ok(rule, name, "same:fingerprint-of-own-text", c.Pos(calls[0].Pos()), "GetFingerprint is applied to the sql parameter")
		} else {
			r.viol(rule, name, "same:fingerprint-of-own-text", c.Pos(getFP.Pos()), "getSQLFingerprint does not fingerprint its sql parameter")
		}
	}
	// IsSQLAllowed looks up the request MD5 in the blacklist map
	{
		name := c.FuncName(isAllowed)
		fSqls := c.Field(serverRel, "Namespace", "sqls")
		good := false
		allInstrs(isAllowed, func(in ssa.Instruction) {
			lk, ok := in.(*ssa.Lookup)
			if !ok || fSqls == nil || !mapOfField(lk.X, fSqls) {
				return
			}
			if call, ok := stripValue(lk.Index).(*ssa.Call); ok && callsFunc(&call.Call, getMD5) {
				if stripValue(call.Call.Args[len(call.Call.Args)-1]) == ssa.Value(isAllowed.Params[len(isAllowed.Params)-1]) {
					good = true
				}
			}
		})
		if good {
			r.ok(rule, name, "same:lookup-key", c.Pos(isAllowed.Pos()), "the blacklist is looked up with getSQLFingerprintMd5(<the statement>)")
		} else {
			r.viol(rule, name, "same:lookup-key", c.Pos(isAllowed.Pos()), "the blacklist is not looked up with the fingerprint MD5 of the statement being checked")
		}
	}
	// IsSQLAllowed answers `allowed` only for an empty blacklist or a lookup miss
	{
		name := c.FuncName(isAllowed)
		fSqls := c.Field(serverRel, "Namespace", "sqls")
		var okEdges []CondEdge
		allInstrs(isAllowed, func(in ssa.Instruction) {
			switch x := in.(type) {
			case *ssa.BinOp:
				// len(n.sqls) == 0   (or < 1)
				if x.Op == token.EQL || x.Op == token.LSS {
					if k, ok := constInt(x.Y); ok && ((x.Op == token.EQL && k == 0) || (x.Op == token.LSS && k == 1)) {
						if l, ok := stripValue(x.X).(*ssa.Call); ok {
							if bi, ok := l.Call.Value.(*ssa.Builtin); ok && bi.Name() == "len" && fSqls != nil && mapOfField(l.Call.Args[0], fSqls) {
								for _, e := range condEdges(x) {
									if e.Val {
										okEdges = append(okEdges, e)
									}
								}
							}
						}
					}
				}
			case *ssa.Lookup:
				if x.CommaOk && fSqls != nil && mapOfField(x.X, fSqls) {
					for _, e := range commaOkEdges(x) {
						if !e.Val {
							okEdges = append(okEdges, e)
						}
					}
				}
			}
		})
		nt, good := 0, true
		for _, ret := range returnsOf(isAllowed) {
			if b, ok := constBool(ret.Results[0]); ok && !b {
				continue
			}
			// `return !found` where found is the comma-ok of the blacklist lookup: allowed exactly on a miss
			if u, ok := stripValue(ret.Results[0]).(*ssa.UnOp); ok && u.Op == token.NOT {
				if ex, ok := stripValue(u.X).(*ssa.Extract); ok && ex.Index == 1 {
					if lk, ok := ex.Tuple.(*ssa.Lookup); ok && lk.CommaOk && fSqls != nil && mapOfField(lk.X, fSqls) {
						nt++
						continue
					}
				}
			}
			nt++
			dom := false
			for _, e := range okEdges {
				if instrDominatedByEdge(ret, e) {
					dom = true
				}
			}
			if !dom {
				good = false
			}
		}
		if nt > 0 && good {
			r.ok(rule, name, "gate:allowed-only-on-miss", c.Pos(isAllowed.Pos()), "`allowed` is answered only for an empty blacklist or when the fingerprint is not in it")
		} else {
			r.viol(rule, name, "gate:allowed-only-on-miss", c.Pos(isAllowed.Pos()), "IsSQLAllowed can answer `allowed` without having looked the statement's fingerprint up (a pre-check decides by other means that it cannot be blacklisted): variants of a blacklisted statement that the pre-check classifies differently than the fingerprint pass")
		}
	}
	// ---- (gate) checkSQLAllowed returns nil only when the blacklist lookup said `allowed` — directly, or through an
	// unexported helper whose own nil returns are gated that way
	{
		name := c.FuncName(checkAllowed)
		gated := map[*ssa.Function]bool{}
		var isGated func(fn *ssa.Function, depth int) bool
		isGated = func(fn *ssa.Function, depth int) bool {
			if v, ok := gated[fn]; ok {
				return v
			}
			if depth == 0 || len(fn.Blocks) == 0 || errResultIndex(fn.Signature) < 0 {
				return false
			}
			gated[fn] = false
			direct := callsIn(fn, func(cc *ssa.CallCommon) bool { return callsFunc(cc, isAllowed) })
			var viaHelper []*ssa.Call
			allInstrs(fn, func(in ssa.Instruction) {
				if call, ok := in.(*ssa.Call); ok {
					if h := staticCallee(&call.Call); h != nil && h != fn && h.Pkg == fn.Pkg && isGated(h, depth-1) {
						viaHelper = append(viaHelper, call)
					}
				}
			})
			if len(direct) == 0 && len(viaHelper) == 0 {
				return false
			}
			ok := true
			for _, ret := range returnsOf(fn) {
				isNil, known := returnsNilError(ret)
				if known && !isNil {
					continue
				}
				dom := false
				for _, d := range direct {
					if dominatedByCond(ret, d.(ssa.Value), true) {
						dom = true
					}
				}
				for _, h := range viaHelper {
					if dominatedByNilErr(ret, h) {
						dom = true
					}
				}
				// `return helper(...)`: the helper's own verdict is handed on
				if !dom && len(ret.Results) > 0 {
					for _, l := range phiLeaves(ret.Results[len(ret.Results)-1]) {
						if call, ok := l.(*ssa.Call); ok {
							for _, h := range viaHelper {
								if call == h {
									dom = true
								}
							}
						}
					}
				}
				if !dom {
					ok = false
				}
			}
			gated[fn] = ok
			return ok
		}
		if isGated(checkAllowed, 2) {
			r.ok(rule, name, "gate:nil-only-when-allowed", c.Pos(checkAllowed.Pos()), "success is returned only on the IsSQLAllowed()==true edge")
		} else {
			r.viol(rule, name, "gate:nil-only-when-allowed", c.Pos(checkAllowed.Pos()), "checkSQLAllowed can return success for a statement the blacklist matched")
		}
	}
}

// credentialCheckFns: Manager.Check*Password and every function of proxy/server with results (bool, string) that merely
// dispatches to them: each of its returns hands back (#0, #1) of one call to a check function, or (false, "").
func credentialCheckFns(c *Ctx) map[*ssa.Function]bool {
	set := map[*ssa.Function]bool{}
	for _, mname := range []string{"CheckPassword", "CheckHashPassword", "CheckSha2Password"} {
		if f := c.Method(serverRel, "Manager", mname); f != nil {
			set[f] = true
		}
	}
	isPair := func(sig *types.Signature) bool {
		if sig.Results().Len() != 2 {
			return false
		}
		return isBoolType(sig.Results().At(0).Type()) && isStringType(sig.Results().At(1).Type())
	}
	for changed := true; changed; {
		changed = false
		for _, fn := range c.Funcs {
			if set[fn] || fn.Pkg == nil || !strings.HasSuffix(fn.Pkg.Pkg.Path(), serverRel) || !isPair(fn.Signature) || len(fn.Blocks) == 0 || c.IsMockFunc(fn) {
				continue
			}
			if fn.Signature.Recv() != nil && namedOf(fn.Signature.Recv().Type()) != nil && namedOf(fn.Signature.Recv().Type()).Obj().Name() == "UserManager" {
				continue // the primitive checks themselves are judged by MP-C30
			}
			okAll, any := true, false
			for _, ret := range returnsOf(fn) {
				v0, z0 := retValues(ret, 0)
				v1, z1 := retValues(ret, 1)
				if z0 || z1 || len(v0) == 0 || len(v1) == 0 {
					okAll = false
					continue
				}
				for _, a := range v0 {
					for _, l := range phiLeaves(a) {
						if b, ok := constBool(l); ok && !b {
							continue
						}
						ex, ok := l.(*ssa.Extract)
						if !ok || ex.Index != 0 {
							okAll = false
							continue
						}
						call, ok := ex.Tuple.(*ssa.Call)
						if !ok || !set[staticCallee(&call.Call)] {
							okAll = false
							continue
						}
						any = true
					}
				}
				for _, a := range v1 {
					for _, l := range phiLeaves(a) {
						if s, ok := constString(l); ok && s == "" {
							continue
						}
						ex, ok := l.(*ssa.Extract)
						if !ok || ex.Index != 1 {
							okAll = false
							continue
						}
						call, ok := ex.Tuple.(*ssa.Call)
						if !ok || !set[staticCallee(&call.Call)] {
							okAll = false
						}
					}
				}
			}
			if okAll && any {
				set[fn] = true
				changed = true
			}
		}
	}
	return set
}

// ---------------------------------------------------------------------------------------
// concrete evaluation of the per-byte escape decision (finite domain: 256 bytes x 2 modes)

type cevalCtx struct {
	c     *Ctx
	depth int
}

// cevalFn evaluates a module function whose arguments are all constants; returns its results as constants.
func (ce *cevalCtx) cevalFn(fn *ssa.Function, args []constant.Value) ([]constant.Value, bool) {
	if ce.depth > 3 || len(fn.Blocks) == 0 || len(args) != len(fn.Params) {
		return nil, false
	}
	env := map[ssa.Value]constant.Value{}
	for i, p := range fn.Params {
		env[p] = args[i]
	}
	ce.depth++
	defer func() { ce.depth-- }()
	_, res, ok := ce.run(fn.Blocks[0], 0, nil, env, nil)
	return res, ok
}

// run executes from block b at instruction index `from`. emit is called for every element appended by an `append`
// builtin (value known or not); when emit returns false execution stops successfully. Returns the results of a Return.
func (ce *cevalCtx) run(b *ssa.BasicBlock, from int, prev *ssa.BasicBlock, env map[ssa.Value]constant.Value, emit func(v ssa.Value, k constant.Value, known bool) bool) (stopped bool, results []constant.Value, ok bool) {
	get := func(v ssa.Value) (constant.Value, bool) {
		v = stripValue(v)
		if k, ok := v.(*ssa.Const); ok {
			if k.Value == nil {
				return nil, false
			}
			return k.Value, true
		}
		x, ok := env[v]
		return x, ok
	}
	tuples := map[ssa.Value][]constant.Value{}
	for steps := 0; steps < 2000; steps++ {
		var next *ssa.BasicBlock
		for i := from; i < len(b.Instrs); i++ {
			switch x := b.Instrs[i].(type) {
			case *ssa.Phi:
				for j, p := range b.Preds {
					if p == prev {
						if v, ok := get(x.Edges[j]); ok {
							env[x] = v
						}
					}
				}
			case *ssa.BinOp:
				a, ok1 := get(x.X)
				bb, ok2 := get(x.Y)
				if !ok1 || !ok2 {
					continue
				}
				switch x.Op {
				case token.EQL, token.NEQ, token.LSS, token.LEQ, token.GTR, token.GEQ:
					env[x] = constant.MakeBool(constant.Compare(a, x.Op, bb))
				case token.ADD, token.SUB, token.MUL, token.AND, token.OR, token.XOR:
					if a.Kind() == constant.Bool {
						continue
					}
					env[x] = constant.BinaryOp(a, x.Op, bb)
				}
			case *ssa.UnOp:
				if x.Op == token.NOT {
					if a, ok := get(x.X); ok {
						env[x] = constant.MakeBool(!constant.BoolVal(a))
					}
				}
			case *ssa.Convert:
				if a, ok := get(x.X); ok && a.Kind() == constant.Int {
					env[x] = a
				}
			case *ssa.Extract:
				if t, ok := tuples[x.Tuple]; ok && x.Index < len(t) && t[x.Index] != nil {
					env[x] = t[x.Index]
				}
			case *ssa.Call:
				if bi, ok := x.Call.Value.(*ssa.Builtin); ok {
					if bi.Name() == "append" && emit != nil && len(x.Call.Args) == 2 {
						for _, el := range variadicElems(x.Call.Args[1]) {
							k, known := get(el)
							if !emit(stripValue(el), k, known) {
								return true, nil, true
							}
						}
					}
					continue
				}
				h := staticCallee(&x.Call)
				if h == nil || !ce.c.InModule(h) {
					continue
				}
				var args []constant.Value
				all := true
				for _, a := range x.Call.Args {
					k, ok := get(a)
					if !ok {
						all = false
						break
					}
					args = append(args, k)
				}
				if !all {
					continue
				}
				if res, ok := ce.cevalFn(h, args); ok {
					if len(res) == 1 {
						env[x] = res[0]
					}
					tuples[x] = res
				}
			case *ssa.If:
				cv, ok := get(x.Cond)
				if !ok || cv.Kind() != constant.Bool {
					return false, nil, false
				}
				if constant.BoolVal(cv) {
					next = b.Succs[0]
				} else {
					next = b.Succs[1]
				}
			case *ssa.Jump:
				next = b.Succs[0]
			case *ssa.Return:
				var res []constant.Value
				for _, rv := range x.Results {
					k, ok := get(rv)
					if !ok {
						res = append(res, nil)
					} else {
						res = append(res, k)
					}
				}
				return false, res, true
			case *ssa.Panic:
				return false, nil, false
			}
		}
		if next == nil {
			return false, nil, false
		}
		prev, b, from = b, next, 0
	}
	return false, nil, false
}

// escapeTable evaluates, for every byte value and both values of the mode parameter, which constant bytes one iteration of
// esc's loop appends before it appends the byte itself. ok=false when the loop does not have a shape the evaluator can run.
func escapeTable(c *Ctx, esc *ssa.Function, modeParam *ssa.Parameter) (table [2][256][]byte, ok bool) {
	// the element: a byte loaded from (a conversion of) the text parameter inside a loop
	var elem ssa.Value
	var at ssa.Instruction
	textP := ssa.Value(esc.Params[0])
	allInstrs(esc, func(in ssa.Instruction) {
		if elem != nil {
			return
		}
		switch x := in.(type) {
		case *ssa.UnOp:
			if x.Op != token.MUL {
				return
			}
			ia, ok := x.X.(*ssa.IndexAddr)
			if !ok {
				return
			}
			base := stripValue(ia.X)
			if cv, ok := base.(*ssa.Convert); ok && stripValue(cv.X) == textP {
				elem, at = x, in
			}
		case *ssa.Lookup:
			if stripValue(x.X) == textP && isStringType(x.X.Type()) {
				elem, at = x, in
			}
		case *ssa.Index:
			if stripValue(x.X) == textP {
				elem, at = x, in
			}
		}
	})
	if elem == nil {
		return table, false
	}
	ce := &cevalCtx{c: c}
	for m := 0; m < 2; m++ {
		for b := 0; b < 256; b++ {
			env := map[ssa.Value]constant.Value{elem: constant.MakeInt64(int64(b))}
			if modeParam != nil {
				env[modeParam] = constant.MakeBool(m == 1)
			}
			var prefix []byte
			sawElem := false
			good := true
			stopped, _, okRun := ce.run(at.Block(), instrIndex(at)+1, nil, env, func(v ssa.Value, k constant.Value, known bool) bool {
				if v == elem {
					sawElem = true
					return false
				}
				if !known || k.Kind() != constant.Int {
					good = false
					return false
				}
				n, _ := constant.Int64Val(k)
				prefix = append(prefix, byte(n))
				return true
			})
			if !okRun || !stopped || !sawElem || !good {
				return table, false
			}
			table[m][b] = prefix
		}
	}
	return table, true
}

// hofDelegation describes `func (u) Check(user, salt, auth) (bool, string) { return u.h(user, func(c string) bool {…}) }`.
type hofDelegation struct {
	fn      *ssa.Function // the exported check
	h       *ssa.Function // package-private helper holding the candidate loop
	call    *ssa.Call
	lit     *ssa.Function // the function literal
	mc      *ssa.MakeClosure
	litIdx  int // index of the literal among h's parameters
	userIdx int // index of h's parameter that receives fn's user parameter (-1: none)
}

// hofDelegationOf recognises the delegation: every return of fn hands back results #0,#1 of one call to a
// package-private module function that receives a function literal of fn.
func hofDelegationOf(c *Ctx, fn *ssa.Function) *hofDelegation {
	rets := returnsOf(fn)
	if len(rets) != 1 || len(fn.Params) < 2 {
		return nil
	}
	v0, z0 := retValues(rets[0], 0)
	v1, z1 := retValues(rets[0], 1)
	if z0 || z1 || len(v0) != 1 || len(v1) != 1 {
		return nil
	}
	e0, ok0 := stripValue(v0[0]).(*ssa.Extract)
	e1, ok1 := stripValue(v1[0]).(*ssa.Extract)
	if !ok0 || !ok1 || e0.Tuple != e1.Tuple || e0.Index != 0 || e1.Index != 1 {
		return nil
	}
	call, ok := e0.Tuple.(*ssa.Call)
	if !ok {
		return nil
	}
	h := staticCallee(&call.Call)
	if h == nil || !c.InModule(h) || len(h.Blocks) == 0 || h.Object() == nil || h.Object().Exported() {
		return nil
	}
	d := &hofDelegation{fn: fn, h: h, call: call, litIdx: -1, userIdx: -1}
	for k, a := range call.Call.Args {
		if k >= len(h.Params) {
			break
		}
		if mc, ok := stripValue(a).(*ssa.MakeClosure); ok {
			if lit, _ := mc.Fn.(*ssa.Function); lit != nil && lit.Parent() == fn {
				d.lit, d.mc, d.litIdx = lit, mc, k
			}
		}
		if d.capturedIn(fn, a) == ssa.Value(fn.Params[1]) {
			d.userIdx = k
		}
	}
	if d.lit == nil {
		return nil
	}
	return d
}

// capturedIn resolves v inside f to the parameter it is a copy of: the parameter itself, or a load of the cell a
// captured parameter was spilled to (stored once, at entry, from the parameter).
func (d *hofDelegation) capturedIn(f *ssa.Function, v ssa.Value) ssa.Value {
	v = stripValue(v)
	if u, ok := v.(*ssa.UnOp); ok && u.Op == token.MUL {
		if cell, ok := u.X.(*ssa.Alloc); ok {
			var stores []*ssa.Store
			for _, ref := range *cell.Referrers() {
				if st, ok := ref.(*ssa.Store); ok && st.Addr == ssa.Value(cell) {
					stores = append(stores, st)
				}
			}
			if len(stores) == 1 {
				if p, ok := stores[0].Val.(*ssa.Parameter); ok {
					return p
				}
			}
		}
	}
	return v
}

// captured resolves a value inside the literal to fn's parameter it reads: *freevar whose binding is the cell fn's
// parameter was spilled to (never stored again), or a freevar bound to the parameter itself.
func (d *hofDelegation) captured(v ssa.Value) ssa.Value {
	v = stripValue(v)
	var fv *ssa.FreeVar
	deref := false
	switch x := v.(type) {
	case *ssa.FreeVar:
		fv = x
	case *ssa.UnOp:
		if x.Op == token.MUL {
			fv, _ = x.X.(*ssa.FreeVar)
			deref = true
		}
	}
	if fv == nil {
		return v
	}
	for i, f := range d.lit.FreeVars {
		if f != fv || i >= len(d.mc.Bindings) {
			continue
		}
		b := stripValue(d.mc.Bindings[i])
		if !deref {
			return b
		}
		cell, ok := b.(*ssa.Alloc)
		if !ok {
			return v
		}
		var stores []*ssa.Store
		escapes := false
		for _, ref := range *cell.Referrers() {
			switch y := ref.(type) {
			case *ssa.Store:
				if y.Addr == ssa.Value(cell) {
					stores = append(stores, y)
				} else {
					escapes = true
				}
			case *ssa.UnOp, *ssa.MakeClosure, *ssa.DebugRef:
			default:
				escapes = true
			}
		}
		// the literal itself must not assign the captured variable
		allInstrs(d.lit, func(in ssa.Instruction) {
			if st, ok := in.(*ssa.Store); ok && st.Addr == ssa.Value(fv) {
				escapes = true
			}
		})
		if !escapes && len(stores) == 1 {
			if p, ok := stores[0].Val.(*ssa.Parameter); ok {
				return p
			}
		}
	}
	return v
}

// derivedOnlyFrom: v is base (accepted by isBase) possibly converted or sliced.
func derivedOnlyFrom(v ssa.Value, isBase func(ssa.Value) bool, depth int) bool {
	v = stripValue(v)
	if isBase(v) {
		return true
	}
	if depth == 0 {
		return false
	}
	switch x := v.(type) {
	case *ssa.Convert:
		return derivedOnlyFrom(x.X, isBase, depth-1)
	case *ssa.Slice:
		return derivedOnlyFrom(x.X, isBase, depth-1)
	case *ssa.ChangeType:
		return derivedOnlyFrom(x.X, isBase, depth-1)
	}
	return false
}

// trueImplies decides that a bool function answers true only as the value of an atom (isAtom) or on a path dominated by
// an atom's true edge; "" when it does, otherwise what is wrong.
func trueImplies(f *ssa.Function, isAtom func(v ssa.Value) bool) string {
	var atoms []ssa.Value
	allInstrs(f, func(in ssa.Instruction) {
		if v, ok := in.(ssa.Value); ok && isAtom(v) {
			atoms = append(atoms, v)
		}
	})
	underAtom := func(b *ssa.BasicBlock) bool {
		for _, a := range atoms {
			var es []CondEdge
			for _, e := range condEdges(a) {
				if e.Val {
					es = append(es, e)
				}
			}
			if len(es) > 0 && edgesDominate(f, es, b) {
				return true
			}
		}
		return false
	}
	bad := ""
	seen := map[ssa.Value]bool{}
	var walk func(v ssa.Value, at *ssa.BasicBlock)
	walk = func(v ssa.Value, at *ssa.BasicBlock) {
		v = stripValue(v)
		if isAtom(v) {
			return
		}
		if b, ok := constBool(v); ok {
			if b && !underAtom(at) {
				bad = "true is answered on a path on which the full equality test did not succeed"
			}
			return
		}
		if underAtom(at) {
			return
		}
		switch x := v.(type) {
		case *ssa.Phi:
			if seen[x] {
				return
			}
			seen[x] = true
			for i, e := range x.Edges {
				walk(e, x.Block().Preds[i])
			}
			return
		case *ssa.UnOp:
			if x.Op == token.MUL {
				if cell, ok := x.X.(*ssa.Alloc); ok {
					if sts, _, ok := reachingStores(cell, x); ok && len(sts) > 0 {
						for _, st := range sts {
							walk(st.Val, st.Block())
						}
						return
					}
				}
			}
		}
		bad = "the answer is computed from something other than the full equality test between the response and the scramble of (salt, candidate)"
	}
	for _, ret := range returnsOf(f) {
		if len(ret.Results) > 0 {
			walk(ret.Results[0], ret.Block())
		}
	}
	return bad
}

// isStarGate: the call tests that its candidate argument starts with '*': strings.HasPrefix(cand, "*"), or a
// package-private bool helper of one string parameter that answers true only under such a test (HasPrefix or
// param[0] == '*') on its parameter.
func isStarGate(c *Ctx, call *ssa.Call, isCand func(v ssa.Value) bool) bool {
	f := staticCallee(&call.Call)
	if f == nil {
		return false
	}
	star := func(v ssa.Value) bool {
		if s, ok := constString(v); ok {
			return s == "*"
		}
		return false
	}
	if f.Pkg != nil && f.Pkg.Pkg.Path() == "strings" && f.Name() == "HasPrefix" && len(call.Call.Args) == 2 {
		return isCand(call.Call.Args[0]) && star(call.Call.Args[1])
	}
	if !c.InModule(f) || len(f.Blocks) == 0 || len(f.Params) != 1 || len(call.Call.Args) != 1 || !isCand(call.Call.Args[0]) || f.Signature.Results().Len() != 1 {
		return false
	}
	p := ssa.Value(f.Params[0])
	atom := func(v ssa.Value) bool {
		switch x := v.(type) {
		case *ssa.Call:
			g := staticCallee(&x.Call)
			return g != nil && g.Pkg != nil && g.Pkg.Pkg.Path() == "strings" && g.Name() == "HasPrefix" && len(x.Call.Args) == 2 && stripValue(x.Call.Args[0]) == p && star(x.Call.Args[1])
		case *ssa.BinOp:
			if x.Op != token.EQL {
				return false
			}
			a, b := stripValue(x.X), stripValue(x.Y)
			if _, isC := a.(*ssa.Const); isC {
				a, b = b, a
			}
			var base, index ssa.Value
			switch lk := a.(type) {
			case *ssa.Lookup:
				base, index = lk.X, lk.Index
			case *ssa.Index:
				base, index = lk.X, lk.Index
			default:
				return false
			}
			if stripValue(base) != p {
				return false
			}
			i, ok1 := constInt(index)
			k, ok2 := constInt(b)
			return ok1 && ok2 && i == 0 && k == '*'
		}
		return false
	}
	return trueImplies(f, atom) == ""
}
