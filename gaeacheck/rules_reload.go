package main

import (
	"fmt"
	"go/token"
	"go/types"

	"golang.org/x/tools/go/ssa"
)

// Structural clauses for two properties whose full statements quantify over histories (C31 interleavings of
// prepare/commit/delete, C37 tick arithmetic): the parts whose truth is visible in the shape of the code.

func init() {
	register("C31", "Clauses decided (gates of the two-slot reload; the interleaving statement itself is not decided): (a) a commit without a pending prepare fails: every nil-error return of Manager.ReloadNamespaceCommit, and its switch of the active slot, are dominated by reloadPrepared.CompareAndSwap(true,false)==true; (b) a prepare always parks a configuration built from the configuration it was given: every nil-error return of ReloadNamespacePrepare is dominated by the nil-error edge of RebuildNamespace(<its parameter>), and passes the stores into namespaces[other]/users[other] and reloadPrepared.Set(true); (c) the active slot changes only in commit and delete (who-may-write on switchIndex); (d) whoever overwrites the inactive slot without being the prepare itself invalidates a pending prepare (reloadPrepared.Set(false)) before returning — otherwise a later commit switches to a slot that no longer holds what was prepared. Sessions observing one complete generation and all other interleavings are not covered.",
		ruleC31)
	// the prepare/commit gates are also what C32 needs from each proxy ("every registered proxy runs the new configuration")
	register("C32", "", ruleC31gatesOnly)
	register("C37", "Clauses decided (structure of the idle timer; tick/round arithmetic is not decided): (a) the wheel's state (buckets, bucketIndexes, currentIndex) is touched only by functions that run on the wheel goroutine (callers frozen; Add/Remove/Stop only send on the pipeline); (b) re-registration replaces: in (*TimeWheel).add an existing key is deleted from its old bucket before it is stored again, so an older registration cannot fire after activity was recorded; (c) remove deletes the key from both maps; (d) fire once, then forget: in handleTick a callback is started only on the round==0 path and every path that starts it deletes the key from the bucket and the index; (e) every command records activity: in Session.Run every path from a successful read to execCommand passes tw.Add, and the deferred exit handler removes the session from the timer. 'No earlier than the timeout / no later than one tick' and the 4096-slot pipeline dropping refreshes under load are not covered.",
		ruleC37)
}

func ruleC31(c *Ctx, r *Report)          { ruleC31impl(c, r, true) }
func ruleC31gatesOnly(c *Ctx, r *Report) { ruleC31impl(c, r, false) }

func ruleC31impl(c *Ctx, r *Report, slots bool) {
	const rule = "MP-C31"
	if slots {
		r.floor(rule, 7)
	} else {
		r.floor(rule, 5)
	}
	prep := c.Method(serverRel, "Manager", "ReloadNamespacePrepare")
	commit := c.Method(serverRel, "Manager", "ReloadNamespaceCommit")
	preparedF := c.Field(serverRel, "Manager", "reloadPrepared")
	switchF := c.Field(serverRel, "Manager", "switchIndex")
	nsF := c.Field(serverRel, "Manager", "namespaces")
	usersF := c.Field(serverRel, "Manager", "users")
	if prep == nil || commit == nil || preparedF == nil || switchF == nil || nsF == nil || usersF == nil {
		r.undecided(rule, "(*proxy/server.Manager)", "anchor", "-", "reload functions or fields not found")
		return
	}
	onField := func(cc *ssa.CallCommon, f *types.Var, names ...string) bool {
		k := cc.StaticCallee()
		if k == nil || len(cc.Args) == 0 || fieldOfAddr(cc.Args[0]) != f {
			return false
		}
		for _, n := range names {
			if k.Name() == n {
				return true
			}
		}
		return false
	}
	// (a) commit
	cn := c.FuncName(commit)
	var casTrue []CondEdge
	for _, ci := range callsIn(commit, func(cc *ssa.CallCommon) bool { return onField(cc, preparedF, "CompareAndSwap") }) {
		call := ci.(*ssa.Call)
		if a, ok := constBool(call.Call.Args[1]); !ok || !a {
			continue
		}
		if b, ok := constBool(call.Call.Args[2]); !ok || b {
			continue
		}
		for _, e := range condEdges(call) {
			if e.Val {
				casTrue = append(casTrue, e)
			}
		}
	}
	n := 0
	for _, ret := range returnsOf(commit) {
		isNil, known := returnsNilError(ret)
		if known && !isNil {
			continue
		}
		n++
		cons := fmt.Sprintf("commit-success#%d", n)
		if edgesDominate(commit, casTrue, ret.Block()) {
			r.ok(rule, cn, cons, c.Pos(exitPos(ret)), "dominated by reloadPrepared.CompareAndSwap(true,false)==true")
		} else {
			r.viol(rule, cn, cons, c.Pos(exitPos(ret)), "a commit can succeed although nothing was prepared (or the prepared flag is not consumed): it activates whatever the inactive slot holds")
		}
	}
	for _, ci := range callsIn(commit, func(cc *ssa.CallCommon) bool { return onField(cc, switchF, "Set") }) {
		if edgesDominate(commit, casTrue, ci.Block()) {
			r.ok(rule, cn, "switch-active-slot", c.Pos(ci.Pos()), "the active slot is switched only after the prepared flag was consumed")
		} else {
			r.viol(rule, cn, "switch-active-slot", c.Pos(ci.Pos()), "the active slot can be switched without a consumed prepare")
		}
	}
	if n == 0 {
		r.undecided(rule, cn, "commit-success", c.Pos(commit.Pos()), "no success return")
	}
	// (b) prepare
	pn := c.FuncName(prep)
	var cfgParam *ssa.Parameter
	if len(prep.Params) >= 2 {
		cfgParam = prep.Params[1]
	}
	var rebuildNil []CondEdge
	for _, ci := range callsIn(prep, func(cc *ssa.CallCommon) bool {
		k := cc.StaticCallee()
		return k != nil && k.Name() == "RebuildNamespace" && len(cc.Args) >= 2 && stripValue(cc.Args[1]) == ssa.Value(cfgParam)
	}) {
		if call, ok := ci.(*ssa.Call); ok {
			for _, e := range errNilEdgesOfCall(call) {
				if e.Val {
					rebuildNil = append(rebuildNil, e)
				}
			}
		}
	}
	isSlotStore := func(in ssa.Instruction, f *types.Var) bool {
		st, ok := in.(*ssa.Store)
		if !ok {
			return false
		}
		ia, ok := st.Addr.(*ssa.IndexAddr)
		return ok && fieldOfAddr(ia.X) == f
	}
	k := 0
	for _, ret := range returnsOf(prep) {
		isNil, known := returnsNilError(ret)
		if known && !isNil {
			continue
		}
		k++
		cons := fmt.Sprintf("prepare-success#%d", k)
		if !edgesDominate(prep, rebuildNil, ret.Block()) {
			r.viol(rule, pn, cons+":built-from-given-config", c.Pos(exitPos(ret)), "a prepare can report success without having rebuilt the namespace from the configuration it was given: the next commit activates something else (for example a stale parked configuration)")
		} else {
			r.ok(rule, pn, cons+":built-from-given-config", c.Pos(exitPos(ret)), "dominated by RebuildNamespace(<given configuration>)==nil")
		}
		for _, what := range []struct {
			label string
			pred  func(in ssa.Instruction) bool
		}{
			{"parks-namespaces", func(in ssa.Instruction) bool { return isSlotStore(in, nsF) }},
			{"parks-users", func(in ssa.Instruction) bool { return isSlotStore(in, usersF) }},
			{"sets-prepared", func(in ssa.Instruction) bool {
				cc := callCommon(in)
				if cc == nil || !onField(cc, preparedF, "Set") {
					return false
				}
				b, ok := constBool(cc.Args[1])
				return ok && b
			}},
		} {
			mn, _ := countOnPaths(prep, ret, what.pred)
			if mn >= 1 {
				r.ok(rule, pn, cons+":"+what.label, c.Pos(exitPos(ret)), "on every path to this success return")
			} else {
				r.viol(rule, pn, cons+":"+what.label, c.Pos(exitPos(ret)), "a successful prepare does not always do this step: the following commit activates an incomplete or stale slot")
			}
		}
	}
	if k == 0 {
		r.undecided(rule, pn, "prepare-success", c.Pos(prep.Pos()), "no success return")
	}
	if !slots {
		return
	}
	// (c) writers of switchIndex, (d) writers of the slots
	del := c.Method(serverRel, "Manager", "DeleteNamespace")
	allowedSwitch := map[*ssa.Function]string{commit: "commit", del: "delete"}
	for _, s := range c.callSites(func(cc *ssa.CallCommon) bool { return onField(cc, switchF, "Set") }) {
		if why, ok := allowedVia(c, allowedSwitch, s.Fn); ok && s.Fn != nil {
			r.ok(rule, c.FuncName(s.Fn), "writes:switchIndex", c.Pos(s.In.Pos()), why)
		} else if isFreshAlloc(rootOfAddr(callCommon(s.In).Args[0])) {
			r.ok(rule, c.FuncName(s.Fn), "writes:switchIndex(new manager)", c.Pos(s.In.Pos()), "constructor")
		} else {
			r.viol(rule, c.FuncName(s.Fn), "writes:switchIndex", c.Pos(s.In.Pos()), "the active configuration slot is switched outside commit/delete")
		}
	}
	for _, fn := range c.Funcs {
		if c.IsMockFunc(fn) || fn == prep {
			continue
		}
		var first ssa.Instruction
		allInstrs(fn, func(in ssa.Instruction) {
			if first == nil && isSlotStore(in, nsF) {
				st := in.(*ssa.Store)
				root := rootOfAddr(st.Addr)
				fresh := isFreshAlloc(root)
				if call, ok := root.(*ssa.Call); ok {
					if k := call.Call.StaticCallee(); k != nil && (len(k.Name()) > 3 && (k.Name()[:3] == "New" || k.Name()[:3] == "new")) {
						fresh = true // manager under construction, not yet published
					}
				}
				if !fresh {
					first = in
				}
			}
		})
		if first == nil {
			continue
		}
		name := c.FuncName(fn)
		exits := searchExits(fn, first, nil, SearchOpts{Stop: func(in ssa.Instruction) bool {
			cc := callCommon(in)
			if cc == nil || !onField(cc, preparedF, "Set", "CompareAndSwap") {
				return false
			}
			return true
		}})
		resetBefore := false
		for _, ci := range callsIn(fn, func(cc *ssa.CallCommon) bool { return onField(cc, preparedF, "Set") }) {
			if b, ok := constBool(callCommon(ci).Args[1]); ok && !b && instrDominates(ci, first) {
				resetBefore = true
			}
		}
		if resetBefore {
			r.ok(rule, name, "slot-overwrite-invalidates-prepare", c.Pos(first.Pos()), "the prepared flag is reset before the inactive slot is overwritten")
		} else if len(exits) == 0 {
			r.ok(rule, name, "slot-overwrite-invalidates-prepare", c.Pos(first.Pos()), "after overwriting the inactive slot the prepared flag is reset on every path")
		} else {
			r.viol(rule, name, "slot-overwrite-invalidates-prepare", c.Pos(first.Pos()), "the inactive slot is overwritten while a prepare may be pending and the prepared flag is left set: prepare(A); "+fn.Name()+"(B); commit(A) switches to a slot that does not hold A's prepared configuration (B's change is undone, A's is lost)", c.pathStrings(exits[0])...)
		}
	}
}

func ruleC37(c *Ctx, r *Report) {
	const rule = "MP-C37"
	r.floor(rule, 8)
	tw := func(n string) *ssa.Function { return c.Method("util", "TimeWheel", n) }
	add, remove, tick, start := tw("add"), tw("remove"), tw("handleTick"), tw("start")
	bucketsF := c.Field("util", "TimeWheel", "buckets")
	idxF := c.Field("util", "TimeWheel", "bucketIndexes")
	curF := c.Field("util", "TimeWheel", "currentIndex")
	if add == nil || remove == nil || tick == nil || start == nil || bucketsF == nil || idxF == nil || curF == nil {
		r.undecided(rule, "util.TimeWheel", "anchor", "-", "TimeWheel functions or fields not found")
		return
	}
	// (a) state is only touched on the wheel goroutine
	onWheel := map[*ssa.Function]bool{add: true, remove: true, tick: true, tw("calculateIndex"): true, tw("calculateRound"): true}
	for _, f := range []*types.Var{bucketsF, idxF, curF} {
		var bad []string
		nuse := 0
		for _, u := range c.fieldUses(f) {
			if isFreshAlloc(rootOfAddr(u.FA)) {
				continue
			}
			root := u.Fn
			for root.Parent() != nil {
				root = root.Parent()
			}
			if root.Name() == "NewTimeWheel" {
				continue
			}
			nuse++
			if !onWheel[u.Fn] {
				bad = append(bad, c.FuncName(u.Fn))
			}
		}
		if nuse == 0 {
			r.undecided(rule, "util.TimeWheel", "state:"+f.Name(), "-", "no access")
		} else if len(bad) == 0 {
			r.ok(rule, "util.TimeWheel", "state:"+f.Name(), "-", "only touched by add/remove/handleTick/calculate* (wheel goroutine)")
		} else {
			r.viol(rule, "util.TimeWheel", "state:"+f.Name(), "-", "wheel state touched outside the wheel goroutine's functions: "+fmt.Sprint(bad))
		}
	}
	for fn := range onWheel {
		if fn == nil {
			continue
		}
		for _, s := range c.callSites(func(cc *ssa.CallCommon) bool { return callsFunc(cc, fn) }) {
			_, isGo := s.In.(*ssa.Go)
			if (s.Fn == start || onWheel[s.Fn]) && !isGo {
				r.ok(rule, c.FuncName(s.Fn), "calls:"+fn.Name()+"@"+branchLabel(c, s.In), c.Pos(s.In.Pos()), "on the wheel goroutine")
			} else {
				r.viol(rule, c.FuncName(s.Fn), "calls:"+fn.Name(), c.Pos(s.In.Pos()), "a wheel-state function is called from outside the wheel goroutine")
			}
		}
	}
	// (b) add: existing key is deleted from the old bucket before being stored again
	an := c.FuncName(add)
	isDeleteOn := func(in ssa.Instruction, f *types.Var) bool {
		call, ok := in.(*ssa.Call)
		if !ok {
			return false
		}
		b, ok := call.Call.Value.(*ssa.Builtin)
		if !ok || b.Name() != "delete" {
			return false
		}
		m := call.Call.Args[0]
		if loadedField(m) == f {
			return true
		}
		// buckets[i] : load of IndexAddr on load of field
		if ld, ok := m.(*ssa.UnOp); ok {
			if ia, ok := ld.X.(*ssa.IndexAddr); ok && loadedField(ia.X) == f {
				return true
			}
		}
		return false
	}
	nb := 0
	allInstrs(add, func(in ssa.Instruction) {
		lk, ok := in.(*ssa.Lookup)
		if !ok || !lk.CommaOk || loadedField(lk.X) != idxF {
			return
		}
		for _, e := range commaOkEdges(lk) {
			if !e.Val {
				continue
			}
			nb++
			exits := searchExits(add, nil, e.If.Block().Succs[e.Succ], SearchOpts{Stop: func(x ssa.Instruction) bool { return isDeleteOn(x, bucketsF) }})
			// and the delete must come before the new store
			if len(exits) == 0 {
				r.ok(rule, an, "existing-key->delete-old-entry", c.Pos(lk.Pos()), "a key that is already registered is removed from its old bucket before it is stored again")
			} else {
				r.viol(rule, an, "existing-key->delete-old-entry", c.Pos(lk.Pos()), "re-registering a key leaves its older entry in the wheel: the session is closed by the older registration although activity was recorded since")
			}
		}
	})
	if nb == 0 {
		r.viol(rule, an, "existing-key->delete-old-entry", c.Pos(add.Pos()), "add does not look for an existing registration of the key")
	}
	// (c) remove deletes from both maps
	rn := c.FuncName(remove)
	for _, f := range []*types.Var{idxF, bucketsF} {
		found := false
		allInstrs(remove, func(in ssa.Instruction) {
			if isDeleteOn(in, f) {
				found = true
			}
		})
		if found {
			r.ok(rule, rn, "deletes:"+f.Name(), c.Pos(remove.Pos()), "removal clears the key")
		} else {
			r.viol(rule, rn, "deletes:"+f.Name(), c.Pos(remove.Pos()), "removing a session from the timer leaves its entry in "+f.Name()+": it is still closed by the old registration")
		}
	}
	// (d) handleTick: fire only when round is not positive; then delete from both
	tn := c.FuncName(tick)
	ng := 0
	allInstrs(tick, func(in ssa.Instruction) {
		g, ok := in.(*ssa.Go)
		if !ok {
			return
		}
		ng++
		// started only when the entry's remaining rounds are not positive
		roundOK := false
		allInstrs(tick, func(x ssa.Instruction) {
			b, ok := x.(*ssa.BinOp)
			if !ok || b.Op != token.GTR || !isIntConst(b.Y, 0) {
				return
			}
			if f := loadedField(b.X); f == nil || f.Name() != "round" {
				return
			}
			if dominatedByCond(g, b, false) {
				roundOK = true
			}
		})
		if roundOK {
			r.ok(rule, tn, "fire-only-when-rounds-exhausted", c.Pos(g.Pos()), "the callback is started only on the path where the entry's round counter is not positive")
		} else {
			r.viol(rule, tn, "fire-only-when-rounds-exhausted", c.Pos(g.Pos()), "the callback can be started while the entry still has rounds to wait: the session is closed before its timeout")
		}
		for _, f := range []*types.Var{idxF, bucketsF} {
			exits := searchExits(tick, g, nil, SearchOpts{Stop: func(x ssa.Instruction) bool { return isDeleteOn(x, f) || x == ssa.Instruction(g) }})
			again := false
			searchExits(tick, g, nil, SearchOpts{Stop: func(x ssa.Instruction) bool {
				if x == ssa.Instruction(g) {
					again = true
					return true
				}
				return isDeleteOn(x, f)
			}})
			if len(exits) == 0 && !again {
				r.ok(rule, tn, "fire->forget:"+f.Name(), c.Pos(g.Pos()), "a fired entry is deleted before the loop moves on: it fires once")
			} else {
				r.viol(rule, tn, "fire->forget:"+f.Name(), c.Pos(g.Pos()), "a fired entry can stay in the wheel and fire again")
			}
		}
	})
	if ng == 0 {
		r.undecided(rule, tn, "fire", c.Pos(tick.Pos()), "handleTick starts no callback")
	}
	// (e) Session.Run refreshes on every command and removes on exit
	run := c.Method(serverRel, "Session", "Run")
	twAdd, twRemove := tw("Add"), tw("Remove")
	readPkt := c.Method(serverRel, "ClientConn", "ReadEphemeralPacket")
	execCmd := c.Method(serverRel, "Session", "execCommand")
	if run == nil || twAdd == nil || twRemove == nil || execCmd == nil {
		r.undecided(rule, "(*proxy/server.Session).Run", "anchor", "-", "not found")
		return
	}
	_ = readPkt
	for _, ei := range callsIn(run, func(cc *ssa.CallCommon) bool { return callsFunc(cc, execCmd) }) {
		mn, _ := countOnPathsFrom(run, ei, func(in ssa.Instruction) bool { cc := callCommon(in); return cc != nil && callsFunc(cc, twAdd) })
		if mn >= 1 {
			r.ok(rule, c.FuncName(run), "activity-recorded-before:execCommand", c.Pos(ei.Pos()), "every command re-registers the session with the idle timer before it is executed")
		} else {
			r.viol(rule, c.FuncName(run), "activity-recorded-before:execCommand", c.Pos(ei.Pos()), "a command can be executed without recording activity: an active session is closed as idle")
		}
	}
	okRemove := false
	allInstrs(run, func(in ssa.Instruction) {
		d, ok := in.(*ssa.Defer)
		if !ok {
			return
		}
		if mc, ok := d.Call.Value.(*ssa.MakeClosure); ok {
			if f, ok := mc.Fn.(*ssa.Function); ok && len(callsIn(f, func(cc *ssa.CallCommon) bool { return callsFunc(cc, twRemove) })) > 0 && d.Block() == run.Blocks[0] {
				okRemove = true
			}
		}
	})
	if okRemove {
		r.ok(rule, c.FuncName(run), "exit->tw.Remove", c.Pos(run.Pos()), "the deferred exit handler removes the session from the idle timer")
	} else {
		r.viol(rule, c.FuncName(run), "exit->tw.Remove", c.Pos(run.Pos()), "a session that ends stays registered with the idle timer")
	}
}

// countOnPathsFrom: minimum/maximum number of pred-instructions on acyclic paths from the loop/function entry to `to`,
// counted since the last time the path passed `to`'s own loop header (i.e. within one iteration).
func countOnPathsFrom(fn *ssa.Function, to ssa.Instruction, pred func(ssa.Instruction) bool) (int, int) {
	// find the innermost loop header dominating `to` that `to` can reach again
	var start *ssa.BasicBlock
	for _, b := range fn.Blocks {
		for _, h := range b.Succs {
			if h.Dominates(b) && h.Dominates(to.Block()) && blockReachable(to.Block(), h) {
				if start == nil || start.Dominates(h) {
					start = h
				}
			}
		}
	}
	if start == nil {
		return countOnPaths(fn, to, pred)
	}
	min, max := 1<<30, -1
	onPath := map[*ssa.BasicBlock]bool{}
	var walk func(b *ssa.BasicBlock, cnt int)
	walk = func(b *ssa.BasicBlock, cnt int) {
		if onPath[b] {
			return
		}
		onPath[b] = true
		defer func() { onPath[b] = false }()
		for _, in := range b.Instrs {
			if in == to {
				if cnt < min {
					min = cnt
				}
				if cnt > max {
					max = cnt
				}
				return
			}
			if pred(in) {
				cnt++
			}
		}
		for _, s := range b.Succs {
			walk(s, cnt)
		}
	}
	walk(start, 0)
	if max < 0 {
		return 0, 0
	}
	return min, max
}

func init() {
	register("C31", "", ruleC31ef)
	register("C37", "", ruleC37f)
}

// ruleC31ef: (MP-C31e) a failed prepare leaves the standby slot untouched: no store into namespaces[…]/users[…] lies on
// a path to an error return of ReloadNamespacePrepare; (MP-C31f) prepare and delete build the next generation from the
// *committed* generation: the manager handed to ShallowCopyNamespaceManager / CloneUserManager is slot[current], with
// current the first result of switchIndex.Get().
func ruleC31ef(c *Ctx, r *Report) {
	prep := c.Method(serverRel, "Manager", "ReloadNamespacePrepare")
	del := c.Method(serverRel, "Manager", "DeleteNamespace")
	nsF := c.Field(serverRel, "Manager", "namespaces")
	usersF := c.Field(serverRel, "Manager", "users")
	switchF := c.Field(serverRel, "Manager", "switchIndex")
	if prep == nil || del == nil || nsF == nil || usersF == nil || switchF == nil {
		r.undecided("MP-C31e", "(*proxy/server.Manager)", "anchor", "-", "anchors not found")
		return
	}
	r.floor("MP-C31e", 1)
	r.floor("MP-C31f", 4)
	isSlotStore := func(in ssa.Instruction) bool {
		st, ok := in.(*ssa.Store)
		if !ok {
			return false
		}
		ia, ok := st.Addr.(*ssa.IndexAddr)
		if !ok {
			return false
		}
		f := fieldOfAddr(ia.X)
		return f == nsF || f == usersF
	}
	pn := c.FuncName(prep)
	n := 0
	for _, ret := range returnsOf(prep) {
		isNil, known := returnsNilError(ret)
		if known && isNil {
			continue
		}
		n++
		cons := fmt.Sprintf("prepare-failure#%d:standby-slot-untouched", n)
		if _, max := countOnPaths(prep, ret, isSlotStore); max == 0 {
			r.ok("MP-C31e", pn, cons, c.Pos(exitPos(ret)), "the standby slot is written only after the new configuration was built successfully")
		} else {
			r.viol("MP-C31e", pn, cons, c.Pos(exitPos(ret)), "a prepare can fail after it already overwrote the standby slot: an earlier, still pending prepare is silently replaced and its commit activates something else")
		}
	}
	if n == 0 {
		r.undecided("MP-C31e", pn, "prepare-failure", c.Pos(prep.Pos()), "no failing return")
	}
	// f: base generation is slot[current]
	for _, fn := range []*ssa.Function{prep, del} {
		name := c.FuncName(fn)
		isCurrent := func(idx ssa.Value) bool {
			ex, ok := stripValue(resolveLoad(idx)).(*ssa.Extract)
			if !ok || ex.Index != 0 {
				return false
			}
			call, ok := ex.Tuple.(*ssa.Call)
			if !ok || len(call.Call.Args) == 0 || fieldOfAddr(call.Call.Args[0]) != switchF {
				return false
			}
			k := call.Call.StaticCallee()
			return k != nil && k.Name() == "Get"
		}
		k := 0
		allInstrs(fn, func(in ssa.Instruction) {
			call, ok := in.(*ssa.Call)
			if !ok {
				return
			}
			f := call.Call.StaticCallee()
			if f == nil || (f.Name() != "ShallowCopyNamespaceManager" && f.Name() != "CloneUserManager") || len(call.Call.Args) != 1 {
				return
			}
			k++
			okAll := true
			for _, l := range phiLeaves(call.Call.Args[0]) {
				ld, isLd := l.(*ssa.UnOp)
				if !isLd {
					okAll = false
					continue
				}
				ia, isIA := ld.X.(*ssa.IndexAddr)
				if !isIA || (fieldOfAddr(ia.X) != nsF && fieldOfAddr(ia.X) != usersF) || !isCurrent(ia.Index) {
					okAll = false
				}
			}
			cons := "base-of:" + f.Name()
			if okAll {
				r.ok("MP-C31f", name, cons, c.Pos(call.Pos()), "the next generation is derived from the committed generation slot[current]")
			} else {
				r.viol("MP-C31f", name, cons, c.Pos(call.Pos()), "the next generation can be derived from something other than the committed generation (e.g. the standby slot of a pending prepare): a commit then activates another namespace's uncommitted change")
			}
		})
		if k == 0 {
			r.undecided("MP-C31f", name, "base-generation", c.Pos(fn.Pos()), "no copy of the current generation found")
		}
	}
}

// ruleC37f: removal is not optional: (*TimeWheel).Remove hands the removal to the wheel with a blocking send on every
// path that accepts the key (a non-blocking select would drop it when the pipeline is full and the old registration
// would still fire).
func ruleC37f(c *Ctx, r *Report) {
	const rule = "MP-C37f"
	r.floor(rule, 1)
	rm := c.Method("util", "TimeWheel", "Remove")
	pipeF := c.Field("util", "TimeWheel", "pipelineC")
	if rm == nil || pipeF == nil {
		r.undecided(rule, "(*util.TimeWheel).Remove", "anchor", "-", "not found")
		return
	}
	name := c.FuncName(rm)
	hasSelect := false
	allInstrs(rm, func(in ssa.Instruction) {
		if sel, ok := in.(*ssa.Select); ok {
			for _, st := range sel.States {
				if loadedField(st.Chan) == pipeF {
					hasSelect = true
				}
			}
		}
	})
	exits := searchExits(rm, nil, rm.Blocks[0], SearchOpts{
		Stop: func(in ssa.Instruction) bool {
			s, ok := in.(*ssa.Send)
			return ok && loadedField(s.Chan) == pipeF
		},
		ExitOK: func(in ssa.Instruction) bool {
			ret, ok := in.(*ssa.Return)
			if !ok {
				return true
			}
			isNil, known := returnsNilError(ret)
			return known && !isNil
		},
	})
	if !hasSelect && len(exits) == 0 {
		r.ok(rule, name, "blocking-hand-over", c.Pos(rm.Pos()), "every accepted removal is sent to the wheel with a blocking send")
	} else {
		r.viol(rule, name, "blocking-hand-over", c.Pos(rm.Pos()), "a removal can be dropped (non-blocking send or a path without the send): the removed session is still closed by its old registration")
	}
}

// ---------------------------------------------------------------------------------------
// C32 (third wave): the answers of the two phases are reported as they are

func init() {
	register("C32", "", ruleC32d)
}

// ruleC32d (MP-C32d):
//
//	(report) in cc/service.ModifyNamespace the value each per-proxy goroutine sends on the phase's error channel is, on
//	         every path, the result of that goroutine's last proxy.PrepareConfig / proxy.CommitConfig call: no nil is
//	         substituted after a call (an error answer "explained away" counts a proxy that did not switch as committed);
//	(ack)    on the proxy, AdminServer.prepareConfig answers 200 only when the coordinator client was created and
//	         Server.ReloadNamespacePrepare (which reads the namespace from that client's store) returned nil;
//	         commitConfig answers 200 only on the nil-error edge of Server.ReloadNamespaceCommit; and
//	         Server.ReloadNamespacePrepare hands Manager.ReloadNamespacePrepare exactly what Store.LoadNamespace
//	         returned on its nil-error edge.
func ruleC32d(c *Ctx, r *Report) {
	const rule = "MP-C32d"
	r.floor(rule, 5)
	modify := c.Func("cc/service", "ModifyNamespace")
	prep := c.Func("cc/proxy", "PrepareConfig")
	comm := c.Func("cc/proxy", "CommitConfig")
	if modify == nil || prep == nil || comm == nil {
		r.undecided(rule, "cc/service.ModifyNamespace", "anchor", "-", "ModifyNamespace / proxy.PrepareConfig / proxy.CommitConfig not found")
	} else {
		n := 0
		for _, fn := range c.Funcs {
			if fn.Parent() != modify {
				continue
			}
			for _, phase := range []*ssa.Function{prep, comm} {
				// the goroutine's phase calls, including those inside function literals it hands to a retry helper
				var calls []ssa.Instruction
				var gather func(f *ssa.Function)
				gather = func(f *ssa.Function) {
					calls = append(calls, callsIn(f, func(cc *ssa.CallCommon) bool { return callsFunc(cc, phase) })...)
					for _, a := range f.AnonFuncs {
						gather(a)
					}
				}
				gather(fn)
				if len(calls) == 0 {
					continue
				}
				var sends []*ssa.Send
				allInstrs(fn, func(in ssa.Instruction) {
					if s, ok := in.(*ssa.Send); ok && isErrorType(s.X.Type()) {
						sends = append(sends, s)
					}
				})
				n++
				cons := "report:" + phase.Name()
				name := c.FuncName(modify)
				if len(sends) != 1 {
					r.undecided(rule, name, cons, c.Pos(fn.Pos()), fmt.Sprintf("expected one send of the phase result per proxy goroutine, found %d", len(sends)))
					continue
				}
				var local []ssa.Instruction
				for _, cl := range calls {
					if cl.Parent() == fn {
						local = append(local, cl)
					}
				}
				bad := reportsResultOf(c, sends[0].X, nil, local, calls, phase.Name(), 2)
				if bad == "" {
					r.ok(rule, name, cons, c.Pos(sends[0].Pos()), "each proxy goroutine reports the result of its last "+phase.Name()+" call unchanged")
				} else {
					r.viol(rule, name, cons, c.Pos(sends[0].Pos()), bad+": a proxy that did not prepare/commit is counted as done and the change is reported successful")
				}
			}
		}
		if n < 2 {
			r.undecided(rule, c.FuncName(modify), "report:goroutines", c.Pos(modify.Pos()), "expected the prepare and the commit goroutine")
		}
	}

	// ---- proxy side acknowledgements
	admPrepare := c.Method(serverRel, "AdminServer", "prepareConfig")
	admCommit := c.Method(serverRel, "AdminServer", "commitConfig")
	srvPrepare := c.Method(serverRel, "Server", "ReloadNamespacePrepare")
	srvCommit := c.Method(serverRel, "Server", "ReloadNamespaceCommit")
	mgrPrepare := c.Method(serverRel, "Manager", "ReloadNamespacePrepare")
	newClient := c.Func("models", "NewClient")
	if admPrepare == nil || admCommit == nil || srvPrepare == nil || srvCommit == nil || mgrPrepare == nil || newClient == nil {
		r.undecided(rule, serverRel, "ack:anchor", "-", "AdminServer.prepareConfig/commitConfig, Server.ReloadNamespacePrepare/Commit, Manager.ReloadNamespacePrepare, models.NewClient not all found")
		return
	}
	okAcks := func(fn *ssa.Function) []ssa.Instruction {
		var out []ssa.Instruction
		allInstrs(fn, func(in ssa.Instruction) {
			cc := callCommon(in)
			if cc == nil || len(cc.Args) < 2 {
				return
			}
			f := staticCallee(cc)
			if f == nil || f.Name() != "JSON" {
				return
			}
			if k, ok := constInt(cc.Args[1]); ok && k == 200 {
				out = append(out, in)
			}
		})
		return out
	}
	{
		name := c.FuncName(admPrepare)
		acks := okAcks(admPrepare)
		if len(acks) == 0 {
			r.undecided(rule, name, "ack:prepare", c.Pos(admPrepare.Pos()), "no 200 answer found")
		}
		for i, a := range acks {
			cons := fmt.Sprintf("ack:prepare#%d", i+1)
			okClient, okPrep := false, false
			for _, ci := range callsIn(admPrepare, func(cc *ssa.CallCommon) bool { return callsFunc(cc, newClient) }) {
				if call, ok := ci.(*ssa.Call); ok && dominatedByNilErr(a, call) {
					okClient = true
				}
			}
			for _, ci := range callsIn(admPrepare, func(cc *ssa.CallCommon) bool { return callsFunc(cc, srvPrepare) }) {
				if call, ok := ci.(*ssa.Call); ok && dominatedByNilErr(a, call) {
					okPrep = true
				}
			}
			switch {
			case okClient && okPrep:
				r.ok(rule, name, cons, c.Pos(a.Pos()), "the prepare is acknowledged only after the coordinator client was created and ReloadNamespacePrepare succeeded")
			case !okClient:
				r.viol(rule, name, cons, c.Pos(a.Pos()), "a prepare can be acknowledged although the coordinator was not reachable: the proxy parks (and will commit) a configuration that is not the one the control plane stored")
			default:
				r.viol(rule, name, cons, c.Pos(a.Pos()), "a prepare can be acknowledged without Server.ReloadNamespacePrepare having succeeded")
			}
		}
	}
	{
		name := c.FuncName(admCommit)
		acks := okAcks(admCommit)
		if len(acks) == 0 {
			r.undecided(rule, name, "ack:commit", c.Pos(admCommit.Pos()), "no 200 answer found")
		}
		for i, a := range acks {
			cons := fmt.Sprintf("ack:commit#%d", i+1)
			good := false
			for _, ci := range callsIn(admCommit, func(cc *ssa.CallCommon) bool { return callsFunc(cc, srvCommit) }) {
				if call, ok := ci.(*ssa.Call); ok && dominatedByNilErr(a, call) {
					good = true
				}
			}
			if good {
				r.ok(rule, name, cons, c.Pos(a.Pos()), "the commit is acknowledged only on the nil-error edge of ReloadNamespaceCommit")
			} else {
				r.viol(rule, name, cons, c.Pos(a.Pos()), "a commit can be acknowledged although the proxy did not switch configuration")
			}
		}
	}
	{
		name := c.FuncName(srvPrepare)
		mp := callsIn(srvPrepare, func(cc *ssa.CallCommon) bool { return callsFunc(cc, mgrPrepare) })
		if len(mp) != 1 {
			r.undecided(rule, name, "ack:prepared-config-source", c.Pos(srvPrepare.Pos()), "expected one Manager.ReloadNamespacePrepare call")
		} else {
			arg := callCommon(mp[0]).Args[1]
			good := false
			why := "the configuration parked by the prepare is not the one just read from the coordinator's store"
			leaves := phiLeaves(arg)
			if len(leaves) == 1 {
				if ex, ok := leaves[0].(*ssa.Extract); ok && ex.Index == 0 {
					if call, ok := ex.Tuple.(*ssa.Call); ok {
						if f := staticCallee(&call.Call); f != nil && f.Name() == "LoadNamespace" && dominatedByNilErr(mp[0], call) {
							// the store is built from the client parameter
							good = true
							if st, ok := stripValue(call.Call.Args[0]).(*ssa.Call); ok {
								if g := staticCallee(&st.Call); g == nil || g.Name() != "NewStore" || len(st.Call.Args) < 1 || stripValue(st.Call.Args[0]) != ssa.Value(srvPrepare.Params[2]) {
									good, why = false, "the store the namespace is read from is not built on the coordinator client handed in by the admin endpoint"
								}
							}
						}
					}
				}
			}
			if good {
				r.ok(rule, name, "ack:prepared-config-source", c.Pos(mp[0].Pos()), "the parked configuration is Store.LoadNamespace's result on its nil-error edge, read through the client of this request")
			} else {
				r.viol(rule, name, "ack:prepared-config-source", c.Pos(mp[0].Pos()), why)
			}
		}
	}
}

// reportsResultOf decides that v is, on every path, the result of one of `calls` (instructions of v's function), never
// a nil that replaces a call's answer; "" when it is, otherwise what is wrong. A nil constant on the nil-error edge of
// one of the calls is that call's answer. A call to a package-private helper that receives a function literal is
// followed (depth): the helper's result must be the result of its calls of that parameter and the literal's result the
// result of its own phase calls (allCalls).
func reportsResultOf(c *Ctx, v ssa.Value, at *ssa.BasicBlock, calls, allCalls []ssa.Instruction, phase string, depth int) string {
	bad := ""
	seen := map[ssa.Value]bool{}
	isCall := func(x ssa.Value) bool {
		for _, cl := range calls {
			if cv, ok := cl.(*ssa.Call); ok && (ssa.Value(cv) == x || errResultOf(cv) == x) {
				return true
			}
		}
		return false
	}
	onNilEdgeOfCall := func(b *ssa.BasicBlock) bool {
		if b == nil {
			return false
		}
		for _, cl := range calls {
			cv, ok := cl.(*ssa.Call)
			if !ok {
				continue
			}
			for _, e := range errNilEdgesOfCall(cv) {
				if e.Val && edgesDominate(b.Parent(), []CondEdge{e}, b) {
					return true
				}
			}
		}
		return false
	}
	var walk func(v ssa.Value, pred *ssa.BasicBlock)
	walk = func(v ssa.Value, pred *ssa.BasicBlock) {
		v = stripValue(v)
		if isCall(v) {
			return
		}
		switch x := v.(type) {
		case *ssa.Phi:
			if seen[x] {
				return
			}
			seen[x] = true
			for i, e := range x.Edges {
				walk(e, x.Block().Preds[i])
			}
			return
		case *ssa.UnOp:
			if x.Op == token.MUL {
				if cell, ok := x.X.(*ssa.Alloc); ok {
					if sts, _, ok := reachingStores(cell, x); ok && len(sts) > 0 {
						for _, st := range sts {
							if isNilConst(st.Val) {
								if onNilEdgeOfCall(st.Block()) {
									continue
								}
								for _, cl := range calls {
									if st.Block() == cl.Block() && instrIndex(st) > instrIndex(cl) || (st.Block() != cl.Block() && blockReachable(cl.Block(), st.Block())) {
										bad = "the error of " + phase + " is replaced by nil before it is reported"
									}
								}
								continue
							}
							walk(st.Val, st.Block())
						}
						return
					}
				}
			}
		case *ssa.Const:
			if x.IsNil() {
				if onNilEdgeOfCall(pred) {
					return
				}
				// a nil that enters after a phase call ran replaces that call's answer
				for _, cl := range calls {
					if pred != nil && (pred == cl.Block() || blockReachable(cl.Block(), pred)) {
						// the edge from the call's own success test (err == nil -> break) carries the call result, not a constant
						bad = "the error of " + phase + " is replaced by nil before it is reported"
					}
				}
				return
			}
		case *ssa.Call:
			h := staticCallee(&x.Call)
			if depth > 0 && h != nil && c.InModule(h) && len(h.Blocks) > 0 && h.Object() != nil && !h.Object().Exported() && errResultIndex(h.Signature) == 0 {
				for k, a := range x.Call.Args {
					mc, ok := stripValue(a).(*ssa.MakeClosure)
					if !ok || k >= len(h.Params) {
						continue
					}
					lit, _ := mc.Fn.(*ssa.Function)
					if lit == nil || errResultIndex(lit.Signature) != 0 {
						continue
					}
					var litCalls, paramCalls []ssa.Instruction
					for _, cl := range allCalls {
						if cl.Parent() == lit {
							litCalls = append(litCalls, cl)
						}
					}
					if len(litCalls) == 0 {
						continue
					}
					allInstrs(h, func(in ssa.Instruction) {
						if cv, ok := in.(*ssa.Call); ok && !cv.Call.IsInvoke() && stripValue(cv.Call.Value) == ssa.Value(h.Params[k]) {
							paramCalls = append(paramCalls, cv)
						}
					})
					if len(paramCalls) == 0 {
						continue
					}
					for _, ret := range returnsOf(lit) {
						if b := reportsResultOf(c, ret.Results[0], ret.Block(), litCalls, allCalls, phase, depth-1); b != "" {
							bad = b
						}
					}
					for _, ret := range returnsOf(h) {
						if b := reportsResultOf(c, ret.Results[0], ret.Block(), paramCalls, nil, phase, 0); b != "" {
							bad = b + " (in " + h.Name() + ")"
						}
					}
					return
				}
			}
		}
		bad = "a value other than the result of " + phase + " is reported for the proxy"
	}
	walk(v, at)
	return bad
}
