package main

import (
	"fmt"
	"go/constant"
	"go/token"
	"go/types"
	"sort"
	"strings"

	"golang.org/x/tools/go/ssa"
)

func init() {
	register("C35", "Clause decided (gate): in (*Session).Handshake the success acknowledgement writeOK is dominated by IsAllowConnect()==true and by the nil-error edge of handleHandshakeResponse; in handleHandshakeResponse every nil-error return is dominated by succ==true where succ is, on every path, the first result of a Manager.Check*Password call and the password handed to GetNamespaceByUser is the second result of the same calls; in Server.onConn the session loop Run() is dominated by the nil-error edge of Handshake(). The address matching itself (CIDR arithmetic, IPv4-mapped addresses) is value-level and not covered.",
		ruleC35)
	register("C21", "Clauses decided: (TB) each write-class keyword of the property text (insert replace update delete create alter drop truncate rename load) maps, through the keyword table read out of parser.Preview, to a statement type for which isSQLNotAllowedByUser answers true for a non-write user (deny table read out by constant evaluation of its SSA over the finite domain of parser.Stmt* constants); (MP) the check dominates every route from a client command to planning/execution: in doQuery checkSQLAllowed's nil-error edge dominates getPlan / handleQueryWithoutPlan / Plan.ExecuteIn on the same SQL string, in checkSQLAllowed every nil-error return is dominated by the deny predicate being false, and the execution entry points have only the listed callers. Statements hidden in version comments, CTE-prefixed writes and procedures are not covered.",
		ruleC21TB, ruleC21MP)
	register("C22", "Clauses decided: (a) inside a transaction every statement runs on the master (MP-C18b/MP-C18c: the replica-capable source is dominated by !isInTransaction(), the transaction path acquires from GetMasterConn only); (b) only reads can be flagged for replicas: RequestContext.SetFromSlave with a possibly-true argument is called only in the listed functions, in doQuery the true call is dominated by checkExecuteFromSlave()==true and in checkExecuteFromSlave every possibly-true return is dominated by stmtType being StmtSelect or StmtShow. Lexical detection of locking reads, hints and read_only probes is not covered.",
		ruleC22b, ruleC18b, ruleC18c)
	register("C16", "Clauses decided: (a) a failed execution leaves no bound value behind: in handleStmtExecute every path from the bindStmtArgs call to every exit passes (*Stmt).ResetParams (directly or by a defer already registered); writers of Stmt.args are the frozen table; (b) commands on unknown statement ids fail: every read of SessionExecutor.stmts is a comma-ok lookup whose miss edge reaches only error returns. Interleaving semantics of long data values are not covered.",
		ruleC16)
	register("C20", "Clauses decided: (a) every client statement runs on a synchronised connection: each PooledConnect.Execute/FieldList call in proxy/server that carries client SQL is dominated by the nil-error edge of initBackendConn on the same connection, and a transaction connection is stored only after SyncSessionVariables succeeded; (b) a failed SET never leaves a wrong belief in the pool: on the error edge of WriteSetStatement/SyncSessionVariables the connection is closed before the owning function returns. The SET text, SetEqualsWith set algebra and user-variable values are not covered.",
		ruleC20)
}

const serverRel = "proxy/server"

func (c *Ctx) seMethod(name string) *ssa.Function {
	return c.Method(serverRel, "SessionExecutor", name)
}
func (c *Ctx) pcMethod(name string) *types.Func {
	return c.IfaceMethod("backend", "PooledConnect", name)
}

// ---------------------------------------------------------------------------------------
// C35

func ruleC35(c *Ctx, r *Report) {
	const rule = "MP-C35"
	r.floor(rule, 6)
	hs := c.Method(serverRel, "Session", "Handshake")
	hhr := c.Method(serverRel, "Session", "handleHandshakeResponse")
	allow := c.Method(serverRel, "Session", "IsAllowConnect")
	writeOK := c.Method(serverRel, "ClientConn", "writeOK")
	onConn := c.Method(serverRel, "Server", "onConn")
	run := c.Method(serverRel, "Session", "Run")
	if hs == nil || hhr == nil || allow == nil || writeOK == nil || onConn == nil || run == nil {
		r.undecided(rule, "proxy/server", "anchor", "-", "Handshake/handleHandshakeResponse/IsAllowConnect/writeOK/onConn/Run not all found")
		return
	}
	hsName := c.FuncName(hs)
	oks := callsIn(hs, func(cc *ssa.CallCommon) bool { return callsFunc(cc, writeOK) })
	if len(oks) == 0 {
		r.undecided(rule, hsName, "ack:writeOK", c.Pos(hs.Pos()), "no success acknowledgement found in Handshake")
	}
	for i, ok := range oks {
		cons := fmt.Sprintf("ack:writeOK#%d", i+1)
		okAllow := false
		for _, ci := range callsIn(hs, func(cc *ssa.CallCommon) bool { return callsFunc(cc, allow) }) {
			if dominatedByCond(ok, ci.(*ssa.Call), true) {
				okAllow = true
			}
		}
		okCred := false
		for _, ci := range callsIn(hs, func(cc *ssa.CallCommon) bool { return callsFunc(cc, hhr) }) {
			if dominatedByNilErr(ok, ci.(*ssa.Call)) {
				okCred = true
			}
		}
		if okAllow {
			r.ok(rule, hsName, cons+":allow-list", c.Pos(ok.Pos()), "dominated by IsAllowConnect()==true")
		} else {
			r.viol(rule, hsName, cons+":allow-list", c.Pos(ok.Pos()), "the handshake is acknowledged on a path that does not pass IsAllowConnect()==true: a client outside the allow-list is admitted")
		}
		if okCred {
			r.ok(rule, hsName, cons+":credentials", c.Pos(ok.Pos()), "dominated by handleHandshakeResponse()==nil")
		} else {
			r.viol(rule, hsName, cons+":credentials", c.Pos(ok.Pos()), "the handshake is acknowledged on a path that does not pass a successful credential check")
		}
	}
	// every nil-error return of Handshake passed writeOK (no silent success without the checks)
	for i, ret := range returnsOf(hs) {
		isNil, known := returnsNilError(ret)
		if known && !isNil {
			continue
		}
		cons := fmt.Sprintf("return-success#%d", i+1)
		dom := false
		for _, ok := range oks {
			if dominatedByNilErr(ret, ok.(*ssa.Call)) {
				dom = true
			}
		}
		if dom {
			r.ok(rule, hsName, cons, c.Pos(exitPos(ret)), "success return is dominated by the acknowledged handshake")
		} else {
			r.viol(rule, hsName, cons, c.Pos(exitPos(ret)), "Handshake can report success on a path that skips the acknowledged, checked handshake")
		}
	}
	// handleHandshakeResponse
	hName := c.FuncName(hhr)
	checkCalls := map[*ssa.Call]bool{}
	checkFns := credentialCheckFns(c) // Manager.Check*Password and functions that merely dispatch to them
	isCheck := func(cc *ssa.CallCommon) bool {
		f := cc.StaticCallee()
		return f != nil && checkFns[f]
	}
	for _, ci := range callsIn(hhr, isCheck) {
		checkCalls[ci.(*ssa.Call)] = true
	}
	leavesAre := func(v ssa.Value, idx int) (bool, map[*ssa.Call]bool) {
		used := map[*ssa.Call]bool{}
		for _, l := range phiLeaves(v) {
			ex, ok := l.(*ssa.Extract)
			if !ok || ex.Index != idx {
				return false, nil
			}
			call, ok := ex.Tuple.(*ssa.Call)
			if !ok || !checkCalls[call] {
				return false, nil
			}
			used[call] = true
		}
		return len(used) > 0, used
	}
	nret := 0
	var succCalls map[*ssa.Call]bool
	for _, ret := range returnsOf(hhr) {
		isNil, known := returnsNilError(ret)
		if known && !isNil {
			continue
		}
		nret++
		cons := fmt.Sprintf("return-success#%d", nret)
		good := false
		// find a boolean value tested true on a dominating edge whose leaves are all Check*Password #0
		for _, b := range hhr.Blocks {
			iff, ok := b.Instrs[len(b.Instrs)-1].(*ssa.If)
			if !ok {
				continue
			}
			cond := iff.Cond
			neg := false
			for {
				u, ok := cond.(*ssa.UnOp)
				if !ok || u.Op != token.NOT {
					break
				}
				cond = u.X
				neg = !neg
			}
			okLeaves, used := leavesAre(cond, 0)
			if !okLeaves {
				continue
			}
			succ := 0
			if neg {
				succ = 1
			}
			if edgeDominates(hhr, b, succ, ret.Block()) {
				good = true
				succCalls = used
			}
		}
		if good {
			r.ok(rule, hName, cons, c.Pos(exitPos(ret)), "dominated by succ==true with succ defined by Manager.Check*Password on every path")
		} else {
			r.viol(rule, hName, cons, c.Pos(exitPos(ret)), "credential handling can succeed on a path where no Manager.Check*Password result was true")
		}
	}
	if nret == 0 {
		r.undecided(rule, hName, "return-success", c.Pos(hhr.Pos()), "no success return found")
	}
	gnbu := c.Method(serverRel, "Manager", "GetNamespaceByUser")
	calls := callsIn(hhr, func(cc *ssa.CallCommon) bool { return callsFunc(cc, gnbu) })
	if gnbu == nil || len(calls) == 0 {
		r.undecided(rule, hName, "namespace-binding", c.Pos(hhr.Pos()), "GetNamespaceByUser call not found")
	}
	for _, ci := range calls {
		args := ci.(*ssa.Call).Call.Args
		okLeaves, used := leavesAre(args[len(args)-1], 1)
		same := okLeaves && succCalls != nil
		if same {
			for k := range used {
				if !succCalls[k] {
					same = false
				}
			}
		}
		if same {
			r.ok(rule, hName, "namespace-binding", c.Pos(ci.Pos()), "the password that selects the namespace is the one returned by the successful Check*Password call")
		} else {
			r.viol(rule, hName, "namespace-binding", c.Pos(ci.Pos()), "the namespace is selected with a password that is not the result of the credential check that succeeded")
		}
	}
	// onConn
	oName := c.FuncName(onConn)
	runs := callsIn(onConn, func(cc *ssa.CallCommon) bool { return callsFunc(cc, run) })
	if len(runs) == 0 {
		r.undecided(rule, oName, "call:Session.Run", c.Pos(onConn.Pos()), "session loop not started from onConn")
	}
	for _, rc := range runs {
		dom := false
		for _, h := range callsIn(onConn, func(cc *ssa.CallCommon) bool { return callsFunc(cc, hs) }) {
			if dominatedByNilErr(rc, h.(*ssa.Call)) {
				dom = true
			}
		}
		if dom {
			r.ok(rule, oName, "call:Session.Run", c.Pos(rc.Pos()), "dominated by Handshake()==nil")
		} else {
			r.viol(rule, oName, "call:Session.Run", c.Pos(rc.Pos()), "the command loop starts on a path that does not require a successful handshake")
		}
	}
	// who may start a session loop
	for _, s := range c.callSites(func(cc *ssa.CallCommon) bool { return callsFunc(cc, run) }) {
		if s.Fn != onConn {
			r.viol(rule, c.FuncName(s.Fn), "call:Session.Run", c.Pos(s.In.Pos()), "Session.Run started outside Server.onConn (no handshake gate)")
		}
	}
}

// ---------------------------------------------------------------------------------------
// C21

// miniEval: constant evaluation of a function body for given parameter constants. Returns the constant returned
// (first result) or ok=false with a reason when something cannot be folded.
type evalHook func(call *ssa.Call) (constant.Value, bool)

func miniEval(fn *ssa.Function, params map[*ssa.Parameter]constant.Value, hook evalHook) (constant.Value, string) {
	env := map[ssa.Value]constant.Value{}
	for p, v := range params {
		env[p] = v
	}
	get := func(v ssa.Value) (constant.Value, bool) {
		if k, ok := v.(*ssa.Const); ok {
			if k.Value == nil {
				return nil, false
			}
			return k.Value, true
		}
		x, ok := env[v]
		return x, ok
	}
	if len(fn.Blocks) == 0 {
		return nil, "no body"
	}
	var prev *ssa.BasicBlock
	b := fn.Blocks[0]
	for steps := 0; steps < 10000; steps++ {
		var next *ssa.BasicBlock
		for _, in := range b.Instrs {
			switch x := in.(type) {
			case *ssa.Phi:
				for i, p := range b.Preds {
					if p == prev {
						if v, ok := get(x.Edges[i]); ok {
							env[x] = v
						}
					}
				}
			case *ssa.BinOp:
				a, ok1 := get(x.X)
				bb, ok2 := get(x.Y)
				if !ok1 || !ok2 {
					continue
				}
				switch x.Op {
				case token.EQL, token.NEQ, token.LSS, token.LEQ, token.GTR, token.GEQ:
					env[x] = constant.MakeBool(constant.Compare(a, x.Op, bb))
				case token.ADD, token.SUB, token.MUL, token.AND, token.OR, token.XOR:
					env[x] = constant.BinaryOp(a, x.Op, bb)
				case token.LAND, token.LOR:
					env[x] = constant.BinaryOp(a, x.Op, bb)
				}
			case *ssa.UnOp:
				if x.Op == token.NOT {
					if a, ok := get(x.X); ok {
						env[x] = constant.MakeBool(!constant.BoolVal(a))
					}
				}
			case *ssa.Call:
				done := false
				if hook != nil {
					if v, ok := hook(x); ok {
						env[x] = v
						done = true
					}
				}
				// a predicate extracted into a helper: fold the helper for the constant arguments
				if !done {
					if h := x.Call.StaticCallee(); h != nil && len(h.Blocks) > 0 && h != fn && h.Signature.Results().Len() == 1 && len(x.Call.Args) == len(h.Params) {
						sub := map[*ssa.Parameter]constant.Value{}
						all := true
						for k, a := range x.Call.Args {
							v, ok := get(a)
							if !ok {
								all = false
								break
							}
							sub[h.Params[k]] = v
						}
						if all {
							if v, why := miniEval(h, sub, hook); why == "" {
								env[x] = v
							}
						}
					}
				}
			case *ssa.If:
				cv, ok := get(x.Cond)
				if !ok {
					return nil, "branch condition does not fold to a constant: " + x.Cond.String()
				}
				if constant.BoolVal(cv) {
					next = b.Succs[0]
				} else {
					next = b.Succs[1]
				}
			case *ssa.Jump:
				next = b.Succs[0]
			case *ssa.Return:
				if len(x.Results) == 0 {
					return nil, "no result"
				}
				v, ok := get(x.Results[0])
				if !ok {
					return nil, "returned value does not fold to a constant: " + x.Results[0].String()
				}
				return v, ""
			case *ssa.Panic:
				return nil, "panic"
			}
		}
		if next == nil {
			return nil, "fell off block"
		}
		prev, b = b, next
	}
	return nil, "step limit"
}

// stmtConsts returns name -> value of the parser.Stmt* statement-type constants.
func (c *Ctx) stmtConsts() map[string]int64 {
	out := map[string]int64{}
	p := c.Pkg("parser")
	if p == nil {
		return out
	}
	sc := p.Pkg.Scope()
	for _, n := range sc.Names() {
		k, ok := sc.Lookup(n).(*types.Const)
		if !ok || !(strings.HasPrefix(n, "Stmt") || strings.HasPrefix(n, "Stme")) {
			continue
		}
		if b, ok := k.Type().Underlying().(*types.Basic); !ok || b.Info()&types.IsInteger == 0 {
			continue
		}
		if v, ok := constant.Int64Val(k.Val()); ok {
			out[n] = v
		}
	}
	return out
}

// previewTable reads the keyword -> statement type table out of parser.Preview: for keyword k the set of constants
// Preview can return when its lowered first word equals k (returns before the first word is computed are excluded).
func (c *Ctx) previewTable(keywords []string) (map[string][]int64, string) {
	pv := c.Func("parser", "Preview")
	if pv == nil {
		return nil, "parser.Preview not found"
	}
	// first-word value: the strings.ToLower result that is compared with "insert"
	var fw ssa.Value
	isLower := func(v ssa.Value) bool {
		call, ok := v.(*ssa.Call)
		if !ok {
			return false
		}
		f := call.Call.StaticCallee()
		return f != nil && f.Pkg != nil && f.Pkg.Pkg.Path() == "strings" && f.Name() == "ToLower"
	}
	allInstrs(pv, func(in ssa.Instruction) {
		b, ok := in.(*ssa.BinOp)
		if !ok || b.Op != token.EQL {
			return
		}
		if s, ok := constString(b.Y); ok && s == "insert" && isLower(b.X) {
			fw = b.X
		}
		if s, ok := constString(b.X); ok && s == "insert" && isLower(b.Y) {
			fw = b.Y
		}
	})
	if fw == nil {
		return nil, "no comparison of a lowered word with \"insert\" in parser.Preview: the keyword table has a shape the extractor does not know"
	}
	fwBlock := fw.(ssa.Instruction).Block()
	out := map[string][]int64{}
	for _, k := range keywords {
		set := map[int64]bool{}
		bad := ""
		seen := map[*ssa.BasicBlock]bool{}
		var walk func(b *ssa.BasicBlock)
		walk = func(b *ssa.BasicBlock) {
			if seen[b] || bad != "" {
				return
			}
			seen[b] = true
			last := b.Instrs[len(b.Instrs)-1]
			switch x := last.(type) {
			case *ssa.Return:
				if len(x.Results) == 1 {
					if v, ok := constInt(x.Results[0]); ok {
						set[v] = true
						return
					}
				}
				bad = "non-constant return in parser.Preview"
			case *ssa.Jump:
				walk(b.Succs[0])
			case *ssa.If:
				// decide comparisons against string constants
				if bo, ok := x.Cond.(*ssa.BinOp); ok && (bo.Op == token.EQL || bo.Op == token.NEQ) {
					var other ssa.Value
					var cs string
					var isC bool
					if cs, isC = constString(bo.Y); isC {
						other = bo.X
					} else if cs, isC = constString(bo.X); isC {
						other = bo.Y
					}
					if isC {
						var eq, decided bool
						if other == fw {
							eq, decided = cs == k, true
						} else if isLower(other) {
							// another lowered view of the same statement: its first word is the keyword
							first := cs
							if i := strings.IndexAny(first, " \t"); i >= 0 {
								first = first[:i]
							}
							if first != k {
								eq, decided = false, true
							}
						}
						if decided {
							if bo.Op == token.NEQ {
								eq = !eq
							}
							if eq {
								walk(b.Succs[0])
							} else {
								walk(b.Succs[1])
							}
							return
						}
					}
				}
				walk(b.Succs[0])
				walk(b.Succs[1])
			default:
				bad = "unexpected block end in parser.Preview"
			}
		}
		walk(fwBlock)
		if bad != "" {
			return nil, bad
		}
		var l []int64
		for v := range set {
			l = append(l, v)
		}
		sort.Slice(l, func(i, j int) bool { return l[i] < l[j] })
		out[k] = l
	}
	return out, ""
}

var writeKeywords = []string{"insert", "replace", "update", "delete", "create", "alter", "drop", "truncate", "rename", "load"}

func ruleC21TB(c *Ctx, r *Report) {
	const rule = "TB-C21"
	r.floor(rule, 10)
	r.assume("parser.Preview: every lowered view of the statement has the same first word (they are derived from the same trimmed text)")
	deny := c.Func(serverRel, "isSQLNotAllowedByUser")
	if deny == nil {
		r.undecided(rule, "proxy/server.isSQLNotAllowedByUser", "anchor", "-", "deny predicate not found")
		return
	}
	var stmtParam *ssa.Parameter
	for _, p := range deny.Params {
		if b, ok := p.Type().Underlying().(*types.Basic); ok && b.Info()&types.IsInteger != 0 {
			stmtParam = p
		}
	}
	if stmtParam == nil {
		r.undecided(rule, c.FuncName(deny), "param:stmtType", c.Pos(deny.Pos()), "no integer statement-type parameter")
		return
	}
	consts := c.stmtConsts()
	names := map[int64]string{}
	for n, v := range consts {
		if old, ok := names[v]; !ok || n < old {
			names[v] = n
		}
	}
	hook := func(call *ssa.Call) (constant.Value, bool) {
		f := call.Call.StaticCallee()
		if f != nil && f.Name() == "IsAllowWrite" {
			return constant.MakeBool(false), true
		}
		return nil, false
	}
	denied := map[int64]bool{}
	var deniedNames []string
	for v, n := range names {
		res, why := miniEval(deny, map[*ssa.Parameter]constant.Value{stmtParam: constant.MakeInt64(v)}, hook)
		if res == nil {
			r.undecided(rule, c.FuncName(deny), "deny("+n+")", c.Pos(deny.Pos()), "cannot fold the deny predicate for a read-only user: "+why)
			return
		}
		if constant.BoolVal(res) {
			denied[v] = true
			deniedNames = append(deniedNames, n)
		}
	}
	sort.Strings(deniedNames)
	r.note("deny table for a read-only user (read out of isSQLNotAllowedByUser): %s", strings.Join(deniedNames, " "))
	tbl, why := c.previewTable(writeKeywords)
	if tbl == nil {
		r.undecided(rule, "parser.Preview", "keyword-table", "-", why)
		return
	}
	for _, k := range writeKeywords {
		var tn []string
		allDenied := len(tbl[k]) > 0
		for _, v := range tbl[k] {
			tn = append(tn, names[v])
			if !denied[v] {
				allDenied = false
			}
		}
		if allDenied {
			r.ok(rule, "parser.Preview x proxy/server.isSQLNotAllowedByUser", "keyword:"+k, c.Pos(deny.Pos()), "maps to "+strings.Join(tn, ",")+" which is denied for a read-only user")
		} else {
			r.viol(rule, "parser.Preview x proxy/server.isSQLNotAllowedByUser", "keyword:"+k, c.Pos(deny.Pos()), "a statement starting with '"+k+"' is classified "+strings.Join(tn, ",")+" which the deny predicate lets through for a read-only user: it reaches the master")
		}
	}
}

func ruleC21MP(c *Ctx, r *Report) {
	const rule = "MP-C21"
	r.floor(rule, 8)
	doQuery := c.seMethod("doQuery")
	check := c.seMethod("checkSQLAllowed")
	getPlan := c.seMethod("getPlan")
	noPlan := c.seMethod("handleQueryWithoutPlan")
	deny := c.Func(serverRel, "isSQLNotAllowedByUser")
	preview := c.Func("parser", "Preview")
	execIn := c.IfaceMethod("proxy/plan", "Plan", "ExecuteIn")
	if doQuery == nil || check == nil || getPlan == nil || noPlan == nil || deny == nil || preview == nil || execIn == nil {
		r.undecided(rule, "proxy/server", "anchor", "-", "doQuery/checkSQLAllowed/getPlan/handleQueryWithoutPlan/isSQLNotAllowedByUser/parser.Preview/Plan.ExecuteIn not all found")
		return
	}
	dq := c.FuncName(doQuery)
	checks := callsIn(doQuery, func(cc *ssa.CallCommon) bool { return callsFunc(cc, check) })
	gate := func(in ssa.Instruction, sqlArg ssa.Value) bool {
		for _, ck := range checks {
			call := ck.(*ssa.Call)
			if !dominatedByNilErr(in, call) {
				continue
			}
			if sqlArg == nil || sameVal(call.Call.Args[len(call.Call.Args)-1], sqlArg) {
				return true
			}
		}
		return false
	}
	n := 0
	allInstrs(doQuery, func(in ssa.Instruction) {
		cc := callCommon(in)
		if cc == nil {
			return
		}
		var label string
		var sqlArg ssa.Value
		switch {
		case callsFunc(cc, getPlan):
			label = "call:getPlan"
			sqlArg = cc.Args[4]
		case callsFunc(cc, noPlan):
			label = "call:handleQueryWithoutPlan"
			sqlArg = cc.Args[2]
		case callsIfaceMethod(cc, execIn):
			label = "call:Plan.ExecuteIn"
		default:
			return
		}
		n++
		if gate(in, sqlArg) {
			r.ok(rule, dq, label, c.Pos(in.Pos()), "dominated by checkSQLAllowed(sql)==nil on the same SQL string")
		} else {
			r.viol(rule, dq, label, c.Pos(in.Pos()), "planning/execution is reachable without the access check having passed for this SQL string: a read-only user's write reaches a backend")
		}
	})
	if n < 3 {
		r.undecided(rule, dq, "routes", c.Pos(doQuery.Pos()), "doQuery no longer contains the three routes (getPlan, handleQueryWithoutPlan, Plan.ExecuteIn)")
	}
	// checkSQLAllowed: nil-error returns are dominated by deny==false where stmtType = Preview(sql)
	ck := c.FuncName(check)
	nret := 0
	for _, ret := range returnsOf(check) {
		isNil, known := returnsNilError(ret)
		if known && !isNil {
			continue
		}
		nret++
		cons := fmt.Sprintf("return-allowed#%d", nret)
		good := false
		for _, ci := range callsIn(check, func(cc *ssa.CallCommon) bool { return callsFunc(cc, deny) }) {
			call := ci.(*ssa.Call)
			// stmtType argument must be Preview(sql param)
			st := stripValue(resolveLoad(call.Call.Args[1]))
			pc, ok := st.(*ssa.Call)
			if !ok || !callsFunc(&pc.Call, preview) {
				continue
			}
			if _, isParam := stripValue(pc.Call.Args[0]).(*ssa.Parameter); !isParam {
				continue
			}
			if dominatedByCond(ret, call, false) {
				good = true
			}
		}
		if good {
			r.ok(rule, ck, cons, c.Pos(exitPos(ret)), "dominated by isSQLNotAllowedByUser(se, Preview(sql))==false")
		} else {
			r.viol(rule, ck, cons, c.Pos(exitPos(ret)), "checkSQLAllowed can answer 'allowed' without the read-only test on the statement's own text")
		}
	}
	if nret == 0 {
		r.undecided(rule, ck, "return-allowed", c.Pos(check.Pos()), "no success return")
	}
	// who may call the execution entry points (within proxy/server)
	whoMay(c, r, rule, noPlan, "handleQueryWithoutPlan", map[*ssa.Function]string{doQuery: "behind the gate"})
	whoMay(c, r, rule, getPlan, "getPlan", map[*ssa.Function]string{doQuery: "behind the gate", c.Func(serverRel, "checkMyCatHintPlan"): "hint plan is only used for routing the already checked statement"})
	whoMay(c, r, rule, c.Func(serverRel, "checkMyCatHintPlan"), "checkMyCatHintPlan", map[*ssa.Function]string{getPlan: "inside getPlan"})
	whoMay(c, r, rule, c.seMethod("handleShow"), "handleShow", map[*ssa.Function]string{noPlan: "behind the gate"})
	for _, s := range c.callSites(func(cc *ssa.CallCommon) bool { return callsIfaceMethod(cc, execIn) }) {
		if s.Fn.Pkg == nil || s.Fn.Pkg.Pkg.Path() != modPath+"/"+serverRel {
			continue
		}
		if s.Fn != doQuery {
			r.viol(rule, c.FuncName(s.Fn), "call:Plan.ExecuteIn", c.Pos(s.In.Pos()), "a plan is executed outside doQuery (no access check)")
		}
	}
}

// whoMay: callers of fn must be in the table.
func whoMay(c *Ctx, r *Report, rule string, fn *ssa.Function, label string, allowed map[*ssa.Function]string) {
	if fn == nil {
		r.undecided(rule, "-", "callers:"+label, "-", "function not found")
		return
	}
	sites := c.callSites(func(cc *ssa.CallCommon) bool { return callsFunc(cc, fn) })
	// also function values (method values / closures referencing fn)
	for _, f := range c.Funcs {
		if c.IsMockFunc(f) {
			continue
		}
		allInstrs(f, func(in ssa.Instruction) {
			for _, op := range in.Operands(nil) {
				if *op == ssa.Value(fn) {
					if cc := callCommon(in); cc != nil && cc.Value == ssa.Value(fn) {
						continue
					}
					sites = append(sites, Site{f, in})
				}
			}
		})
	}
	if len(sites) == 0 {
		r.info(rule, c.FuncName(fn), "callers:"+label, c.Pos(fn.Pos()), "no caller in the loaded program")
		return
	}
	for _, s := range sites {
		if why, ok := allowedVia(c, allowed, s.Fn); ok && s.Fn != nil {
			r.ok(rule, c.FuncName(s.Fn), "calls:"+label, c.Pos(s.In.Pos()), why)
		} else {
			r.viol(rule, c.FuncName(s.Fn), "calls:"+label, c.Pos(s.In.Pos()), label+" is called from a function that is not in the frozen caller table")
		}
	}
}

// ---------------------------------------------------------------------------------------
// C22b

func ruleC22b(c *Ctx, r *Report) {
	const rule = "MP-C22b"
	r.floor(rule, 6)
	setFS := c.Method("util", "RequestContext", "SetFromSlave")
	cefs := c.Func(serverRel, "checkExecuteFromSlave")
	doQuery := c.seMethod("doQuery")
	if setFS == nil || cefs == nil || doQuery == nil {
		r.undecided(rule, "proxy/server", "anchor", "-", "RequestContext.SetFromSlave / checkExecuteFromSlave / doQuery not found")
		return
	}
	allowed := map[*ssa.Function]string{
		doQuery:                        "behind checkExecuteFromSlave",
		c.seMethod("handleShow"):       "SHOW statements only (reached for StmtShow)",
		c.seMethod("handleFieldList"):  "COM_FIELD_LIST is a read",
		c.seMethod("getBackendKsConn"): "keep-session: read-only users are pinned to a replica connection by design",
	}
	for _, s := range c.callSites(func(cc *ssa.CallCommon) bool { return callsFunc(cc, setFS) }) {
		cc := callCommon(s.In)
		arg := cc.Args[len(cc.Args)-1]
		if b, ok := constBool(arg); ok && !b {
			continue // SetFromSlave(false) can only move a statement to the master
		}
		name := c.FuncName(s.Fn)
		cons := "call:SetFromSlave(maybe-true)@" + branchLabel(c, s.In)
		why, ok := allowedVia(c, allowed, s.Fn)
		if !ok {
			r.viol(rule, name, cons, c.Pos(s.In.Pos()), "a statement can be flagged for replica execution outside the listed functions")
			continue
		}
		if s.Fn == doQuery {
			dom := false
			for _, ci := range callsIn(doQuery, func(cc *ssa.CallCommon) bool { return callsFunc(cc, cefs) }) {
				if dominatedByCond(s.In, ci.(*ssa.Call), true) {
					dom = true
				}
			}
			if !dom {
				r.viol(rule, name, cons, c.Pos(s.In.Pos()), "SetFromSlave(true) in doQuery is not dominated by checkExecuteFromSlave()==true")
				continue
			}
		}
		r.ok(rule, name, cons, c.Pos(s.In.Pos()), why)
	}
	// MP-C22c: the routing flag is (re)assigned for every statement: the RequestContext is reused for every piece of a
	// multi-statement packet, so a statement that does not assign the flag inherits the previous statement's replica flag
	execIn := c.IfaceMethod("proxy/plan", "Plan", "ExecuteIn")
	if execIn != nil {
		for _, ei := range callsIn(doQuery, func(cc *ssa.CallCommon) bool { return callsIfaceMethod(cc, execIn) }) {
			// every path from the function entry to the execution passes a SetFromSlave call
			missed := false
			searchExits(doQuery, nil, doQuery.Blocks[0], SearchOpts{Stop: func(in ssa.Instruction) bool {
				if in == ei {
					missed = true
					return true
				}
				cc := callCommon(in)
				return cc != nil && callsFunc(cc, setFS)
			}})
			if !missed {
				r.ok("MP-C22c", c.FuncName(doQuery), "flag-assigned-before:Plan.ExecuteIn", c.Pos(ei.Pos()), "every path to the execution assigns the replica flag for this statement")
			} else {
				r.viol("MP-C22c", c.FuncName(doQuery), "flag-assigned-before:Plan.ExecuteIn", c.Pos(ei.Pos()), "a statement can be executed without the replica flag having been assigned for it: in a multi-statement packet it inherits the flag of the previous statement (a write after a read runs on a replica)")
			}
		}
	}
	// handleShow only for StmtShow
	noPlan := c.seMethod("handleQueryWithoutPlan")
	hs := c.seMethod("handleShow")
	consts := c.stmtConsts()
	if noPlan != nil && hs != nil {
		for _, ci := range callsIn(noPlan, func(cc *ssa.CallCommon) bool { return callsFunc(cc, hs) }) {
			edges := stmtTypeEdges(c, noPlan, []int64{consts["StmtShow"]})
			if edgesDominate(noPlan, edges, ci.Block()) {
				r.ok(rule, c.FuncName(noPlan), "call:handleShow", c.Pos(ci.Pos()), "dominated by stmtType==StmtShow")
			} else {
				r.viol(rule, c.FuncName(noPlan), "call:handleShow", c.Pos(ci.Pos()), "handleShow (which may flag the statement for a replica) is reachable for statement types other than SHOW")
			}
		}
	}
	// checkExecuteFromSlave: every possibly-true return is dominated by stmtType in {Select, Show}
	name := c.FuncName(cefs)
	edges := stmtTypeEdges(c, cefs, []int64{consts["StmtSelect"], consts["StmtShow"]})
	n := 0
	for _, ret := range returnsOf(cefs) {
		vals, _ := retValues(ret, 0)
		maybe := false
		for _, v := range vals {
			if b, ok := constBool(v); !ok || b {
				maybe = true
			}
		}
		if !maybe {
			continue
		}
		n++
		cons := fmt.Sprintf("return-maybe-true#%d", n)
		if edgesDominate(cefs, edges, ret.Block()) {
			r.ok(rule, name, cons, c.Pos(exitPos(ret)), "dominated by stmtType being StmtSelect or StmtShow")
		} else {
			r.viol(rule, name, cons, c.Pos(exitPos(ret)), "checkExecuteFromSlave can answer true for a statement that is neither SELECT nor SHOW: a write can be routed to a replica")
		}
	}
	if n == 0 {
		r.undecided(rule, name, "return-maybe-true", c.Pos(cefs.Pos()), "no possibly-true return")
	}
}

// stmtTypeEdges: If edges in fn on which the statement type (result of RequestContext.GetStmtType) is known to be one
// of the wanted constants.
func stmtTypeEdges(c *Ctx, fn *ssa.Function, want []int64) []CondEdge {
	get := c.Method("util", "RequestContext", "GetStmtType")
	isWanted := func(v int64) bool {
		for _, w := range want {
			if w == v {
				return true
			}
		}
		return false
	}
	var out []CondEdge
	allInstrs(fn, func(in ssa.Instruction) {
		b, ok := in.(*ssa.BinOp)
		if !ok || (b.Op != token.EQL && b.Op != token.NEQ) {
			return
		}
		var other ssa.Value
		var k int64
		if v, ok := constInt(b.Y); ok {
			other, k = b.X, v
		} else if v, ok := constInt(b.X); ok {
			other, k = b.Y, v
		} else {
			return
		}
		call, ok := stripValue(resolveLoad(other)).(*ssa.Call)
		if !ok || !callsFunc(&call.Call, get) || !isWanted(k) {
			return
		}
		for _, e := range condEdges(b) {
			eq := e.Val
			if b.Op == token.NEQ {
				eq = !e.Val
			}
			if eq {
				out = append(out, e)
			}
		}
	})
	return out
}

// ---------------------------------------------------------------------------------------
// C16

func ruleC16(c *Ctx, r *Report) {
	r.floor("MP-C16a", 1)
	r.floor("MP-C16b", 3)
	r.floor("WM-C16", 3)
	exec := c.seMethod("handleStmtExecute")
	bind := c.seMethod("bindStmtArgs")
	reset := c.Method(serverRel, "Stmt", "ResetParams")
	if exec == nil || bind == nil || reset == nil {
		r.undecided("MP-C16a", "proxy/server", "anchor", "-", "handleStmtExecute/bindStmtArgs/ResetParams not found")
		return
	}
	en := c.FuncName(exec)
	binds := callsIn(exec, func(cc *ssa.CallCommon) bool { return callsFunc(cc, bind) })
	if len(binds) == 0 {
		r.undecided("MP-C16a", en, "call:bindStmtArgs", c.Pos(exec.Pos()), "no bind call")
	}
	isReset := func(cc *ssa.CallCommon, stmt ssa.Value) bool {
		return cc != nil && callsFunc(cc, reset) && len(cc.Args) > 0 && sameVal(cc.Args[0], stmt)
	}
	for i, b := range binds {
		cons := fmt.Sprintf("call:bindStmtArgs#%d->ResetParams", i+1)
		stmt := callCommon(b).Args[1]
		if dominatingDefer(exec, b, func(d *ssa.Defer) bool { return isReset(&d.Call, stmt) }) {
			r.ok("MP-C16a", en, cons, c.Pos(b.Pos()), "a deferred ResetParams is registered before binding: it runs on every exit")
			continue
		}
		exits := searchExits(exec, b, nil, SearchOpts{
			Stop:      func(in ssa.Instruction) bool { _, isD := in.(*ssa.Defer); return !isD && isReset(callCommon(in), stmt) },
			DeferStop: func(d *ssa.Defer) bool { return isReset(&d.Call, stmt) },
		})
		if len(exits) == 0 {
			r.ok("MP-C16a", en, cons, c.Pos(b.Pos()), "every path after binding passes ResetParams")
		} else {
			r.viol("MP-C16a", en, cons, c.Pos(b.Pos()), fmt.Sprintf("%d exit(s) after binding leave the bound arguments in place (first at %s): a failed execution leaves parameters behind for the next execution", len(exits), c.Pos(exitPos(exits[0].Instr))), c.pathStrings(exits[0])...)
		}
	}
	// writers of Stmt.args
	argsF := c.Field(serverRel, "Stmt", "args")
	allowedW := map[*ssa.Function]string{bind: "binds execute parameters", reset: "clears", c.seMethod("handleStmtSendLongData"): "long data"}
	writers := map[*ssa.Function]ssa.Instruction{}
	for _, fn := range c.Funcs {
		if c.IsMockFunc(fn) {
			continue
		}
		allInstrs(fn, func(in ssa.Instruction) {
			st, ok := in.(*ssa.Store)
			if !ok {
				return
			}
			if fieldOfAddr(st.Addr) == argsF {
				writers[fn] = in
				return
			}
			if ia, ok := st.Addr.(*ssa.IndexAddr); ok && loadedField(ia.X) == argsF {
				writers[fn] = in
			}
		})
	}
	for fn, in := range writers {
		if why, ok := allowedVia(c, allowedW, fn); ok {
			r.ok("WM-C16", c.FuncName(fn), "write:Stmt.args", c.Pos(in.Pos()), why)
		} else {
			r.viol("WM-C16", c.FuncName(fn), "write:Stmt.args", c.Pos(in.Pos()), "bound arguments written outside bind/long-data/reset")
		}
	}
	// b: lookups of se.stmts
	stmtsF := c.Field(serverRel, "SessionExecutor", "stmts")
	for _, fn := range c.Funcs {
		if c.IsMockFunc(fn) {
			continue
		}
		allInstrs(fn, func(in ssa.Instruction) {
			lk, ok := in.(*ssa.Lookup)
			if !ok || loadedField(lk.X) != stmtsF {
				return
			}
			name := c.FuncName(fn)
			cons := "lookup:stmts"
			if !lk.CommaOk {
				r.viol("MP-C16b", name, cons, c.Pos(lk.Pos()), "statement id looked up without testing presence: an unknown or closed id yields a nil statement instead of an error")
				return
			}
			var bad []Exit
			nEdges := 0
			for _, e := range commaOkEdges(lk) {
				if e.Val {
					continue
				}
				nEdges++
				start := e.If.Block().Succs[e.Succ]
				bad = append(bad, searchExits(fn, nil, start, SearchOpts{ExitOK: func(x ssa.Instruction) bool {
					ret, ok := x.(*ssa.Return)
					if !ok {
						return true // explicit panic is a failure too
					}
					isNil, known := returnsNilError(ret)
					return known && !isNil
				}})...)
			}
			if nEdges == 0 {
				r.viol("MP-C16b", name, cons, c.Pos(lk.Pos()), "presence flag of the statement lookup is never branched on")
			} else if len(bad) == 0 {
				r.ok("MP-C16b", name, cons, c.Pos(lk.Pos()), "the miss edge reaches only error returns")
			} else {
				r.viol("MP-C16b", name, cons, c.Pos(lk.Pos()), "a command on an unknown statement id can complete without an error", c.pathStrings(bad[0])...)
			}
		})
	}
}

// ---------------------------------------------------------------------------------------
// C20

var controlSQLPrefixes = map[string]bool{"savepoint ": true, "rollback to ": true, "release savepoint ": true}

func ruleC20(c *Ctx, r *Report) {
	r.floor("MP-C20a", 3)
	r.floor("MP-C20b", 2)
	initBC := c.Func(serverRel, "initBackendConn")
	exec := c.pcMethod("Execute")
	fl := c.pcMethod("FieldList")
	sync := c.pcMethod("SyncSessionVariables")
	wss := c.pcMethod("WriteSetStatement")
	closeM := c.pcMethod("Close")
	if initBC == nil || exec == nil || fl == nil || sync == nil || wss == nil || closeM == nil {
		r.undecided("MP-C20a", "proxy/server", "anchor", "-", "initBackendConn or PooledConnect methods not found")
		return
	}
	inServer := func(fn *ssa.Function) bool {
		root := fn
		for root.Parent() != nil {
			root = root.Parent()
		}
		return root.Pkg != nil && root.Pkg.Pkg.Path() == modPath+"/"+serverRel
	}
	for _, s := range c.callSites(func(cc *ssa.CallCommon) bool { return callsIfaceMethod(cc, exec) || callsIfaceMethod(cc, fl) }) {
		if !inServer(s.Fn) {
			continue
		}
		cc := callCommon(s.In)
		name := c.FuncName(s.Fn)
		which := "Execute"
		if callsIfaceMethod(cc, fl) {
			which = "FieldList"
		}
		cons := "call:PooledConnect." + which + "@" + ordinalOfIface(s.In, exec, fl)
		if which == "Execute" {
			sql := cc.Args[0]
			if _, ok := constString(sql); ok {
				r.ok("MP-C20a", name, cons, c.Pos(s.In.Pos()), "constant control SQL (no client text)")
				continue
			}
			if b, ok := sql.(*ssa.BinOp); ok && b.Op == token.ADD {
				if p, ok := constString(b.X); ok && controlSQLPrefixes[p] {
					r.ok("MP-C20a", name, cons, c.Pos(s.In.Pos()), "transaction-control statement '"+p+"…' on the transaction's own connections")
					continue
				}
			}
		}
		pc := recvOf(cc)
		dom := false
		for _, ci := range callsIn(s.Fn, func(x *ssa.CallCommon) bool { return callsFunc(x, initBC) }) {
			call := ci.(*ssa.Call)
			if sameVal(call.Call.Args[0], pc) && dominatedByNilErr(s.In, call) {
				dom = true
			}
		}
		if dom {
			r.ok("MP-C20a", name, cons, c.Pos(s.In.Pos()), "dominated by initBackendConn(pc,…)==nil on the same connection")
		} else {
			r.viol("MP-C20a", name, cons, c.Pos(s.In.Pos()), "client SQL is sent on a connection that was not synchronised with the client's charset and session variables on this path")
		}
	}
	// transaction connection stored only after SyncSessionVariables succeeded
	gtc := c.seMethod("getTransactionConn")
	txF := c.Field(serverRel, "SessionExecutor", "txConns")
	if gtc != nil {
		n := 0
		allInstrs(gtc, func(in ssa.Instruction) {
			mu, ok := in.(*ssa.MapUpdate)
			if !ok || loadedField(mu.Map) != txF {
				return
			}
			n++
			dom := false
			for _, ci := range callsIn(gtc, func(x *ssa.CallCommon) bool { return callsIfaceMethod(x, sync) }) {
				call := ci.(*ssa.Call)
				if sameVal(recvOf(&call.Call), mu.Value) && dominatedByNilErr(mu, call) {
					dom = true
				}
			}
			// or after a package-private helper that returns nil only after SyncSessionVariables()==nil on its parameter
			for h, pi := range syncHelpers(c, sync, inServer) {
				for _, ci := range callsIn(gtc, func(x *ssa.CallCommon) bool { return callsFunc(x, h) }) {
					call, ok := ci.(*ssa.Call)
					if ok && pi < len(call.Call.Args) && sameVal(call.Call.Args[pi], mu.Value) && dominatedByNilErr(mu, call) {
						dom = true
					}
				}
			}
			if dom {
				r.ok("MP-C20a", c.FuncName(gtc), "store:txConns", c.Pos(mu.Pos()), "transaction connection is stored only after SyncSessionVariables()==nil on it")
			} else {
				r.viol("MP-C20a", c.FuncName(gtc), "store:txConns", c.Pos(mu.Pos()), "a transaction connection is stored without its session variables having been synchronised first")
			}
		})
		if n == 0 {
			r.undecided("MP-C20a", c.FuncName(gtc), "store:txConns", c.Pos(gtc.Pos()), "no store into txConns")
		}
	}
	// b: error edges of the SET statement
	for _, s := range c.callSites(func(cc *ssa.CallCommon) bool { return callsIfaceMethod(cc, sync) || callsIfaceMethod(cc, wss) }) {
		if !inServer(s.Fn) {
			continue
		}
		call, ok := s.In.(*ssa.Call)
		if !ok {
			continue
		}
		pc := recvOf(&call.Call)
		name := c.FuncName(s.Fn)
		which := "SyncSessionVariables"
		if callsIfaceMethod(&call.Call, wss) {
			which = "WriteSetStatement"
		}
		cons := "error-edge:" + which
		var bad []Exit
		ne := 0
		for _, e := range errNilEdgesOfCall(call) {
			if e.Val {
				continue
			}
			ne++
			start := e.If.Block().Succs[e.Succ]
			bad = append(bad, searchExits(s.Fn, nil, start, SearchOpts{Stop: func(in ssa.Instruction) bool {
				x := callCommon(in)
				return x != nil && callsIfaceMethod(x, closeM) && sameVal(recvOf(x), pc)
			}})...)
		}
		// a package-private helper that hands the SET's error back unchanged delegates the failure edge: every
		// caller must then close the connection it passed on the helper's non-nil edge
		delegated := false
		if pi, ok := delegatesSetError(s.Fn, call, pc, bad, ne); ok {
			delegated = true
			callers := c.callSites(func(x *ssa.CallCommon) bool { return callsFunc(x, s.Fn) })
			good := len(callers) > 0
			for _, cs := range callers {
				hc, isCall := cs.In.(*ssa.Call)
				cname := c.FuncName(cs.Fn)
				ccons := cons + ":via:" + s.Fn.Name()
				if !isCall || pi >= len(hc.Call.Args) {
					r.viol("MP-C20b", cname, ccons, c.Pos(cs.In.Pos()), "helper that returns the SET's error is called with go/defer: nobody sees the failure")
					good = false
					continue
				}
				arg := hc.Call.Args[pi]
				var cbad []Exit
				cne := 0
				for _, e := range errNilEdgesOfCall(hc) {
					if e.Val {
						continue
					}
					cne++
					cbad = append(cbad, searchExits(cs.Fn, nil, e.If.Block().Succs[e.Succ], SearchOpts{Stop: func(in ssa.Instruction) bool {
						x := callCommon(in)
						return x != nil && callsIfaceMethod(x, closeM) && sameVal(recvOf(x), arg)
					}})...)
				}
				switch {
				case cne == 0:
					r.viol("MP-C20b", cname, ccons, c.Pos(hc.Pos()), "the SET statement's error (returned by "+s.Fn.Name()+") is not branched on here")
					good = false
				case len(cbad) > 0:
					r.viol("MP-C20b", cname, ccons, c.Pos(hc.Pos()), "after a failed SET inside "+s.Fn.Name()+" the connection stays open: the pool keeps a connection whose belief differs from the backend's state", c.pathStrings(cbad[0])...)
					good = false
				default:
					r.ok("MP-C20b", cname, ccons, c.Pos(hc.Pos()), "on the helper's failure edge the connection is closed before the function returns")
				}
			}
			if good {
				r.ok("MP-C20b", name, cons, c.Pos(call.Pos()), fmt.Sprintf("the SET's error is returned unchanged to %d caller(s), each of which closes the connection on it", len(callers)))
			} else {
				r.viol("MP-C20b", name, cons, c.Pos(call.Pos()), "the SET's error is handed to callers that do not all close the connection on it")
			}
			if ne == 0 {
				continue
			}
			bad = nil
		} else if ne == 0 {
			// error returned directly (return pc.SyncSessionVariables(...)): the caller owns the edge
			r.viol("MP-C20b", name, cons, c.Pos(call.Pos()), "the SET statement's error is not branched on here")
			continue
		}
		// on the failure edge the connection's belief is never moved (further) towards the client's settings: the backend
		// applied nothing of the rejected SET
		{
			setVars := c.IfaceMethod("backend", "PooledConnect", "SetSessionVariables")
			setCs := c.IfaceMethod("backend", "PooledConnect", "SetCharset")
			var moved ssa.Instruction
			for _, e := range errNilEdgesOfCall(call) {
				if e.Val {
					continue
				}
				searchExits(s.Fn, nil, e.If.Block().Succs[e.Succ], SearchOpts{Stop: func(in ssa.Instruction) bool {
					x := callCommon(in)
					if x != nil && (callsIfaceMethod(x, setVars) || callsIfaceMethod(x, setCs)) && sameVal(recvOf(x), pc) {
						moved = in
					}
					return false
				}})
			}
			if moved != nil {
				r.viol("MP-C20b", name, cons+":no-belief-update", c.Pos(moved.Pos()), "after the backend rejected the SET, the connection's cached charset/variables are set to the client's settings anyway: the next statement finds nothing to synchronise and runs with the backend's old settings")
			} else {
				r.ok("MP-C20b", name, cons+":no-belief-update", c.Pos(call.Pos()), "the failure edge does not move the connection's cached settings")
			}
		}
		if delegated {
			continue
		}
		if len(bad) == 0 {
			r.ok("MP-C20b", name, cons, c.Pos(call.Pos()), "on failure the connection is closed before the function returns: no wrong belief reaches the pool")
		} else {
			r.viol("MP-C20b", name, cons, c.Pos(call.Pos()), "after a failed SET the connection stays open with its cached charset/variables already updated: the pool keeps a connection whose belief differs from the backend's state", c.pathStrings(bad[0])...)
		}
	}
}

// ordinalOfIface: ordinal of this call among calls of the given interface methods in its function.
func ordinalOfIface(in ssa.Instruction, ms ...*types.Func) string {
	n, idx := 0, 0
	allInstrs(in.Parent(), func(x ssa.Instruction) {
		cc := callCommon(x)
		if cc == nil {
			return
		}
		for _, m := range ms {
			if callsIfaceMethod(cc, m) {
				n++
				if x == in {
					idx = n
				}
				return
			}
		}
	})
	return fmt.Sprint(idx)
}

func init() {
	register("C17", "Clauses decided: (split) boundaries are decided on the SQL lexer's own token stream — in parser.SplitStatementToPieces every returned piece was appended inside the tokenizer loop or is the whole text (two constant fast paths); a second, lexer-free way of splitting is reported (what the lexer itself accepts is not examined); (stop) the first failing statement stops execution and every piece is executed through the checked path: in SessionExecutor.doMultiStmts every piece of the split text is handed to doQuery (the gate of C21) and on the error edge of a piece's doQuery no further piece is executed and no further result is written before the function returns that error; a piece's result is written to the client only on the success edge.",
		ruleC17)
}

func ruleC17(c *Ctx, r *Report) {
	const rule = "MP-C17"
	r.floor(rule, 2)
	fn := c.seMethod("doMultiStmts")
	doQuery := c.seMethod("doQuery")
	split := c.Func("parser", "SplitStatementToPieces")
	writeResp := c.Method(serverRel, "Session", "writeResponse")
	if fn == nil || doQuery == nil || split == nil || writeResp == nil {
		r.undecided(rule, "(*proxy/server.SessionExecutor).doMultiStmts", "anchor", "-", "anchors not found")
		return
	}
	name := c.FuncName(fn)
	n := 0
	for _, ci := range callsIn(fn, func(cc *ssa.CallCommon) bool { return callsFunc(cc, doQuery) }) {
		call, ok := ci.(*ssa.Call)
		if !ok {
			continue
		}
		// only calls inside the loop over the pieces
		inLoop := false
		for _, s := range call.Block().Succs {
			if blockReachable(s, call.Block()) {
				inLoop = true
			}
		}
		if !inLoop {
			continue
		}
		n++
		more := false
		var bad []Exit
		ne := 0
		for _, e := range errNilEdgesOfCall(call) {
			if e.Val {
				continue
			}
			ne++
			bad = append(bad, searchExits(fn, nil, e.If.Block().Succs[e.Succ], SearchOpts{
				Stop: func(in ssa.Instruction) bool {
					cc := callCommon(in)
					if cc != nil && (callsFunc(cc, doQuery) || callsFunc(cc, writeResp)) {
						more = true
						return true
					}
					return false
				},
				ExitOK: func(in ssa.Instruction) bool {
					ret, ok := in.(*ssa.Return)
					if !ok {
						return true
					}
					isNil, known := returnsNilError(ret)
					return known && !isNil
				},
			})...)
		}
		cons := fmt.Sprintf("piece#%d:failure-stops", n)
		switch {
		case ne == 0:
			r.viol(rule, name, cons, c.Pos(call.Pos()), "the error of a piece is not tested: later pieces run after a failed one")
		case more || len(bad) > 0:
			r.viol(rule, name, cons, c.Pos(call.Pos()), "after a piece failed, another piece can still be executed (or a result written, or success returned): the first failing statement does not stop the packet")
		default:
			r.ok(rule, name, cons, c.Pos(call.Pos()), "on the failure edge nothing more is executed or written and the error is returned")
		}
		// results are written only on the success edge
		for _, wi := range callsIn(fn, func(cc *ssa.CallCommon) bool { return callsFunc(cc, writeResp) }) {
			if dominatedByNilErr(wi, call) {
				r.ok(rule, name, fmt.Sprintf("piece#%d:result-written-on-success", n), c.Pos(wi.Pos()), "the intermediate result is written only after the piece succeeded")
			} else {
				r.viol(rule, name, fmt.Sprintf("piece#%d:result-written-on-success", n), c.Pos(wi.Pos()), "an intermediate result can be written for a piece that failed")
			}
		}
	}
	if n == 0 {
		r.undecided(rule, name, "pieces-loop", c.Pos(fn.Pos()), "no doQuery call inside a loop over the pieces")
	}
	// nothing is executed before (or instead of) the split: every doQuery call lies on the splitter's nil-error edge
	{
		splits := callsIn(fn, func(cc *ssa.CallCommon) bool { return callsFunc(cc, split) })
		k := 0
		for _, ci := range callsIn(fn, func(cc *ssa.CallCommon) bool { return callsFunc(cc, doQuery) }) {
			k++
			cons := fmt.Sprintf("execution-after-split#%d", k)
			good := false
			for _, sp := range splits {
				if call, ok := sp.(*ssa.Call); ok && dominatedByNilErr(ci, call) {
					good = true
				}
			}
			if good {
				r.ok(rule, name, cons, c.Pos(ci.Pos()), "runs only after SplitStatementToPieces succeeded")
			} else {
				r.viol(rule, name, cons, c.Pos(ci.Pos()), "a statement text is executed without having been split by SplitStatementToPieces (a shortcut decides by other means that the packet is one statement): the semicolons inside it are not treated as statement boundaries")
			}
		}
	}
	// the pieces come from the splitter (def-use): the loop ranges over its first result
	okSrc := false
	for _, ci := range callsIn(fn, func(cc *ssa.CallCommon) bool { return callsFunc(cc, split) }) {
		if ex := extractOf(ci.(ssa.Value), 0); ex != nil {
			a := aliasSet(ex)
			allInstrs(fn, func(in ssa.Instruction) {
				if ia, ok := in.(*ssa.IndexAddr); ok && a.has(ia.X) {
					okSrc = true
				}
				if rg, ok := in.(*ssa.Range); ok && a.has(rg.X) {
					okSrc = true
				}
			})
		}
	}
	if okSrc {
		r.ok(rule, name, "pieces-from-splitter", c.Pos(fn.Pos()), "the executed pieces are the elements of SplitStatementToPieces' result, in order")
	} else {
		r.viol(rule, name, "pieces-from-splitter", c.Pos(fn.Pos()), "the loop does not iterate over the splitter's result")
	}
}

// ruleC17split (MP-C17split): statement boundaries are decided on the lexer's token stream. In
// parser.SplitStatementToPieces every piece handed back was appended inside the tokenizer loop (the append is dominated by
// a (*Scanner).scan call) or is the whole text / the text minus its last byte (the two constant fast paths); no []string
// produced by anything else (strings.Split and friends) reaches the result.
func init() { register("C17", "", ruleC17split) }

func ruleC17split(c *Ctx, r *Report) {
	const rule = "MP-C17split"
	r.floor(rule, 2)
	fn := c.Func("parser", "SplitStatementToPieces")
	scan := c.Method("parser", "Scanner", "scan")
	if fn == nil || scan == nil {
		r.undecided(rule, "parser.SplitStatementToPieces", "anchor", "-", "SplitStatementToPieces / (*Scanner).scan not found")
		return
	}
	name := c.FuncName(fn)
	scans := callsIn(fn, func(cc *ssa.CallCommon) bool { return callsFunc(cc, scan) })
	if len(scans) == 0 {
		r.viol(rule, name, "pieces:from-token-stream", c.Pos(fn.Pos()), "the splitter does not drive the SQL lexer at all")
		return
	}
	if okInv, why := scanLoopStopsOnInvalid(c, fn, scan); okInv {
		r.ok(rule, name, "pieces:stops-on-invalid-token", c.Pos(fn.Pos()), "the `invalid` token ends the split with an error")
	} else {
		r.viol(rule, name, "pieces:stops-on-invalid-token", c.Pos(fn.Pos()), why)
	}
	blob := ssa.Value(fn.Params[0])
	nret := 0
	for _, ret := range returnsOf(fn) {
		vals, zero := retValues(ret, 0)
		if zero {
			continue
		}
		nret++
		cons := fmt.Sprintf("pieces:from-token-stream#%d", nret)
		bad := ""
		// site: nil at top level; inside a package-private helper, the call of that helper in the splitter (values that
		// are the helper's parameters stand for the call's arguments, and "inside the tokenizer loop" is asked of the call)
		type seenKey struct {
			v    ssa.Value
			site *ssa.Call
		}
		seenAt := map[seenKey]bool{}
		var walk func(v ssa.Value, site *ssa.Call)
		arg := func(v ssa.Value, site *ssa.Call) (ssa.Value, *ssa.Call) {
			v = stripValue(v)
			if p, ok := v.(*ssa.Parameter); ok && site != nil {
				if h := staticCallee(&site.Call); h != nil {
					for k, q := range h.Params {
						if q == p && k < len(site.Call.Args) {
							return stripValue(site.Call.Args[k]), nil
						}
					}
				}
			}
			return v, site
		}
		walk = func(v ssa.Value, site *ssa.Call) {
			v, site = arg(v, site)
			if seenAt[seenKey{v, site}] || bad != "" {
				return
			}
			seenAt[seenKey{v, site}] = true
			switch x := v.(type) {
			case *ssa.Phi:
				for _, e := range x.Edges {
					walk(e, site)
				}
			case *ssa.Const:
			case *ssa.MakeSlice:
			case *ssa.UnOp:
				for _, l := range phiLeaves(x) {
					if l != ssa.Value(x) {
						walk(l, site)
					} else {
						bad = "a piece list of unknown origin is returned"
					}
				}
			case *ssa.Slice:
				// []string{blob} / []string{blob[:len-1]} : a one-element literal holding (a prefix of) the text
				arr, ok := x.X.(*ssa.Alloc)
				if !ok {
					walk(x.X, site)
					return
				}
				for _, e := range variadicElems(x) {
					e, _ = arg(e, site)
					if e == blob {
						continue
					}
					if sl, ok := e.(*ssa.Slice); ok {
						if base, _ := arg(sl.X, site); base == blob {
							continue
						}
					}
					bad = "a literal piece that is not the statement text is returned"
				}
				_ = arr
			case *ssa.Extract:
				if call, ok := x.Tuple.(*ssa.Call); ok && site == nil {
					if h := staticCallee(&call.Call); h != nil && c.InModule(h) && len(h.Blocks) > 0 && h.Object() != nil && !h.Object().Exported() {
						for _, hr := range returnsOf(h) {
							hv, hz := retValues(hr, x.Index)
							if hz {
								continue
							}
							for _, v := range hv {
								walk(v, call)
							}
						}
						return
					}
				}
				bad = "a piece list of unknown origin is returned"
			case *ssa.Call:
				if bi, ok := x.Call.Value.(*ssa.Builtin); ok && bi.Name() == "append" {
					dom := false
					var at ssa.Instruction = x
					if site != nil {
						at = site
					}
					for _, sc := range scans {
						if instrDominates(sc, at) {
							dom = true
						}
					}
					if !dom {
						bad = "pieces are appended outside the tokenizer loop: the text is split without the lexer (quotes, comments of every kind are not seen)"
						return
					}
					walk(x.Call.Args[0], site)
					return
				}
				if h := staticCallee(&x.Call); site == nil && h != nil && c.InModule(h) && len(h.Blocks) > 0 && h.Object() != nil && !h.Object().Exported() && h.Signature.Results().Len() == 1 {
					// a package-private helper (appendPiece): its results are followed as if written in place
					for _, hr := range returnsOf(h) {
						hv, hz := retValues(hr, 0)
						if hz {
							continue
						}
						for _, v := range hv {
							walk(v, x)
						}
					}
					return
				}
				bad = "pieces produced by " + calleeLabel(&x.Call) + " reach the result: the text is split without the lexer, so a ';' inside a comment or literal the lexer would skip starts a new statement"
			default:
				bad = "a piece list of unknown origin is returned"
			}
		}
		for _, v := range vals {
			walk(v, nil)
		}
		if bad == "" {
			r.ok(rule, name, cons, c.Pos(ret.Pos()), "the pieces returned here were cut inside the tokenizer loop (or are the whole text)")
		} else {
			r.viol(rule, name, cons, c.Pos(ret.Pos()), bad)
		}
	}
	if nret == 0 {
		r.undecided(rule, name, "pieces:from-token-stream", c.Pos(fn.Pos()), "no return with pieces found")
	}
}

// syncHelpers returns the package-private functions of proxy/server that take a PooledConnect parameter and return a
// nil error only on paths dominated by SyncSessionVariables()==nil on that parameter, with the parameter's index.
func syncHelpers(c *Ctx, sync *types.Func, inServer func(*ssa.Function) bool) map[*ssa.Function]int {
	out := map[*ssa.Function]int{}
	for _, s := range c.callSites(func(cc *ssa.CallCommon) bool { return callsIfaceMethod(cc, sync) }) {
		call, ok := s.In.(*ssa.Call)
		if !ok || !inServer(s.Fn) || s.Fn.Parent() != nil || s.Fn.Object() == nil || s.Fn.Object().Exported() {
			continue
		}
		p, ok := stripValue(recvOf(&call.Call)).(*ssa.Parameter)
		if !ok || errResultIndex(s.Fn.Signature) < 0 {
			continue
		}
		pi := -1
		for i, q := range s.Fn.Params {
			if q == p {
				pi = i
			}
		}
		good := pi >= 0
		allInstrs(s.Fn, func(in ssa.Instruction) {
			ret, ok := in.(*ssa.Return)
			if !ok {
				return
			}
			if isNil, known := returnsNilError(ret); known && !isNil {
				return
			}
			if !dominatedByNilErr(ret, call) {
				good = false
			}
		})
		if good {
			out[s.Fn] = pi
		}
	}
	return out
}

// delegatesSetError reports whether fn (package-private, pc is its parameter) hands the error of the SET call back to
// its callers unchanged on every failure exit that leaves the connection open (bad), or directly when it does not branch on it (ne==0).
func delegatesSetError(fn *ssa.Function, call *ssa.Call, pc ssa.Value, bad []Exit, ne int) (int, bool) {
	if fn.Parent() != nil || fn.Object() == nil || fn.Object().Exported() {
		return 0, false
	}
	p, ok := stripValue(pc).(*ssa.Parameter)
	if !ok {
		return 0, false
	}
	pi := -1
	for i, q := range fn.Params {
		if q == p {
			pi = i
		}
	}
	idx := errResultIndex(fn.Signature)
	ev := errResultOf(call)
	if pi < 0 || idx < 0 || ev == nil {
		return 0, false
	}
	isSetErr := func(ret *ssa.Return) bool {
		vals, zero := retValues(ret, idx)
		if zero || len(vals) == 0 {
			return false
		}
		for _, v := range vals {
			for _, l := range phiLeaves(v) {
				if !sameVal(l, ev) {
					return false
				}
			}
		}
		return true
	}
	if ne == 0 {
		// return pc.SyncSessionVariables(...): the error value flows straight into a return
		n := 0
		allInstrs(fn, func(in ssa.Instruction) {
			if ret, ok := in.(*ssa.Return); ok && isSetErr(ret) {
				n++
			}
		})
		return pi, n > 0
	}
	if len(bad) == 0 {
		return 0, false
	}
	for _, e := range bad {
		ret, ok := e.Instr.(*ssa.Return)
		if !ok || !isSetErr(ret) {
			return 0, false
		}
	}
	return pi, true
}
