package main

import (
	"fmt"
	"go/constant"
	"go/token"
	"go/types"
	"strings"

	"golang.org/x/tools/go/ssa"
)

// ---------------------------------------------------------------------------------------
// call helpers (resolution by type information only)

func callCommon(in ssa.Instruction) *ssa.CallCommon {
	switch x := in.(type) {
	case *ssa.Call:
		return &x.Call
	case *ssa.Defer:
		return &x.Call
	case *ssa.Go:
		return &x.Call
	}
	return nil
}

// staticCallee returns the statically known callee, looking through closures bound to a MakeClosure value.
func staticCallee(cc *ssa.CallCommon) *ssa.Function {
	if cc == nil {
		return nil
	}
	if f := cc.StaticCallee(); f != nil {
		return f
	}
	return nil
}

// callsFunc reports whether cc is a static call of fn.
func callsFunc(cc *ssa.CallCommon, fn *ssa.Function) bool {
	return cc != nil && fn != nil && staticCallee(cc) == fn
}

// implementsMethod reports whether cc calls the interface method m (dynamic invoke through an interface
// that has m or an identically named method of an interface embedding it) or a concrete method with the
// same name whose receiver type implements m's interface.
func callsIfaceMethod(cc *ssa.CallCommon, m *types.Func) bool {
	if cc == nil || m == nil {
		return false
	}
	sig := m.Type().(*types.Signature)
	recv := sig.Recv()
	if recv == nil {
		return false
	}
	iface, _ := recv.Type().Underlying().(*types.Interface)
	if cc.IsInvoke() {
		if cc.Method == m {
			return true
		}
		if cc.Method.Name() != m.Name() {
			return false
		}
		// the invoked interface embeds or duplicates m's interface: identical signature and the static
		// interface type implements iface
		if iface != nil && types.Implements(cc.Value.Type(), iface) {
			return true
		}
		return false
	}
	f := staticCallee(cc)
	if f == nil || f.Name() != m.Name() || f.Signature.Recv() == nil || iface == nil {
		return false
	}
	rt := f.Signature.Recv().Type()
	return types.Implements(rt, iface)
}

// recvOf returns the receiver value of a method call (invoke or static method), else nil.
func recvOf(cc *ssa.CallCommon) ssa.Value {
	if cc == nil {
		return nil
	}
	if cc.IsInvoke() {
		return cc.Value
	}
	if f := staticCallee(cc); f != nil && f.Signature.Recv() != nil && len(cc.Args) > 0 {
		return cc.Args[0]
	}
	return nil
}

// ---------------------------------------------------------------------------------------
// value helpers

// stripValue looks through conversions that preserve identity (ChangeType, ChangeInterface, MakeInterface,
// TypeAssert without comma-ok is kept opaque).
func stripValue(v ssa.Value) ssa.Value {
	for {
		switch x := v.(type) {
		case *ssa.ChangeType:
			v = x.X
		case *ssa.ChangeInterface:
			v = x.X
		case *ssa.MakeInterface:
			v = x.X
		default:
			return v
		}
	}
}

// fieldOfAddr: if v is a FieldAddr (possibly through nothing else) returns the field object.
func fieldOfAddr(v ssa.Value) *types.Var {
	fa, ok := v.(*ssa.FieldAddr)
	if !ok {
		return nil
	}
	return structField(fa.X.Type(), fa.Field)
}

func structField(t types.Type, idx int) *types.Var {
	if p, ok := t.Underlying().(*types.Pointer); ok {
		t = p.Elem()
	}
	st, ok := t.Underlying().(*types.Struct)
	if !ok || idx >= st.NumFields() {
		return nil
	}
	return st.Field(idx)
}

// loadedField: if v is a load (*addr) of a field address, or a Field extraction, returns the field.
func loadedField(v ssa.Value) *types.Var {
	switch x := v.(type) {
	case *ssa.UnOp:
		if x.Op == token.MUL {
			return fieldOfAddr(x.X)
		}
	case *ssa.Field:
		return structField(x.X.Type(), x.Field)
	}
	return nil
}

func isNilConst(v ssa.Value) bool {
	c, ok := v.(*ssa.Const)
	return ok && c.Value == nil && !isBasic(c.Type())
}

func isBasic(t types.Type) bool {
	_, ok := t.Underlying().(*types.Basic)
	return ok
}

func constBool(v ssa.Value) (bool, bool) {
	c, ok := v.(*ssa.Const)
	if !ok || c.Value == nil || c.Value.Kind() != constant.Bool {
		return false, false
	}
	return constant.BoolVal(c.Value), true
}

func constInt(v ssa.Value) (int64, bool) {
	c, ok := v.(*ssa.Const)
	if !ok || c.Value == nil || c.Value.Kind() != constant.Int {
		return 0, false
	}
	i, ok2 := constant.Int64Val(c.Value)
	return i, ok2
}

func constString(v ssa.Value) (string, bool) {
	c, ok := v.(*ssa.Const)
	if !ok || c.Value == nil || c.Value.Kind() != constant.String {
		return "", false
	}
	return constant.StringVal(c.Value), true
}

// ---------------------------------------------------------------------------------------
// branch facts

// CondEdge is an outgoing edge of an If block together with the truth value the tested value has on it.
type CondEdge struct {
	If   *ssa.If
	Succ int  // 0 = true branch of the If, 1 = false branch
	Val  bool // truth value of the *queried* value on this edge
}

// condEdges returns, for boolean value v, every If edge on which v's truth value is known:
// If(v), If(!v), If(v == true/false), and short-circuit phi chains are NOT followed (the repo's idioms branch directly).
func condEdges(v0 ssa.Value) []CondEdge {
	var out []CondEdge
	for _, v := range aliases(v0) {
		out = append(out, condEdges1(v)...)
	}
	return out
}

func condEdges1(v ssa.Value) []CondEdge {
	var out []CondEdge
	var walk func(x ssa.Value, neg bool, depth int)
	walk = func(x ssa.Value, neg bool, depth int) {
		if depth > 4 || x == nil {
			return
		}
		refs := x.Referrers()
		if refs == nil {
			return
		}
		for _, r := range *refs {
			switch u := r.(type) {
			case *ssa.If:
				if u.Cond == x {
					out = append(out, CondEdge{If: u, Succ: 0, Val: !neg}, CondEdge{If: u, Succ: 1, Val: neg})
				}
			case *ssa.UnOp:
				if u.Op == token.NOT {
					walk(u, !neg, depth+1)
				}
			case *ssa.BinOp:
				if u.Op == token.EQL || u.Op == token.NEQ {
					other := u.Y
					if other == x {
						other = u.X
					}
					if b, ok := constBool(other); ok {
						flip := (u.Op == token.EQL) != b // x==false or x!=true flips
						walk(u, neg != flip, depth+1)
					}
				}
			}
		}
	}
	walk(v, false, 0)
	return out
}

// nilEdges returns If edges on which value v is known nil (Val=true) / non-nil (Val=false).
func nilEdges(v0 ssa.Value) []CondEdge {
	var out []CondEdge
	for _, v := range aliases(v0) {
		out = append(out, nilEdges1(v)...)
	}
	return out
}

func nilEdges1(v ssa.Value) []CondEdge {
	var out []CondEdge
	refs := v.Referrers()
	if refs == nil {
		return nil
	}
	for _, r := range *refs {
		b, ok := r.(*ssa.BinOp)
		if !ok || (b.Op != token.EQL && b.Op != token.NEQ) {
			continue
		}
		other := b.Y
		if other == v {
			other = b.X
		}
		if !isNilConst(other) {
			continue
		}
		for _, ce := range condEdges(b) {
			// ce.Val = truth of (v ==/!= nil)
			isNil := ce.Val
			if b.Op == token.NEQ {
				isNil = !ce.Val
			}
			out = append(out, CondEdge{If: ce.If, Succ: ce.Succ, Val: isNil})
		}
	}
	return out
}

// edgeDominates reports whether every path from the entry of fn to block target passes through the CFG edge
// from -> from.Succs[succ]. (target unreachable from entry => true vacuously, callers check reachability.)
func edgeDominates(fn *ssa.Function, from *ssa.BasicBlock, succ int, target *ssa.BasicBlock) bool {
	if len(fn.Blocks) == 0 {
		return false
	}
	seen := map[*ssa.BasicBlock]bool{}
	var stack []*ssa.BasicBlock
	push := func(b *ssa.BasicBlock) {
		if !seen[b] {
			seen[b] = true
			stack = append(stack, b)
		}
	}
	push(fn.Blocks[0])
	for len(stack) > 0 {
		b := stack[len(stack)-1]
		stack = stack[:len(stack)-1]
		if b == target {
			return false
		}
		for i, s := range b.Succs {
			if b == from && i == succ {
				continue
			}
			// an If with both successors equal: the other index still reaches it
			push(s)
		}
	}
	return true
}

// instrDominatedByEdge: instruction in is dominated by edge ce (in the sense of edgeDominates on its block).
func instrDominatedByEdge(in ssa.Instruction, ce CondEdge) bool {
	return edgeDominates(in.Parent(), ce.If.Block(), ce.Succ, in.Block())
}

// dominatedByCond reports whether instruction `in` is dominated by some edge on which boolean value v has truth `want`.
func dominatedByCond(in ssa.Instruction, v ssa.Value, want bool) bool {
	for _, ce := range condEdges(v) {
		if ce.Val == want && instrDominatedByEdge(in, ce) {
			return true
		}
	}
	return false
}

// instrIndex returns the index of in within its block.
func instrIndex(in ssa.Instruction) int {
	for i, x := range in.Block().Instrs {
		if x == in {
			return i
		}
	}
	return -1
}

// instrDominates: a executes before b on every path to b (same function).
func instrDominates(a, b ssa.Instruction) bool {
	if a.Block() == b.Block() {
		return instrIndex(a) < instrIndex(b)
	}
	return a.Block().Dominates(b.Block())
}

// ---------------------------------------------------------------------------------------
// path search

type Exit struct {
	Instr ssa.Instruction // *ssa.Return or *ssa.Panic
	Path  []*ssa.BasicBlock
}

type SearchOpts struct {
	// Stop: the obligation is discharged at this instruction (path ends, fine).
	Stop func(in ssa.Instruction) bool
	// DeferStop: a Defer instruction whose deferred call discharges the obligation for every later exit.
	DeferStop func(d *ssa.Defer) bool
	// EdgeOK: return false to prune edge b -> b.Succs[i] (infeasible or obligation-free by idiom).
	EdgeOK func(b *ssa.BasicBlock, i int) bool
	// ExitOK: an exit that carries no obligation (e.g. returns a non-nil error when that is accepted).
	ExitOK func(in ssa.Instruction) bool
	// PanicIsExit: treat explicit panic as an exit that must be discharged (default: yes).
	IgnorePanic bool
}

// searchExits explores every path starting right after instruction `from` (or at the start of block startBlock
// when from==nil) and returns the exits reached without passing a Stop/DeferStop instruction.
func searchExits(fn *ssa.Function, from ssa.Instruction, startBlock *ssa.BasicBlock, o SearchOpts) []Exit {
	var exits []Exit
	type item struct {
		b     *ssa.BasicBlock
		start int
		path  []*ssa.BasicBlock
	}
	seen := map[*ssa.BasicBlock]bool{}
	var q []item
	if from != nil {
		q = append(q, item{from.Block(), instrIndex(from) + 1, []*ssa.BasicBlock{from.Block()}})
	} else {
		q = append(q, item{startBlock, 0, []*ssa.BasicBlock{startBlock}})
		seen[startBlock] = true
	}
	for len(q) > 0 {
		it := q[0]
		q = q[1:]
		stopped := false
		for i := it.start; i < len(it.b.Instrs); i++ {
			in := it.b.Instrs[i]
			if d, ok := in.(*ssa.Defer); ok && o.DeferStop != nil && o.DeferStop(d) {
				stopped = true
				break
			}
			if o.Stop != nil && o.Stop(in) {
				stopped = true
				break
			}
			switch in.(type) {
			case *ssa.Return:
				if o.ExitOK == nil || !o.ExitOK(in) {
					exits = append(exits, Exit{in, it.path})
				}
				stopped = true
			case *ssa.Panic:
				if !o.IgnorePanic && (o.ExitOK == nil || !o.ExitOK(in)) {
					exits = append(exits, Exit{in, it.path})
				}
				stopped = true
			}
			if stopped {
				break
			}
		}
		if stopped {
			continue
		}
		for i, s := range it.b.Succs {
			if o.EdgeOK != nil && !o.EdgeOK(it.b, i) {
				continue
			}
			if seen[s] {
				continue
			}
			seen[s] = true
			np := append(append([]*ssa.BasicBlock{}, it.path...), s)
			q = append(q, item{s, 0, np})
		}
	}
	return exits
}

// dominatingDefer reports whether a Defer satisfying pred is executed on every path before instruction `in`.
func dominatingDefer(fn *ssa.Function, in ssa.Instruction, pred func(d *ssa.Defer) bool) bool {
	for _, b := range fn.Blocks {
		for _, x := range b.Instrs {
			if d, ok := x.(*ssa.Defer); ok && pred(d) && instrDominates(d, in) {
				return true
			}
		}
	}
	return false
}

func (c *Ctx) pathStrings(e Exit) []string {
	var out []string
	for _, b := range e.Path {
		pos := token.NoPos
		for _, in := range b.Instrs {
			if in.Pos().IsValid() {
				pos = in.Pos()
				break
			}
		}
		out = append(out, fmt.Sprintf("block %d (%s) %s", b.Index, b.Comment, c.Pos(pos)))
	}
	out = append(out, fmt.Sprintf("exit: %s at %s", e.Instr.String(), c.Pos(exitPos(e.Instr))))
	return out
}

func exitPos(in ssa.Instruction) token.Pos {
	if in.Pos().IsValid() {
		return in.Pos()
	}
	// Return instructions of naked returns have NoPos sometimes: use the last positioned instruction in the block
	b := in.Block()
	p := token.NoPos
	for _, x := range b.Instrs {
		if x.Pos().IsValid() {
			p = x.Pos()
		}
	}
	return p
}

// ---------------------------------------------------------------------------------------
// returned-error facts

// errResultIndex returns the index of the last result if it is of type error, else -1.
func errResultIndex(sig *types.Signature) int {
	n := sig.Results().Len()
	if n == 0 {
		return -1
	}
	if isErrorType(sig.Results().At(n - 1).Type()) {
		return n - 1
	}
	return -1
}

func isErrorType(t types.Type) bool {
	n, ok := t.(*types.Named)
	return ok && n.Obj().Pkg() == nil && n.Obj().Name() == "error"
}

// returnsNilError: the Return instruction's error result is the constant nil.
// When the function spills results into cells (functions with defer), the returned value is a load of the
// result cell: then the last store to that cell in the same block before the return is examined; if it cannot be
// determined the answer is (false, false).
func returnsNilError(ret *ssa.Return) (isNil bool, known bool) {
	fn := ret.Parent()
	idx := errResultIndex(fn.Signature)
	if idx < 0 || idx >= len(ret.Results) {
		return false, false
	}
	return valueIsNil(ret.Results[idx], ret, 0)
}

// valueIsNil decides whether value v (used at instruction `at`) is definitely nil (true,true), definitely non-nil
// (false,true) or unknown (_,false). Branch facts are honoured: a call result that every path from its definition to
// `at` has tested == nil (resp. != nil) is known.
func valueIsNil(v ssa.Value, at ssa.Instruction, depth int) (isNil bool, known bool) {
	if depth > 6 {
		return false, false
	}
	v = stripValue(v)
	if isNilConst(v) {
		return true, true
	}
	combine := func(parts [][2]bool) (bool, bool) {
		allNil, allNon := true, true
		for _, p := range parts {
			if !p[1] {
				return false, false
			}
			if p[0] {
				allNon = false
			} else {
				allNil = false
			}
		}
		if len(parts) == 0 {
			return false, false
		}
		if allNil {
			return true, true
		}
		if allNon {
			return false, true
		}
		return false, false
	}
	switch x := v.(type) {
	case *ssa.Const:
		return false, true
	case *ssa.MakeInterface, *ssa.Alloc, *ssa.MakeClosure, *ssa.MakeMap, *ssa.MakeSlice, *ssa.MakeChan:
		return false, true
	case *ssa.Call, *ssa.Extract:
		def := x.(ssa.Instruction)
		if at != nil {
			if factOnAllPaths(v, def, at, true) {
				return true, true
			}
			if factOnAllPaths(v, def, at, false) {
				return false, true
			}
		}
		if call, ok := x.(*ssa.Call); ok {
			// error constructors are non-nil
			if f := call.Call.StaticCallee(); f != nil {
				n := f.Name()
				if strings.HasPrefix(n, "New") || strings.HasPrefix(n, "Errorf") || n == "Wrap" || n == "Wrapf" || n == "Trace" {
					return false, true
				}
			}
		}
		return false, false
	case *ssa.UnOp:
		if x.Op == token.MUL {
			if _, ok := x.X.(*ssa.Global); ok {
				return false, true // package-level error variables (var ErrX = errors.New(...)) are non-nil by convention
			}
			if cell, isCell := x.X.(*ssa.Alloc); isCell {
				sts, zero, ok := reachingStores(cell, x)
				if ok && len(sts)+b2i(zero) > 0 {
					var parts [][2]bool
					if zero {
						parts = append(parts, [2]bool{true, true})
					}
					for _, st := range sts {
						sv := stripValue(st.Val)
						if _, isDef := sv.(ssa.Instruction); isDef && at != nil {
							if factOnAllPaths(sv, st, at, true) {
								parts = append(parts, [2]bool{true, true})
								continue
							}
							if factOnAllPaths(sv, st, at, false) {
								parts = append(parts, [2]bool{false, true})
								continue
							}
						}
						n, k := valueIsNil(st.Val, st, depth+1)
						parts = append(parts, [2]bool{n, k})
					}
					return combine(parts)
				}
			}
		}
	case *ssa.Phi:
		var parts [][2]bool
		for i, e := range x.Edges {
			var pat ssa.Instruction
			if i < len(x.Block().Preds) {
				p := x.Block().Preds[i]
				pat = p.Instrs[len(p.Instrs)-1]
			}
			// the fact may be established on the very edge pred -> phi block
			if i < len(x.Block().Preds) {
				p := x.Block().Preds[i]
				decided := false
				for _, ne := range nilEdges(stripValue(e)) {
					if ne.If.Block() == p && p.Succs[ne.Succ] == x.Block() {
						other := 1 - ne.Succ
						if other < len(p.Succs) && p.Succs[other] == x.Block() {
							continue // both successors are the phi block: edge gives no fact
						}
						parts = append(parts, [2]bool{ne.Val, true})
						decided = true
						break
					}
				}
				if decided {
					continue
				}
			}
			n, k := valueIsNil(e, pat, depth+1)
			parts = append(parts, [2]bool{n, k})
		}
		return combine(parts)
	}
	return false, false
}

// factOnAllPaths: every CFG path from instruction `from` to instruction `to` crosses an If edge on which v (or one of
// its aliases) is known nil (wantNil) / non-nil (!wantNil). False when `to` is not reachable at all.
func factOnAllPaths(v ssa.Value, from, to ssa.Instruction, wantNil bool) bool {
	cut := map[[2]int]bool{}
	for _, e := range nilEdges(v) {
		if e.Val == wantNil {
			cut[[2]int{e.If.Block().Index, e.Succ}] = true
		}
	}
	if len(cut) == 0 {
		return false
	}
	if from.Block() == to.Block() && instrIndex(from) < instrIndex(to) {
		return false // reaches `to` without crossing any edge
	}
	reachedPlain := false
	reachable := false
	seen := map[*ssa.BasicBlock]bool{}
	var stack []*ssa.BasicBlock
	pushSuccs := func(b *ssa.BasicBlock) {
		for i, s := range b.Succs {
			if cut[[2]int{b.Index, i}] {
				continue
			}
			if !seen[s] {
				seen[s] = true
				stack = append(stack, s)
			}
		}
	}
	pushSuccs(from.Block())
	for len(stack) > 0 {
		b := stack[len(stack)-1]
		stack = stack[:len(stack)-1]
		if b == to.Block() {
			reachedPlain = true
			break
		}
		pushSuccs(b)
	}
	if reachedPlain {
		return false
	}
	// is `to` reachable at all from `from`?
	reachable = blockReachable(from.Block(), to.Block())
	return reachable
}

// lastStoreBefore returns the last Store to address addr that precedes `at` in at's block; nil if none.
func lastStoreBefore(addr ssa.Value, at ssa.Instruction) *ssa.Store {
	b := at.Block()
	idx := instrIndex(at)
	for i := idx - 1; i >= 0; i-- {
		if st, ok := b.Instrs[i].(*ssa.Store); ok && st.Addr == addr {
			return st
		}
	}
	return nil
}

// cellEscapes: the Alloc is used other than by direct loads and stores (its address is passed on).
func cellEscapes(cell *ssa.Alloc) bool {
	refs := cell.Referrers()
	if refs == nil {
		return false
	}
	for _, r := range *refs {
		switch x := r.(type) {
		case *ssa.Store:
			if x.Addr != cell {
				return true
			}
		case *ssa.UnOp:
			if x.Op != token.MUL {
				return true
			}
		case *ssa.DebugRef:
		default:
			return true
		}
	}
	return false
}

// reachingStores returns the values that the local cell may hold at instruction `at`: the nearest Store on every
// backward path. zero=true if some path reaches the function entry without a store (zero value).
// ok=false when the cell escapes (cannot be tracked).
func reachingStores(cell *ssa.Alloc, at ssa.Instruction) (stores []*ssa.Store, zero bool, ok bool) {
	if cellEscapes(cell) {
		// closures capture cells by reference (defer func(){...}() writing retErr): tolerate captures by MakeClosure
		// whose closure only runs at function exit (deferred recover handlers) -- handled by caller via ok=false.
		onlyClosure := true
		for _, r := range *cell.Referrers() {
			switch x := r.(type) {
			case *ssa.Store:
				if x.Addr != cell {
					onlyClosure = false
				}
			case *ssa.UnOp, *ssa.DebugRef:
			case *ssa.MakeClosure:
			case *ssa.FieldAddr:
				// reading a field of a struct cell (loop variable `key`, then key.username) does not change the cell
				if fr := x.Referrers(); fr != nil {
					for _, u := range *fr {
						switch y := u.(type) {
						case *ssa.UnOp:
							if y.Op != token.MUL {
								onlyClosure = false
							}
						case *ssa.DebugRef:
						default:
							onlyClosure = false
						}
					}
				}
			default:
				onlyClosure = false
			}
		}
		if !onlyClosure {
			return nil, false, false
		}
	}
	seenStore := map[*ssa.Store]bool{}
	seen := map[*ssa.BasicBlock]bool{}
	var visit func(b *ssa.BasicBlock, from int)
	visit = func(b *ssa.BasicBlock, from int) {
		for i := from; i >= 0; i-- {
			if st, isSt := b.Instrs[i].(*ssa.Store); isSt && st.Addr == cell {
				if !seenStore[st] {
					seenStore[st] = true
					stores = append(stores, st)
				}
				return
			}
		}
		if len(b.Preds) == 0 {
			zero = true
			return
		}
		for _, p := range b.Preds {
			if !seen[p] {
				seen[p] = true
				visit(p, len(p.Instrs)-1)
			}
		}
	}
	visit(at.Block(), instrIndex(at)-1)
	return stores, zero, true
}

// resolveLoad: if v is a load of a trackable local cell with exactly one reaching store and no zero path, returns the
// stored value (recursively); otherwise v.
func resolveLoad(v ssa.Value) ssa.Value {
	for depth := 0; depth < 6; depth++ {
		u, ok := v.(*ssa.UnOp)
		if !ok || u.Op != token.MUL {
			return v
		}
		cell, ok := u.X.(*ssa.Alloc)
		if !ok {
			return v
		}
		sts, zero, ok := reachingStores(cell, u)
		if !ok || zero || len(sts) != 1 {
			return v
		}
		v = sts[0].Val
	}
	return v
}

// retValues returns the possible values of result idx of a Return (looking through the result cells that go/ssa
// introduces in functions with defer, and through named-result cells). unknown=true if it cannot be resolved.
func retValues(ret *ssa.Return, idx int) (vals []ssa.Value, zero bool) {
	if idx >= len(ret.Results) {
		return nil, false
	}
	v := ret.Results[idx]
	u, ok := v.(*ssa.UnOp)
	if !ok || u.Op != token.MUL {
		return []ssa.Value{v}, false
	}
	cell, ok := u.X.(*ssa.Alloc)
	if !ok {
		return []ssa.Value{v}, false
	}
	sts, z, ok := reachingStores(cell, u)
	if !ok {
		return []ssa.Value{v}, false
	}
	for _, st := range sts {
		// a stored value may itself be a load of another cell
		vals = append(vals, resolveLoad(st.Val))
	}
	return vals, z
}

// returnsOf lists the normal Return instructions of fn (the synthetic recover block is skipped).
func returnsOf(fn *ssa.Function) []*ssa.Return {
	var out []*ssa.Return
	for _, b := range fn.Blocks {
		if b == fn.Recover {
			continue
		}
		for _, in := range b.Instrs {
			if r, ok := in.(*ssa.Return); ok {
				out = append(out, r)
			}
		}
	}
	return out
}

// errValueEdges: for an error value e (result of a call, extracted), the If edges on which e is nil / non-nil.
// Val=true means "e is nil" on that edge.
func errNilEdges(e ssa.Value) []CondEdge { return nilEdges(e) }

// extractOf returns the Extract of tuple-valued call `call` at result index idx (nil if none).
func extractOf(call ssa.Value, idx int) *ssa.Extract {
	refs := call.Referrers()
	if refs == nil {
		return nil
	}
	for _, r := range *refs {
		if ex, ok := r.(*ssa.Extract); ok && ex.Index == idx {
			return ex
		}
	}
	return nil
}

// ---------------------------------------------------------------------------------------
// more helpers

type Site struct {
	Fn *ssa.Function
	In ssa.Instruction
}

// allInstrs calls f for every instruction of fn.
func allInstrs(fn *ssa.Function, f func(in ssa.Instruction)) {
	for _, b := range fn.Blocks {
		for _, in := range b.Instrs {
			f(in)
		}
	}
}

// callSites returns every call/defer/go instruction in the module's non-test, non-mock functions for which pred holds.
func (c *Ctx) callSites(pred func(cc *ssa.CallCommon) bool) []Site {
	var out []Site
	for _, fn := range c.Funcs {
		if c.IsMockFunc(fn) {
			continue
		}
		allInstrs(fn, func(in ssa.Instruction) {
			if cc := callCommon(in); cc != nil && pred(cc) {
				out = append(out, Site{fn, in})
			}
		})
	}
	return out
}

// callsIn returns the call instructions of fn satisfying pred, in block/instruction order.
func callsIn(fn *ssa.Function, pred func(cc *ssa.CallCommon) bool) []ssa.Instruction {
	var out []ssa.Instruction
	if fn == nil {
		return nil
	}
	allInstrs(fn, func(in ssa.Instruction) {
		if cc := callCommon(in); cc != nil && pred(cc) {
			out = append(out, in)
		}
	})
	return out
}

// commaOkEdges: for a tuple-valued instruction (lookup, typeassert, receive with comma-ok) the If edges with the
// truth value of the ok component.
func commaOkEdges(tuple ssa.Value) []CondEdge {
	ex := extractOf(tuple, 1)
	if ex == nil {
		return nil
	}
	return condEdges(ex)
}

// edgesDominate: every path from entry to target passes one of the given edges.
func edgesDominate(fn *ssa.Function, edges []CondEdge, target *ssa.BasicBlock) bool {
	if len(fn.Blocks) == 0 || len(edges) == 0 {
		return false
	}
	cut := map[[2]int]bool{}
	for _, e := range edges {
		cut[[2]int{e.If.Block().Index, e.Succ}] = true
	}
	seen := map[*ssa.BasicBlock]bool{fn.Blocks[0]: true}
	stack := []*ssa.BasicBlock{fn.Blocks[0]}
	for len(stack) > 0 {
		b := stack[len(stack)-1]
		stack = stack[:len(stack)-1]
		if b == target {
			return false
		}
		for i, s := range b.Succs {
			if cut[[2]int{b.Index, i}] {
				continue
			}
			if !seen[s] {
				seen[s] = true
				stack = append(stack, s)
			}
		}
	}
	return true
}

// reachableFrom reports whether block `to` is reachable from block `from` (from itself counts).
func blockReachable(from, to *ssa.BasicBlock) bool {
	seen := map[*ssa.BasicBlock]bool{from: true}
	stack := []*ssa.BasicBlock{from}
	for len(stack) > 0 {
		b := stack[len(stack)-1]
		stack = stack[:len(stack)-1]
		if b == to {
			return true
		}
		for _, s := range b.Succs {
			if !seen[s] {
				seen[s] = true
				stack = append(stack, s)
			}
		}
	}
	return false
}

// entryReachable: block b is reachable from the function entry.
func entryReachable(b *ssa.BasicBlock) bool {
	fn := b.Parent()
	return len(fn.Blocks) > 0 && blockReachable(fn.Blocks[0], b)
}

// fieldAddrUses returns every FieldAddr instruction of `field` in non-test non-mock module functions, with a flag
// telling whether the address is used for anything other than a plain load.
type FieldUse struct {
	Fn      *ssa.Function
	FA      *ssa.FieldAddr
	Written bool // some referrer is not a load: store, atomic call argument, escaping address...
}

func (c *Ctx) fieldUses(field *types.Var) []FieldUse {
	var out []FieldUse
	for _, fn := range c.Funcs {
		if c.IsMockFunc(fn) {
			continue
		}
		allInstrs(fn, func(in ssa.Instruction) {
			fa, ok := in.(*ssa.FieldAddr)
			if !ok || fieldOfAddr(fa) != field {
				return
			}
			w := false
			if refs := fa.Referrers(); refs != nil {
				for _, r := range *refs {
					if u, ok := r.(*ssa.UnOp); ok && u.Op == token.MUL {
						continue
					}
					if _, ok := r.(*ssa.DebugRef); ok {
						continue
					}
					w = true
				}
			}
			out = append(out, FieldUse{fn, fa, w})
		})
	}
	return out
}

// rootOfAddr follows FieldAddr/IndexAddr chains (and loads of pointer fields are NOT followed) to the base value.
func rootOfAddr(v ssa.Value) ssa.Value {
	for {
		switch x := v.(type) {
		case *ssa.FieldAddr:
			v = x.X
		case *ssa.IndexAddr:
			v = x.X
		case *ssa.ChangeType:
			v = x.X
		default:
			return v
		}
	}
}

// isFreshAlloc: v is a local allocation (new object not yet published) in the current function.
func isFreshAlloc(v ssa.Value) bool {
	_, ok := v.(*ssa.Alloc)
	return ok
}

func (c *Ctx) shortFn(fn *ssa.Function) string { return c.FuncName(fn) }

// namedRecvIs: fn is a method whose receiver's named type is pkgrel.typ.
func namedOf(t types.Type) *types.Named {
	t = types.Unalias(t)
	if p, ok := t.(*types.Pointer); ok {
		t = types.Unalias(p.Elem())
	}
	n, _ := t.(*types.Named)
	return n
}

func isNamed(t types.Type, pkgPath, name string) bool {
	n := namedOf(t)
	return n != nil && n.Obj().Name() == name && n.Obj().Pkg() != nil && n.Obj().Pkg().Path() == pkgPath
}

func b2i(b bool) int {
	if b {
		return 1
	}
	return 0
}

// aliases returns v together with every load of a local cell whose only reaching store stored v (go/ssa keeps named
// results and closure-captured locals in cells), and identity conversions of those.
func aliases(v ssa.Value) []ssa.Value {
	out := []ssa.Value{v}
	seen := map[ssa.Value]bool{v: true}
	for i := 0; i < len(out) && i < 64; i++ {
		x := out[i]
		refs := x.Referrers()
		if refs == nil {
			continue
		}
		for _, r := range *refs {
			switch u := r.(type) {
			case *ssa.Store:
				cell, ok := u.Addr.(*ssa.Alloc)
				if !ok || u.Val != x {
					continue
				}
				crefs := cell.Referrers()
				if crefs == nil {
					continue
				}
				for _, cr := range *crefs {
					ld, ok := cr.(*ssa.UnOp)
					if !ok || ld.Op != token.MUL || seen[ld] {
						continue
					}
					sts, zero, ok := reachingStores(cell, ld)
					if ok && !zero && len(sts) == 1 && sts[0] == u {
						seen[ld] = true
						out = append(out, ld)
					}
				}
			case *ssa.ChangeInterface:
				if !seen[u] {
					seen[u] = true
					out = append(out, u)
				}
			case *ssa.ChangeType:
				if !seen[u] {
					seen[u] = true
					out = append(out, u)
				}
			}
		}
	}
	return out
}

// sameVal: a and b denote the same runtime value (modulo identity conversions and single-store cells).
func sameVal(a, b ssa.Value) bool {
	return stripValue(resolveLoad(stripValue(a))) == stripValue(resolveLoad(stripValue(b)))
}

// errResultOf returns the error-typed result value of a call (the call itself when it returns just error, the Extract
// of the last component for tuples), or nil.
func errResultOf(call *ssa.Call) ssa.Value {
	sig := call.Call.Signature()
	idx := errResultIndex(sig)
	if idx < 0 {
		return nil
	}
	if sig.Results().Len() == 1 {
		return call
	}
	if ex := extractOf(call, idx); ex != nil {
		return ex
	}
	return nil
}

// resultOf returns result idx of a call as a value (call itself for single-result calls).
func resultOf(call *ssa.Call, idx int) ssa.Value {
	sig := call.Call.Signature()
	if sig.Results().Len() == 1 && idx == 0 {
		return call
	}
	if ex := extractOf(call, idx); ex != nil {
		return ex
	}
	return nil
}

// errNilEdgesOfCall: If edges on which the call's error result is nil (Val=true) or non-nil (Val=false).
func errNilEdgesOfCall(call *ssa.Call) []CondEdge {
	e := errResultOf(call)
	if e == nil {
		return nil
	}
	return nilEdges(e)
}

// dominatedByNilErr: instruction is dominated by an edge on which call's error is nil.
func dominatedByNilErr(in ssa.Instruction, call *ssa.Call) bool {
	for _, e := range errNilEdgesOfCall(call) {
		if e.Val && instrDominatedByEdge(in, e) {
			return true
		}
	}
	return false
}

// phiLeaves expands a value through phis (and single-store cells) into its leaf definitions.
func phiLeaves(v ssa.Value) []ssa.Value {
	var out []ssa.Value
	seen := map[ssa.Value]bool{}
	var walk func(x ssa.Value)
	walk = func(x ssa.Value) {
		x = stripValue(x)
		if seen[x] {
			return
		}
		seen[x] = true
		switch p := x.(type) {
		case *ssa.Phi:
			for _, e := range p.Edges {
				walk(e)
			}
			return
		case *ssa.UnOp:
			if p.Op == token.MUL {
				if cell, ok := p.X.(*ssa.Alloc); ok {
					sts, zero, ok := reachingStores(cell, p)
					if ok && !zero && len(sts) > 0 {
						for _, st := range sts {
							walk(st.Val)
						}
						return
					}
				}
			}
		}
		out = append(out, x)
	}
	walk(v)
	return out
}

// allowedVia: who-may-call / who-may-write tables name the functions that may do something. A behaviour-preserving
// extract-method moves the access into a new unexported helper; that helper is as allowed as its callers are: fn is
// allowed if it is in the table, or if it is unexported, has at least one call site, and every call site lies in a
// function that is allowed (depth-bounded). The reason string says through whom.
func allowedVia(c *Ctx, allowed map[*ssa.Function]string, fn *ssa.Function) (string, bool) {
	return allowedViaDepth(c, allowed, fn, 3, map[*ssa.Function]bool{})
}

func allowedViaDepth(c *Ctx, allowed map[*ssa.Function]string, fn *ssa.Function, depth int, seen map[*ssa.Function]bool) (string, bool) {
	if fn == nil {
		return "", false
	}
	if why, ok := allowed[fn]; ok {
		return why, true
	}
	if depth == 0 || seen[fn] {
		return "", false
	}
	seen[fn] = true
	// closures are as allowed as the function they are written in
	if fn.Parent() != nil {
		if why, ok := allowedViaDepth(c, allowed, fn.Parent(), depth, seen); ok {
			return why + " (closure)", true
		}
		return "", false
	}
	if fn.Object() == nil || fn.Object().Exported() {
		return "", false
	}
	sites := c.callSites(func(cc *ssa.CallCommon) bool { return callsFunc(cc, fn) })
	n := 0
	via := ""
	for _, s := range sites {
		if c.IsMockFunc(s.Fn) {
			continue
		}
		n++
		why, ok := allowedViaDepth(c, allowed, s.Fn, depth-1, seen)
		if !ok {
			return "", false
		}
		via = why
	}
	if n == 0 {
		return "", false
	}
	return "helper called only from allowed functions (" + via + ")", true
}

// equivValue: a and b are computed by the same expression over the same roots (two loads of namespace.Users[i], written
// twice in the source, are two SSA values). Stores between the two evaluations are not considered: use only where the
// function does not write the structure the expression reads.
func equivValue(a, b ssa.Value, depth int) bool {
	a, b = stripValue(a), stripValue(b)
	if a == b {
		return true
	}
	if depth == 0 || a == nil || b == nil {
		return false
	}
	switch x := a.(type) {
	case *ssa.UnOp:
		y, ok := b.(*ssa.UnOp)
		return ok && x.Op == y.Op && equivValue(x.X, y.X, depth-1)
	case *ssa.FieldAddr:
		y, ok := b.(*ssa.FieldAddr)
		return ok && x.Field == y.Field && equivValue(x.X, y.X, depth-1)
	case *ssa.Field:
		y, ok := b.(*ssa.Field)
		return ok && x.Field == y.Field && equivValue(x.X, y.X, depth-1)
	case *ssa.IndexAddr:
		y, ok := b.(*ssa.IndexAddr)
		return ok && equivValue(x.X, y.X, depth-1) && equivValue(x.Index, y.Index, depth-1)
	case *ssa.Const:
		y, ok := b.(*ssa.Const)
		return ok && x.Value != nil && y.Value != nil && x.Value.ExactString() == y.Value.ExactString()
	}
	return false
}

// leavesThroughCalls is phiLeaves that also looks through results of module functions: a leaf that is result #i of a
// static call to a function with a body is replaced by the leaves of that function's returned values (depth-bounded);
// a leaf that is one of the callee's parameters is replaced by the call's argument.
func leavesThroughCalls(c *Ctx, v ssa.Value, depth int) []ssa.Value {
	var out []ssa.Value
	for _, l := range phiLeaves(v) {
		var call *ssa.Call
		idx := 0
		switch x := l.(type) {
		case *ssa.Extract:
			if cl, ok := x.Tuple.(*ssa.Call); ok {
				call, idx = cl, x.Index
			}
		case *ssa.Call:
			call = x
		}
		if call == nil || depth == 0 {
			out = append(out, l)
			continue
		}
		f := staticCallee(&call.Call)
		if f == nil || !c.InModule(f) || len(f.Blocks) == 0 || idx >= f.Signature.Results().Len() {
			out = append(out, l)
			continue
		}
		any := false
		for _, ret := range returnsOf(f) {
			vals, zero := retValues(ret, idx)
			if zero {
				continue
			}
			for _, rv := range vals {
				for _, sub := range leavesThroughCalls(c, rv, depth-1) {
					if p, ok := sub.(*ssa.Parameter); ok {
						for k, fp := range f.Params {
							if fp == p && k < len(call.Call.Args) {
								sub = stripValue(call.Call.Args[k])
							}
						}
					}
					out = append(out, sub)
					any = true
				}
			}
		}
		if !any {
			out = append(out, l)
		}
	}
	return out
}

// eqConstEdges returns the If edges on which `x == k` is known to hold for a value x accepted by isX: the true edge of
// `x == k` and the false edge of `x != k` (operands in either order).
func eqConstEdges(fn *ssa.Function, isX func(v ssa.Value) bool, k int64) []CondEdge {
	var out []CondEdge
	allInstrs(fn, func(in ssa.Instruction) {
		b, ok := in.(*ssa.BinOp)
		if !ok || (b.Op != token.EQL && b.Op != token.NEQ) {
			return
		}
		x, y := b.X, b.Y
		if _, isC := constInt(x); isC {
			x, y = y, x
		}
		kv, ok := constInt(y)
		if !ok || kv != k || !isX(stripValue(x)) {
			return
		}
		for _, e := range condEdges(b) {
			if e.Val == (b.Op == token.EQL) {
				out = append(out, e)
			}
		}
	})
	return out
}

// hofResultLeaves: for a call h(..., func literal, ...) of a package-private module function whose single result can
// be the result of calling that parameter, the phi leaves of the literal's own results (what the helper hands back).
func hofResultLeaves(c *Ctx, call *ssa.Call) []ssa.Value {
	h := staticCallee(&call.Call)
	if h == nil || !c.InModule(h) || len(h.Blocks) == 0 || h.Object() == nil || h.Object().Exported() || h.Signature.Results().Len() != 1 {
		return nil
	}
	var out []ssa.Value
	for k, a := range call.Call.Args {
		mc, ok := stripValue(a).(*ssa.MakeClosure)
		if !ok || k >= len(h.Params) {
			continue
		}
		lit, _ := mc.Fn.(*ssa.Function)
		if lit == nil || lit.Signature.Results().Len() != 1 {
			continue
		}
		handsBack := false
		for _, ret := range returnsOf(h) {
			vals, _ := retValues(ret, 0)
			for _, v := range vals {
				for _, l := range phiLeaves(v) {
					if cv, ok := l.(*ssa.Call); ok && !cv.Call.IsInvoke() && stripValue(cv.Call.Value) == ssa.Value(h.Params[k]) {
						handsBack = true
					}
				}
			}
		}
		if !handsBack {
			continue
		}
		for _, ret := range returnsOf(lit) {
			vals, _ := retValues(ret, 0)
			for _, v := range vals {
				out = append(out, phiLeaves(v)...)
			}
		}
	}
	return out
}
