package main

import (
	"fmt"
	"go/token"
	"go/types"
	"sort"
	"strings"

	"golang.org/x/tools/go/ssa"
)

func init() {
	register("C34", "Clauses decided: (a) the cached block MySQLSequence.curr/max is only touched under s.lock (directly or in functions whose every caller holds it); (b) a malformed fetch fails the request: in getSeqFromDB and NextSeq no error result of a call is discarded, and every error edge reaches an error return without storing curr/max first. Cross-proxy uniqueness (database side) and maxLimit are not covered; the increment's sign is a value check the rule does not see.",
		ruleC34)
	register("C32", "Clauses decided: (a) the store is rolled back on every failure after it was changed: in cc/service.ModifyNamespace every path from the success edge of storeConn.UpdateNamespace to an exit returning a non-nil error passes rollbackNamespace, and in DelNamespace every failure exit after the store deletion passes a restore; (b) proxies are compensated after a partial commit: the functions reachable from rollbackNamespace include proxy.PrepareConfig and proxy.CommitConfig. Timeouts/retries, concurrent changes and the proxies' own two-slot manager are not covered.",
		ruleC32)
	register("C33", "Clause decided (confinement by construction): in models.LocalClient every path argument of an os file operation is, by SSA def-use, built only from lc.storagePath, lc.FileSuffix, filepath.Join/Dir of such values, directory-entry names of a confined directory and results of safeJoinPath; a raw string parameter never reaches a sink without passing safeJoinPath. Second clause (BD-C33): decrypting malformed data cannot index out of range: the index/slice expressions of util/crypto.DecryptECB and pkcs5UnPadding are proven in bounds for every ciphertext. That safeJoinPath itself is a correct sanitizer, symlinks, the block loop of cryptBlocks (needs divisibility reasoning) and the encryption round trip are not covered.",
		ruleC33)
	register("C10", "Clause decided: every rule type the control plane's validation accepts (keys of models.ruleVerifyFuncMapping plus the types Namespace.verifyShardRules accepts in its switch) has a constructor in the proxy's router (case constants of router.parseRuleSliceInfos that do not reject, plus the types NewRouter handles itself). Everything value-level (locations, slices, names, duplicates) is not covered.",
		ruleC10)
	register("C11", "Clause decided: the reader rejects frames with an unexpected sequence id: in (*mysql.Conn).readHeaderFrom every nil-error return is dominated by the header's sequence byte having been compared equal to c.sequence, and exactly one increment of c.sequence lies on every path to it; readHeaderFrom is the only reader of packet headers. Framing arithmetic over payload lengths is not covered.",
		ruleC11)
	register("C03", "Clause decided: a row whose sharding value the proxy does not evaluate makes the whole statement fail. MP-C03: in plan.handleInsertValues every path through one iteration of the loop over stmt.Lists either places the row (the row value is stored into the Lists of a rewritten statement) or leaves the function with a non-nil error. Side obligations (C05's only structural clause): handleInsertOnDuplicate dominates SQL generation in HandleInsertStmt and handleUpdateAssignmentList dominates it in HandleUpdatePlan. That the routed index equals the lookup index, NULL handling, out-of-range keys and 'written exactly once' are not covered.",
		ruleC03)
	register("C39", "Clause decided: a truncated read is never handed on as complete. PC5: for every function of proxy/server that owns a backend connection while a client statement's result is produced, some function on the chain from the owner down to the Execute call consults PooledConnect.MoreRowsExist on every success path after the result was obtained; writeOKResultStream returns success only after MoreRowsExist() turned false. The row-limit comparison and sizes in general are not covered.",
		ruleC39)
}

// ---------------------------------------------------------------------------------------
// C34

func ruleC34(c *Ctx, r *Report) {
	r.floor("ER-C34a", 2)
	r.floor("ER-C34b", 4)
	lockF := c.Field("proxy/sequence", "MySQLSequence", "lock")
	get := c.Method("proxy/sequence", "MySQLSequence", "getSeqFromDB")
	next := c.Method("proxy/sequence", "MySQLSequence", "NextSeq")
	if lockF == nil || get == nil || next == nil {
		r.undecided("ER-C34a", "proxy/sequence.MySQLSequence", "anchor", "-", "lock field / getSeqFromDB / NextSeq not found")
		return
	}
	var stateFields []*types.Var
	for _, fnm := range []string{"curr", "max"} {
		f := c.Field("proxy/sequence", "MySQLSequence", fnm)
		if f == nil {
			r.undecided("ER-C34a", "proxy/sequence.MySQLSequence", "field:"+fnm, "-", "field not found")
			continue
		}
		stateFields = append(stateFields, f)
		users := map[*ssa.Function]bool{}
		for _, u := range c.fieldUses(f) {
			if !isFreshAlloc(rootOfAddr(u.FA)) {
				users[u.Fn] = true
			}
		}
		var bad []string
		for fn := range users {
			if !c.holdsLockEverywhere(fn, f, lockF, 0) {
				bad = append(bad, c.FuncName(fn))
			}
		}
		sort.Strings(bad)
		if len(users) == 0 {
			r.undecided("ER-C34a", "proxy/sequence.MySQLSequence", "field:"+fnm, "-", "no access found")
		} else if len(bad) == 0 {
			r.ok("ER-C34a", "proxy/sequence.MySQLSequence", "field:"+fnm, "-", fmt.Sprintf("%d accessor function(s) all hold s.lock", len(users)))
		} else {
			r.viol("ER-C34a", "proxy/sequence.MySQLSequence", "field:"+fnm, "-", "cached block accessed without s.lock in: "+strings.Join(bad, ", "))
		}
	}
	isStateStore := func(in ssa.Instruction) bool {
		st, ok := in.(*ssa.Store)
		if !ok {
			return false
		}
		f := fieldOfAddr(st.Addr)
		for _, sf := range stateFields {
			if f == sf {
				return true
			}
		}
		return false
	}
	for _, fn := range []*ssa.Function{get, next} {
		name := c.FuncName(fn)
		allInstrs(fn, func(in ssa.Instruction) {
			call, ok := in.(*ssa.Call)
			if !ok {
				return
			}
			sig := call.Call.Signature()
			if errResultIndex(sig) < 0 {
				return
			}
			label := calleeLabel(&call.Call)
			cons := "error-of:" + label + "@" + ordinalByLabel(fn, in, label)
			e := errResultOf(call)
			used := false
			if e != nil {
				if refs := e.Referrers(); refs != nil {
					for _, rr := range *refs {
						if _, isDbg := rr.(*ssa.DebugRef); !isDbg {
							used = true
						}
					}
				}
			}
			if !used {
				r.viol("ER-C34b", name, cons, c.Pos(call.Pos()), "the error result is discarded: a malformed or missing sequence row is turned into a value instead of failing the request")
				return
			}
			// error edge: reaches only error returns, no store of curr/max before
			var bad []Exit
			stored := false
			ne := 0
			for _, ed := range nilEdges(e) {
				if ed.Val {
					continue
				}
				ne++
				bad = append(bad, searchExits(fn, nil, ed.If.Block().Succs[ed.Succ], SearchOpts{
					Stop: func(x ssa.Instruction) bool {
						if isStateStore(x) {
							stored = true
							return true
						}
						return false
					},
					ExitOK: func(x ssa.Instruction) bool {
						ret, ok := x.(*ssa.Return)
						if !ok {
							return true
						}
						isNil, known := returnsNilError(ret)
						return known && !isNil
					},
				})...)
			}
			switch {
			case ne == 0:
				// returned directly?
				retd := false
				for _, ret := range returnsOf(fn) {
					if returnsAny(ret, aliasSet(e)) {
						retd = true
					}
				}
				if retd {
					r.ok("ER-C34b", name, cons, c.Pos(call.Pos()), "the error is returned to the caller")
				} else {
					r.viol("ER-C34b", name, cons, c.Pos(call.Pos()), "the error is assigned but never tested or returned")
				}
			case stored:
				r.viol("ER-C34b", name, cons, c.Pos(call.Pos()), "on the error edge curr/max are stored before the function fails")
			case len(bad) > 0:
				r.viol("ER-C34b", name, cons, c.Pos(call.Pos()), "the error edge can end in a successful return", c.pathStrings(bad[0])...)
			default:
				r.ok("ER-C34b", name, cons, c.Pos(call.Pos()), "tested; the error edge reaches only error returns and stores nothing")
			}
		})
	}
}

// ---------------------------------------------------------------------------------------
// C32

func ruleC32(c *Ctx, r *Report) {
	r.floor("MP-C32a", 2)
	r.floor("WM-C32b", 2)
	mod := c.Func("cc/service", "ModifyNamespace")
	del := c.Func("cc/service", "DelNamespace")
	rb := c.Func("cc/service", "rollbackNamespace")
	upd := c.Method("models", "Store", "UpdateNamespace")
	sdel := c.Method("models", "Store", "DelNamespace")
	if mod == nil || del == nil || rb == nil || upd == nil || sdel == nil {
		r.undecided("MP-C32a", "cc/service", "anchor", "-", "ModifyNamespace/DelNamespace/rollbackNamespace or models.Store methods not found")
		return
	}
	check := func(fn *ssa.Function, storeOp *ssa.Function, restore func(cc *ssa.CallCommon) bool, label, restoreName string) {
		name := c.FuncName(fn)
		calls := callsIn(fn, func(cc *ssa.CallCommon) bool { return callsFunc(cc, storeOp) })
		if len(calls) == 0 {
			r.undecided("MP-C32a", name, "after:"+label, c.Pos(fn.Pos()), "store operation not found")
			return
		}
		for _, ci := range calls {
			call, ok := ci.(*ssa.Call)
			if !ok {
				continue
			}
			errEdges := map[[2]int]bool{}
			for _, e := range errNilEdgesOfCall(call) {
				if !e.Val {
					errEdges[[2]int{e.If.Block().Index, e.Succ}] = true
				}
			}
			// the restore may be wrapped in an unexported helper that calls it on every path (extract-method of the
			// duplicated "roll back and wrap the error" blocks)
			alwaysRestores := map[*ssa.Function]bool{}
			var restoring func(cc *ssa.CallCommon, depth int) bool
			restoring = func(cc *ssa.CallCommon, depth int) bool {
				if restore(cc) {
					return true
				}
				h := staticCallee(cc)
				if h == nil || depth == 0 || h == fn || h.Pkg != fn.Pkg || len(h.Blocks) == 0 {
					return false
				}
				if v, ok := alwaysRestores[h]; ok {
					return v
				}
				alwaysRestores[h] = false
				miss := searchExits(h, nil, h.Blocks[0], SearchOpts{Stop: func(in ssa.Instruction) bool {
					c2 := callCommon(in)
					return c2 != nil && restoring(c2, depth-1)
				}})
				alwaysRestores[h] = len(miss) == 0
				return alwaysRestores[h]
			}
			exits := searchExits(fn, call, nil, SearchOpts{
				Stop:   func(in ssa.Instruction) bool { cc := callCommon(in); return cc != nil && restoring(cc, 2) },
				EdgeOK: func(b *ssa.BasicBlock, i int) bool { return !errEdges[[2]int{b.Index, i}] },
				ExitOK: func(in ssa.Instruction) bool {
					ret, ok := in.(*ssa.Return)
					if !ok {
						return false
					}
					isNil, known := returnsNilError(ret)
					return known && isNil
				},
			})
			// one obligation per failing exit (keyed by the call that produced the error, when identifiable)
			if len(exits) == 0 {
				r.ok("MP-C32a", name, "after:"+label, c.Pos(call.Pos()), "every failure exit after the store was changed passes "+restoreName)
				continue
			}
			seen := map[string]bool{}
			for _, ex := range exits {
				cause := failureCause(c, fn, ex)
				if seen[cause] {
					continue
				}
				seen[cause] = true
				r.viol("MP-C32a", name, "after:"+label+":fail-exit:"+cause, c.Pos(exitPos(ex.Instr)), "the function reports failure after the stored configuration was changed, without "+restoreName+": the store keeps the new configuration although the change is reported as failed", c.pathStrings(ex)...)
			}
		}
	}
	check(mod, upd, func(cc *ssa.CallCommon) bool { return callsFunc(cc, rb) }, "Store.UpdateNamespace", "rollbackNamespace")
	check(del, sdel, func(cc *ssa.CallCommon) bool {
		f := cc.StaticCallee()
		return f != nil && (f == rb || f == upd || (f.Name() == "CreateNamespace" || f.Name() == "UpdateNamespace"))
	}, "Store.DelNamespace", "a restore of the deleted namespace")
	// b: compensation of proxies
	reach, _ := c.reachableFrom([]*ssa.Function{rb})
	for _, nm := range []string{"PrepareConfig", "CommitConfig"} {
		f := c.Func("cc/proxy", nm)
		if f == nil {
			r.undecided("WM-C32b", c.FuncName(rb), "missing:proxy."+nm, "-", "cc/proxy."+nm+" not found")
			continue
		}
		if reach[f] {
			r.ok("WM-C32b", c.FuncName(rb), "reaches:proxy."+nm, c.Pos(rb.Pos()), "the rollback re-runs the two-phase exchange with the previous configuration")
		} else {
			r.viol("WM-C32b", c.FuncName(rb), "missing:proxy."+nm, c.Pos(rb.Pos()), "the rollback restores only the store: proxies that already prepared/committed the new configuration keep running it while the change is reported as failed")
		}
	}
}

// failureCause names the call whose error leads to this exit: the last call on the path whose error result is tested
// in one of the path's blocks.
func failureCause(c *Ctx, fn *ssa.Function, ex Exit) string {
	cause := "unknown"
	for _, b := range ex.Path {
		iff, ok := b.Instrs[len(b.Instrs)-1].(*ssa.If)
		if !ok {
			continue
		}
		bo, ok := iff.Cond.(*ssa.BinOp)
		if !ok {
			continue
		}
		for _, op := range []ssa.Value{bo.X, bo.Y} {
			for _, l := range phiLeaves(op) {
				var call *ssa.Call
				switch x := l.(type) {
				case *ssa.Call:
					call = x
				case *ssa.Extract:
					call, _ = x.Tuple.(*ssa.Call)
				case *ssa.UnOp:
					// receive from an error channel
					if x.Op == token.ARROW {
						cause = "recv:" + chanName(x.X)
					}
				}
				if call != nil {
					cause = calleeLabel(&call.Call)
				}
			}
		}
	}
	return cause
}

func chanName(v ssa.Value) string {
	if v.Name() != "" {
		if n, ok := v.(interface{ Comment() string }); ok {
			_ = n
		}
	}
	// the local's debug name, if any
	if refs := v.Referrers(); refs != nil {
		for _, r := range *refs {
			if d, ok := r.(*ssa.DebugRef); ok {
				return fmt.Sprint(d.Expr)
			}
		}
	}
	if mk, ok := v.(*ssa.MakeChan); ok {
		return fmt.Sprintf("chan@%d", mk.Block().Index)
	}
	return "chan"
}

// ---------------------------------------------------------------------------------------
// C33

func ruleC33(c *Ctx, r *Report) {
	const rule = "TN-C33"
	r.floor(rule, 12)
	lcT := c.NamedType("models", "LocalClient")
	storage := c.Field("models", "LocalClient", "storagePath")
	suffix := c.Field("models", "LocalClient", "FileSuffix")
	safe := c.Method("models", "LocalClient", "safeJoinPath")
	if lcT == nil || storage == nil || suffix == nil || safe == nil {
		r.undecided(rule, "models.LocalClient", "anchor", "-", "LocalClient / storagePath / safeJoinPath not found")
		return
	}
	r.assume("NewLocalClient's configured directory is trusted; filepath.Dir of a confined file path stays inside the storage directory (safeJoinPath never returns an empty path)")
	sinkNames := map[string]bool{"WriteFile": true, "ReadFile": true, "Remove": true, "RemoveAll": true, "MkdirAll": true, "Mkdir": true,
		"ReadDir": true, "Stat": true, "Lstat": true, "Open": true, "OpenFile": true, "Create": true, "Rename": true, "Chmod": true, "Truncate": true, "Symlink": true, "Link": true}
	isPkgFunc := func(cc *ssa.CallCommon, pkg string, names ...string) bool {
		f := cc.StaticCallee()
		if f == nil || f.Pkg == nil || f.Pkg.Pkg.Path() != pkg {
			return false
		}
		for _, n := range names {
			if f.Name() == n {
				return true
			}
		}
		return false
	}
	memoRooted := map[*ssa.Function]int{}
	var isSafe, isRooted func(v ssa.Value, depth int) bool
	var fnReturnsRooted func(fn *ssa.Function) bool
	isSafe = func(v ssa.Value, depth int) bool {
		if depth > 10 {
			return false
		}
		v = stripValue(v)
		switch x := v.(type) {
		case *ssa.Const:
			s, ok := constString(x)
			return ok && !strings.Contains(s, "..") && !strings.HasPrefix(s, "/")
		case *ssa.Extract:
			if call, ok := x.Tuple.(*ssa.Call); ok && x.Index == 0 && callsFunc(&call.Call, safe) {
				return true
			}
		case *ssa.Call:
			// os.DirEntry.Name() / fs.DirEntry.Name(): a base name
			if x.Call.IsInvoke() && x.Call.Method.Name() == "Name" {
				if n := namedOf(x.Call.Value.Type()); n != nil && n.Obj().Name() == "DirEntry" {
					return true
				}
			}
			if isPkgFunc(&x.Call, "strings", "TrimSuffix", "TrimPrefix", "ToLower") && len(x.Call.Args) > 0 {
				return isSafe(x.Call.Args[0], depth+1)
			}
		case *ssa.Phi:
			for _, e := range x.Edges {
				if !isSafe(e, depth+1) {
					return false
				}
			}
			return true
		case *ssa.UnOp:
			if loadedField(x) == suffix {
				return true
			}
		}
		return false
	}
	isRooted = func(v ssa.Value, depth int) bool {
		if depth > 10 {
			return false
		}
		v = stripValue(v)
		switch x := v.(type) {
		case *ssa.UnOp:
			if loadedField(x) == storage {
				return true
			}
			if rl := resolveLoad(x); rl != ssa.Value(x) {
				return isRooted(rl, depth+1)
			}
		case *ssa.BinOp:
			if x.Op == token.ADD {
				return isRooted(x.X, depth+1) && isSafe(x.Y, depth+1)
			}
		case *ssa.Phi:
			for _, e := range x.Edges {
				if !isRooted(e, depth+1) {
					return false
				}
			}
			return true
		case *ssa.Extract:
			if call, ok := x.Tuple.(*ssa.Call); ok && x.Index == 0 {
				if f := call.Call.StaticCallee(); f != nil && f.Signature.Recv() != nil && namedOf(f.Signature.Recv().Type()) == lcT {
					return fnReturnsRooted(f)
				}
			}
		case *ssa.Call:
			if isPkgFunc(&x.Call, "path/filepath", "Join") {
				// variadic: args[0] is the slice built from the elements
				elems := variadicElems(x.Call.Args[0])
				if len(elems) == 0 {
					return false
				}
				if !isRooted(elems[0], depth+1) {
					return false
				}
				for _, e := range elems[1:] {
					if !isSafe(e, depth+1) {
						return false
					}
				}
				return true
			}
			if isPkgFunc(&x.Call, "path/filepath", "Dir", "Clean") && len(x.Call.Args) == 1 {
				return isRooted(x.Call.Args[0], depth+1)
			}
		}
		return false
	}
	fnReturnsRooted = func(fn *ssa.Function) bool {
		switch memoRooted[fn] {
		case 1:
			return true
		case 2, 3:
			return false
		}
		memoRooted[fn] = 3
		ok := true
		for _, ret := range returnsOf(fn) {
			vals, _ := retValues(ret, 0)
			for _, v := range vals {
				if s, isC := constString(v); isC && s == "" {
					continue
				}
				if !isRooted(v, 0) {
					ok = false
				}
			}
		}
		if ok {
			memoRooted[fn] = 1
		} else {
			memoRooted[fn] = 2
		}
		return ok
	}
	ctor := c.Func("models", "NewLocalClient")
	n := 0
	for _, fn := range c.Funcs {
		root := fn
		for root.Parent() != nil {
			root = root.Parent()
		}
		if root == ctor || root.Pkg == nil || root.Pkg != c.Pkg("models") {
			continue
		}
		// methods of LocalClient (and their closures) only
		if root.Signature.Recv() == nil || namedOf(root.Signature.Recv().Type()) != lcT {
			continue
		}
		name := c.FuncName(fn)
		allInstrs(fn, func(in ssa.Instruction) {
			cc := callCommon(in)
			if cc == nil {
				return
			}
			f := cc.StaticCallee()
			if f == nil || f.Pkg == nil || !(f.Pkg.Pkg.Path() == "os" || f.Pkg.Pkg.Path() == "io/ioutil") || !sinkNames[f.Name()] {
				return
			}
			n++
			cons := "sink:os." + f.Name() + "@" + ordinalByLabel(fn, in, f.Name())
			bad := -1
			nargs := 1
			if f.Name() == "Rename" || f.Name() == "Symlink" || f.Name() == "Link" {
				nargs = 2
			}
			for i := 0; i < nargs && i < len(cc.Args); i++ {
				if !isRooted(cc.Args[i], 0) {
					bad = i
				}
			}
			if bad < 0 {
				r.ok(rule, name, cons, c.Pos(in.Pos()), "path argument is built from lc.storagePath joined with sanitised components only")
			} else {
				r.viol(rule, name, cons, c.Pos(in.Pos()), "the path handed to the file system is not confined by construction (a raw name reaches the sink without safeJoinPath): local persistence can read or write outside its storage directory")
			}
		})
	}
	if n == 0 {
		r.undecided(rule, "models.LocalClient", "sinks", "-", "no file-system sink found")
	}
}

// variadicElems returns the element values of a variadic slice built at the call site (new [n]T; stores; slice).
func variadicElems(v ssa.Value) []ssa.Value {
	sl, ok := v.(*ssa.Slice)
	if !ok {
		return nil
	}
	arr, ok := sl.X.(*ssa.Alloc)
	if !ok {
		return nil
	}
	var elems []ssa.Value
	byIdx := map[int64]ssa.Value{}
	max := int64(-1)
	for _, r := range *arr.Referrers() {
		ia, ok := r.(*ssa.IndexAddr)
		if !ok {
			continue
		}
		idx, ok := constInt(ia.Index)
		if !ok {
			return nil
		}
		for _, rr := range *ia.Referrers() {
			if st, ok := rr.(*ssa.Store); ok && st.Addr == ia {
				byIdx[idx] = st.Val
				if idx > max {
					max = idx
				}
			}
		}
	}
	for i := int64(0); i <= max; i++ {
		e, ok := byIdx[i]
		if !ok {
			return nil
		}
		elems = append(elems, e)
	}
	return elems
}

// ---------------------------------------------------------------------------------------
// C10

// typeComparisons returns, for function fn, every string constant that the field `typeField` is compared with (==),
// together with whether the true edge immediately rejects (its block returns a non-nil error).
func typeComparisons(fn *ssa.Function, typeField *types.Var) map[string]bool /* const -> accepted */ {
	out := map[string]bool{}
	allInstrs(fn, func(in ssa.Instruction) {
		b, ok := in.(*ssa.BinOp)
		if !ok || b.Op != token.EQL {
			return
		}
		var k string
		var other ssa.Value
		if s, ok := constString(b.Y); ok {
			k, other = s, b.X
		} else if s, ok := constString(b.X); ok {
			k, other = s, b.Y
		} else {
			return
		}
		if loadedField(stripValue(resolveLoad(other))) != typeField {
			return
		}
		accepted := false
		for _, e := range condEdges(b) {
			if !e.Val {
				continue
			}
			blk := e.If.Block().Succs[e.Succ]
			// follow plain jumps
			for len(blk.Instrs) == 1 {
				if _, isJ := blk.Instrs[0].(*ssa.Jump); !isJ {
					break
				}
				blk = blk.Succs[0]
			}
			rejects := false
			if ret, ok := blk.Instrs[len(blk.Instrs)-1].(*ssa.Return); ok {
				if isNil, known := returnsNilError(ret); known && !isNil && onlyErrorConstruction(blk) {
					rejects = true
				}
			}
			if !rejects {
				accepted = true
			}
		}
		if accepted {
			out[k] = true
		} else if _, seen := out[k]; !seen {
			out[k] = false
		}
	})
	return out
}

// onlyErrorConstruction: the block does nothing but build and return an error.
func onlyErrorConstruction(b *ssa.BasicBlock) bool {
	for _, in := range b.Instrs {
		if call, ok := in.(*ssa.Call); ok {
			f := call.Call.StaticCallee()
			if f == nil || f.Pkg == nil {
				return false
			}
			p := f.Pkg.Pkg.Path()
			if p != "fmt" && p != "errors" {
				return false
			}
		}
	}
	return true
}

func ruleC10(c *Ctx, r *Report) {
	const rule = "TB-C10"
	r.floor(rule, 12)
	typeF := c.Field("models", "Shard", "Type")
	mp := c.Pkg("models")
	verify := c.Method("models", "Namespace", "verifyShardRules")
	parse := c.Func("proxy/router", "parseRuleSliceInfos")
	newRouter := c.Func("proxy/router", "NewRouter")
	if typeF == nil || mp == nil || verify == nil || parse == nil || newRouter == nil {
		r.undecided(rule, "models x proxy/router", "anchor", "-", "Shard.Type / verifyShardRules / parseRuleSliceInfos / NewRouter not found")
		return
	}
	// (a) keys of ruleVerifyFuncMapping from the package initialiser
	g, _ := mp.Members["ruleVerifyFuncMapping"].(*ssa.Global)
	initFn := mp.Func("init")
	accepted := map[string]string{}
	if g == nil || initFn == nil {
		r.undecided(rule, "models.ruleVerifyFuncMapping", "table", "-", "map variable or package initialiser not found")
		return
	}
	var mapVal ssa.Value
	allInstrs(initFn, func(in ssa.Instruction) {
		if st, ok := in.(*ssa.Store); ok && st.Addr == ssa.Value(g) {
			mapVal = st.Val
		}
	})
	if mapVal == nil {
		r.undecided(rule, "models.ruleVerifyFuncMapping", "table", "-", "the map is not initialised by a literal in the package initialiser")
		return
	}
	bad := false
	allInstrs(initFn, func(in ssa.Instruction) {
		if mu, ok := in.(*ssa.MapUpdate); ok && mu.Map == mapVal {
			if k, ok := constString(mu.Key); ok {
				accepted[k] = "models.ruleVerifyFuncMapping"
			} else {
				bad = true
			}
		}
	})
	// any other writer of the map makes the table unknowable
	for _, fn := range c.Funcs {
		allInstrs(fn, func(in ssa.Instruction) {
			if mu, ok := in.(*ssa.MapUpdate); ok && fn != initFn {
				if ld, ok := mu.Map.(*ssa.UnOp); ok && ld.X == ssa.Value(g) {
					bad = true
				}
			}
		})
	}
	if bad || len(accepted) == 0 {
		r.undecided(rule, "models.ruleVerifyFuncMapping", "table", "-", "the validation table is not a constant-keyed literal")
		return
	}
	for k, acc := range typeComparisons(verify, typeF) {
		if acc {
			accepted[k] = "Namespace.verifyShardRules switch"
		} else {
			delete(accepted, k)
		}
	}
	constructible := map[string]string{}
	for k, acc := range typeComparisons(parse, typeF) {
		if acc {
			constructible[k] = "router.parseRuleSliceInfos"
		}
	}
	for k, acc := range typeComparisons(newRouter, typeF) {
		if acc {
			constructible[k] = "router.NewRouter"
		}
	}
	var keys []string
	for k := range accepted {
		keys = append(keys, k)
	}
	sort.Strings(keys)
	for _, k := range keys {
		if where, ok := constructible[k]; ok {
			r.ok(rule, "models x proxy/router", "rule-type:"+k, "-", "accepted by "+accepted[k]+", constructed by "+where)
		} else {
			r.viol(rule, "models x proxy/router", "rule-type:"+k, "-", "rule type '"+k+"' is accepted by the control plane's validation ("+accepted[k]+") but the proxy's router has no constructor for it: an accepted configuration cannot be loaded")
		}
	}
	for k, where := range constructible {
		if _, ok := accepted[k]; !ok {
			r.info(rule, "models x proxy/router", "router-only:"+k, "-", "constructible in "+where+" but not accepted by validation (informational)")
		}
	}
}

// ---------------------------------------------------------------------------------------
// C11

func ruleC11(c *Ctx, r *Report) {
	const rule = "MP-C11"
	r.floor(rule, 3)
	fn := c.Method("mysql", "Conn", "readHeaderFrom")
	seqF := c.Field("mysql", "Conn", "sequence")
	if fn == nil || seqF == nil {
		r.undecided(rule, "(*mysql.Conn).readHeaderFrom", "anchor", "-", "function or Conn.sequence not found")
		return
	}
	name := c.FuncName(fn)
	// edges on which header[3] == c.sequence
	var eqEdges []CondEdge
	isHeaderSeq := func(v ssa.Value) bool {
		for i := 0; i < 4; i++ {
			switch x := v.(type) {
			case *ssa.Convert:
				v = x.X
				continue
			case *ssa.ChangeType:
				v = x.X
				continue
			}
			break
		}
		ld, ok := v.(*ssa.UnOp)
		if !ok || ld.Op != token.MUL {
			return false
		}
		ia, ok := ld.X.(*ssa.IndexAddr)
		if !ok {
			return false
		}
		idx, ok := constInt(ia.Index)
		if !ok || idx != 3 {
			return false
		}
		_, isArr := ia.X.(*ssa.Alloc)
		return isArr
	}
	allInstrs(fn, func(in ssa.Instruction) {
		b, ok := in.(*ssa.BinOp)
		if !ok || (b.Op != token.EQL && b.Op != token.NEQ) {
			return
		}
		var a, d ssa.Value = b.X, b.Y
		if !(isHeaderSeq(a) && loadedField(d) == seqF) && !(isHeaderSeq(d) && loadedField(a) == seqF) {
			return
		}
		for _, e := range condEdges(b) {
			eq := e.Val
			if b.Op == token.NEQ {
				eq = !e.Val
			}
			if eq {
				eqEdges = append(eqEdges, e)
			}
		}
	})
	if len(eqEdges) == 0 {
		r.undecided(rule, name, "sequence-comparison", c.Pos(fn.Pos()), "no comparison of the header's sequence byte with c.sequence found")
		return
	}
	isInc := func(in ssa.Instruction) bool {
		st, ok := in.(*ssa.Store)
		return ok && fieldOfAddr(st.Addr) == seqF
	}
	n := 0
	for _, ret := range returnsOf(fn) {
		isNil, known := returnsNilError(ret)
		if known && !isNil {
			continue
		}
		n++
		cons := fmt.Sprintf("accept#%d", n)
		if !edgesDominate(fn, eqEdges, ret.Block()) {
			r.viol(rule, name, cons+":sequence-checked", c.Pos(exitPos(ret)), "a frame is accepted on a path that never compares its sequence id with the expected one")
		} else {
			r.ok(rule, name, cons+":sequence-checked", c.Pos(exitPos(ret)), "dominated by header[3] == c.sequence")
		}
		// exactly one increment on every path entry -> ret
		min, max := countOnPaths(fn, ret, isInc)
		if min == 1 && max == 1 {
			r.ok(rule, name, cons+":sequence-advanced-once", c.Pos(exitPos(ret)), "exactly one increment of c.sequence on every path to this return")
		} else {
			r.viol(rule, name, cons+":sequence-advanced-once", c.Pos(exitPos(ret)), fmt.Sprintf("c.sequence is advanced between %d and %d times on the paths to this accepting return (must be exactly once)", min, max))
		}
	}
	if n == 0 {
		r.undecided(rule, name, "accept", c.Pos(fn.Pos()), "no accepting return")
	}
	// who reads headers: callers of readHeaderFrom are the three packet readers
	allowed := map[*ssa.Function]string{
		c.Method("mysql", "Conn", "ReadEphemeralPacket"):       "packet reader",
		c.Method("mysql", "Conn", "ReadEphemeralPacketDirect"): "packet reader",
		c.Method("mysql", "Conn", "readOnePacket"):             "packet reader",
	}
	for _, s := range c.callSites(func(cc *ssa.CallCommon) bool { return callsFunc(cc, fn) }) {
		if why, ok := allowedVia(c, allowed, s.Fn); ok {
			r.ok(rule, c.FuncName(s.Fn), "calls:readHeaderFrom", c.Pos(s.In.Pos()), why)
		} else {
			r.viol(rule, c.FuncName(s.Fn), "calls:readHeaderFrom", c.Pos(s.In.Pos()), "packet headers are read outside the listed packet readers")
		}
	}
}

// countOnPaths: minimum and maximum number of instructions satisfying pred on acyclic paths from entry to `to`.
func countOnPaths(fn *ssa.Function, to ssa.Instruction, pred func(ssa.Instruction) bool) (int, int) {
	min, max := 1<<30, -1
	onPath := map[*ssa.BasicBlock]bool{}
	var walk func(b *ssa.BasicBlock, cnt int)
	steps := 0
	walk = func(b *ssa.BasicBlock, cnt int) {
		steps++
		if steps > 200000 || onPath[b] {
			return
		}
		onPath[b] = true
		defer func() { onPath[b] = false }()
		for _, in := range b.Instrs {
			if in == to {
				if cnt < min {
					min = cnt
				}
				if cnt > max {
					max = cnt
				}
				return
			}
			if pred(in) {
				cnt++
			}
		}
		for _, s := range b.Succs {
			walk(s, cnt)
		}
	}
	walk(fn.Blocks[0], 0)
	if max < 0 {
		return 0, 0
	}
	return min, max
}

// ---------------------------------------------------------------------------------------
// C03

func ruleC03(c *Ctx, r *Report) {
	const rule = "MP-C03"
	r.floor(rule, 1)
	fn := c.Func("proxy/plan", "handleInsertValues")
	listsF := c.Field("parser/ast", "InsertStmt", "Lists")
	if fn == nil || listsF == nil {
		r.undecided(rule, "proxy/plan.handleInsertValues", "anchor", "-", "function or ast.InsertStmt.Lists not found")
		return
	}
	name := c.FuncName(fn)
	// element loads: *(&lists[i]) where lists is a load of field Lists
	var elems []*ssa.UnOp
	allInstrs(fn, func(in ssa.Instruction) {
		ld, ok := in.(*ssa.UnOp)
		if !ok || ld.Op != token.MUL {
			return
		}
		ia, ok := ld.X.(*ssa.IndexAddr)
		if !ok {
			return
		}
		if loadedField(ia.X) == listsF {
			if _, isConst := ia.Index.(*ssa.Const); !isConst {
				elems = append(elems, ld)
			}
		}
	})
	if len(elems) == 0 {
		r.undecided(rule, name, "values-loop", c.Pos(fn.Pos()), "no loop over stmt.Lists found")
	}
	for i, el := range elems {
		cons := fmt.Sprintf("values-loop#%d:every-row-placed-or-rejected", i+1)
		a := aliasSet(el)
		again := false
		exits := searchExits(fn, el, nil, SearchOpts{
			Stop: func(in ssa.Instruction) bool {
				if in == ssa.Instruction(el) {
					again = true
					return true
				}
				if st, ok := in.(*ssa.Store); ok && a.has(st.Val) {
					if _, isCell := st.Addr.(*ssa.Alloc); !isCell {
						return true // the row is stored into a slice (append / literal) of a rewritten statement
					}
				}
				return false
			},
			ExitOK: func(in ssa.Instruction) bool {
				ret, ok := in.(*ssa.Return)
				if !ok {
					return true
				}
				isNil, known := returnsNilError(ret)
				return known && !isNil
			},
		})
		if !again && len(exits) == 0 {
			r.ok(rule, name, cons, c.Pos(el.Pos()), "every path through an iteration stores the row into a rewritten statement or fails the statement")
		} else {
			var p []string
			if len(exits) > 0 {
				p = c.pathStrings(exits[0])
			}
			r.viol(rule, name, cons, c.Pos(el.Pos()), "a row of the VALUES list can pass through the routing loop without being placed in any rewritten statement and without failing the statement: the INSERT succeeds and the row is silently dropped", p...)
		}
	}
	// side obligations (dominance of the shard-column rejections)
	side := func(fnName, guard, gen string) {
		f := c.Func("proxy/plan", fnName)
		g := c.Func("proxy/plan", guard)
		s := c.Func("proxy/plan", gen)
		if f == nil || g == nil || s == nil {
			r.undecided("MP-C05side", "proxy/plan."+fnName, guard+"->"+gen, "-", "anchor not found")
			return
		}
		for _, gi := range callsIn(f, func(cc *ssa.CallCommon) bool { return callsFunc(cc, s) }) {
			dom := false
			for _, ci := range callsIn(f, func(cc *ssa.CallCommon) bool { return callsFunc(cc, g) }) {
				if dominatedByNilErr(gi, ci.(*ssa.Call)) {
					dom = true
				}
			}
			if dom {
				r.ok("MP-C05side", c.FuncName(f), guard+"->"+gen, c.Pos(gi.Pos()), "SQL generation is dominated by the successful shard-column check")
			} else {
				r.viol("MP-C05side", c.FuncName(f), guard+"->"+gen, c.Pos(gi.Pos()), "SQL can be generated without the 'cannot update shard column' rejection having passed")
			}
		}
	}
	side("HandleInsertStmt", "handleInsertOnDuplicate", "generateMultiShardingSQLs")
	side("HandleUpdatePlan", "handleUpdateAssignmentList", "generateShardingSQLs")
}

// ---------------------------------------------------------------------------------------
// C39

func ruleC39(c *Ctx, r *Report) {
	const rule = "PC5"
	r.floor(rule, 3)
	pf := c.pcFacts()
	more := c.pcMethod("MoreRowsExist")
	exec := c.pcMethod("Execute")
	single := c.seMethod("executeSingleSQLInSlice")
	if pf == nil || more == nil || exec == nil || single == nil {
		r.undecided(rule, "proxy/server", "anchor", "-", "anchors not found")
		return
	}
	// takesConn: function of proxy/server with a PooledConnect or map-of-PooledConnect parameter
	takesConn := func(f *ssa.Function) bool {
		if f == nil || f.Pkg != pf.serverPkg {
			return false
		}
		for _, p := range f.Params {
			if pf.isPC(p.Type()) || pf.isPCMap(p.Type()) {
				return true
			}
		}
		return false
	}
	returnsResult := func(f *ssa.Function) bool {
		res := f.Signature.Results()
		return res.Len() >= 2 && errResultIndex(f.Signature) == res.Len()-1
	}
	// consults(F): in F or one of its closures, from every "result obtained" point every path to a nil-error return
	// (or to the end of a closure) passes MoreRowsExist.
	withClosures := func(f *ssa.Function) []*ssa.Function {
		out := []*ssa.Function{f}
		for _, g := range c.Funcs {
			p := g.Parent()
			for p != nil {
				if p == f {
					out = append(out, g)
					break
				}
				p = p.Parent()
			}
		}
		return out
	}
	isMore := func(in ssa.Instruction) bool {
		cc := callCommon(in)
		return cc != nil && callsIfaceMethod(cc, more)
	}
	var chainOf func(f *ssa.Function, depth int) []*ssa.Function
	chainOf = func(f *ssa.Function, depth int) []*ssa.Function {
		out := []*ssa.Function{f}
		if depth > 4 {
			return out
		}
		for _, g := range withClosures(f) {
			allInstrs(g, func(in ssa.Instruction) {
				cc := callCommon(in)
				if cc == nil {
					return
				}
				k := cc.StaticCallee()
				if k != nil && k != f && takesConn(k) && returnsResult(k) {
					dup := false
					for _, o := range out {
						if o == k {
							dup = true
						}
					}
					if !dup {
						out = append(out, chainOf(k, depth+1)...)
					}
				}
			})
		}
		return out
	}
	consults := func(f *ssa.Function) (bool, string) {
		for _, g := range withClosures(f) {
			var points []ssa.Instruction
			allInstrs(g, func(in ssa.Instruction) {
				switch x := in.(type) {
				case *ssa.Call:
					k := x.Call.StaticCallee()
					if (k != nil && takesConn(k) && returnsResult(k)) || callsIfaceMethod(&x.Call, exec) {
						points = append(points, in)
					}
				case *ssa.Select:
					points = append(points, in)
				case *ssa.UnOp:
					if x.Op == token.ARROW {
						points = append(points, in)
					}
				}
			})
			hasMore := false
			allInstrs(g, func(in ssa.Instruction) {
				if isMore(in) {
					hasMore = true
				}
			})
			if !hasMore || len(points) == 0 {
				continue
			}
			all := true
			for _, p := range points {
				errEdges := map[[2]int]bool{}
				if call, ok := p.(*ssa.Call); ok {
					for _, e := range errNilEdgesOfCall(call) {
						if !e.Val {
							errEdges[[2]int{e.If.Block().Index, e.Succ}] = true
						}
					}
				}
				exits := searchExits(g, p, nil, SearchOpts{
					Stop:   isMore,
					EdgeOK: func(b *ssa.BasicBlock, i int) bool { return !errEdges[[2]int{b.Index, i}] },
					ExitOK: func(in ssa.Instruction) bool {
						ret, ok := in.(*ssa.Return)
						if !ok {
							return true
						}
						if errResultIndex(g.Signature) < 0 {
							return false
						}
						isNil, known := returnsNilError(ret)
						return known && !isNil
					},
				})
				if len(exits) > 0 {
					all = false
				}
			}
			if all {
				return true, c.FuncName(g)
			}
		}
		return false, ""
	}
	// owners: functions with a session/raw acquisition or a map acquisition that pass it to an executor
	n := 0
	for _, fn := range pf.serverFuncs() {
		if fn.Parent() != nil {
			continue
		}
		owns := false
		allInstrs(fn, func(in ssa.Instruction) {
			if call, ok := in.(*ssa.Call); ok {
				sig := call.Call.Signature()
				if sig.Results().Len() > 0 && (pf.isPC(sig.Results().At(0).Type()) || pf.isPCMap(sig.Results().At(0).Type())) && (pf.sourceKind(&call.Call) != "" || pf.isPCMap(sig.Results().At(0).Type())) {
					owns = true
				}
			}
		})
		if !owns || pf.sessionSources[fn] || !returnsResult(fn) {
			continue
		}
		// executor calls in the owner
		var execCalls []*ssa.Call
		allInstrs(fn, func(in ssa.Instruction) {
			if call, ok := in.(*ssa.Call); ok {
				k := call.Call.StaticCallee()
				if k != nil && takesConn(k) && returnsResult(k) {
					execCalls = append(execCalls, call)
				}
			}
		})
		for _, ec := range execCalls {
			k := ec.Call.StaticCallee()
			n++
			cons := "owner->" + k.Name()
			// constant SQL is exempt
			constSQL := false
			if k == single && len(ec.Call.Args) >= 5 {
				if _, ok := constString(ec.Call.Args[4]); ok {
					constSQL = true
				}
			}
			if constSQL {
				r.ok(rule, c.FuncName(fn), cons, c.Pos(ec.Pos()), "constant control SQL with a bounded result")
				continue
			}
			found := ""
			for _, f := range append([]*ssa.Function{fn}, chainOf(k, 0)...) {
				if ok, where := consults(f); ok {
					found = where
					break
				}
			}
			if found != "" {
				r.ok(rule, c.FuncName(fn), cons, c.Pos(ec.Pos()), "the truncation flag MoreRowsExist is consulted on every success path in "+found)
			} else {
				r.viol(rule, c.FuncName(fn), cons, c.Pos(ec.Pos()), "no function between the owner of the connection and the Execute call consults MoreRowsExist on the success path: a result cut at the read limit is merged and sent as if complete, and the half-read connection is silently closed on Recycle")
			}
		}
	}
	if n == 0 {
		r.undecided(rule, "proxy/server", "owners", "-", "no owner of a connection found")
	}
	// writeOKResultStream
	ws := c.Method(serverRel, "ClientConn", "writeOKResultStream")
	wr := c.Method(serverRel, "ClientConn", "writeOKResult")
	if ws == nil || wr == nil {
		r.undecided(rule, "(*proxy/server.ClientConn).writeOKResultStream", "anchor", "-", "not found")
		return
	}
	var falseEdges []CondEdge
	for _, ci := range callsIn(ws, func(cc *ssa.CallCommon) bool { return callsIfaceMethod(cc, more) }) {
		for _, e := range condEdges(ci.(*ssa.Call)) {
			if !e.Val {
				falseEdges = append(falseEdges, e)
			}
		}
	}
	first := callsIn(ws, func(cc *ssa.CallCommon) bool { return callsFunc(cc, wr) })
	k := 0
	for _, ret := range returnsOf(ws) {
		isNil, known := returnsNilError(ret)
		if known && !isNil {
			continue
		}
		after := false
		for _, f := range first {
			if blockReachable(f.Block(), ret.Block()) {
				after = true
			}
		}
		if !after {
			continue
		}
		k++
		cons := fmt.Sprintf("stream-success#%d", k)
		if edgesDominate(ws, falseEdges, ret.Block()) {
			r.ok(rule, c.FuncName(ws), cons, c.Pos(exitPos(ret)), "success is reported only after MoreRowsExist() turned false")
		} else {
			r.viol(rule, c.FuncName(ws), cons, c.Pos(exitPos(ret)), "the streamed result can be reported complete while the backend still has rows")
		}
	}
	if k == 0 {
		r.undecided(rule, c.FuncName(ws), "stream-success", c.Pos(ws.Pos()), "no success return after the first result packet")
	}
}

func init() {
	register("C39", "", ruleC39rows)
	register("C16", "", ruleC16c)
	register("C32", "", ruleC32c)
}

// ruleC39rows (PC5b): every packet that readResultRows reads as a row is stored in the result before the loop moves on:
// from the readPacket call every path that is not an error exit and not the EOF edge stores the packet into RowDatas
// before the next read, the truncation break or the success return.
func ruleC39rows(c *Ctx, r *Report) {
	const rule = "PC5b"
	r.floor(rule, 1)
	fn := c.Method("backend", "DirectConnection", "readResultRows")
	readPacket := c.Method("backend", "DirectConnection", "readPacket")
	isEOF := c.Method("backend", "DirectConnection", "isEOFPacket")
	if fn == nil || readPacket == nil || isEOF == nil {
		r.undecided(rule, "(*backend.DirectConnection).readResultRows", "anchor", "-", "anchors not found")
		return
	}
	name := c.FuncName(fn)
	n := 0
	for _, ci := range callsIn(fn, func(cc *ssa.CallCommon) bool { return callsFunc(cc, readPacket) }) {
		call, ok := ci.(*ssa.Call)
		if !ok {
			continue
		}
		data := resultOf(call, 0)
		if data == nil {
			continue
		}
		n++
		a := aliasSet(data)
		prune := map[[2]int]bool{}
		for _, e := range errNilEdgesOfCall(call) {
			if !e.Val {
				prune[[2]int{e.If.Block().Index, e.Succ}] = true
			}
		}
		for _, ei := range callsIn(fn, func(cc *ssa.CallCommon) bool { return callsFunc(cc, isEOF) }) {
			ec := ei.(*ssa.Call)
			if len(ec.Call.Args) < 2 || !a.has(ec.Call.Args[1]) {
				continue
			}
			for _, e := range condEdges(ec) {
				if e.Val {
					prune[[2]int{e.If.Block().Index, e.Succ}] = true
				}
			}
		}
		eofSeen := false
		for _, ei := range callsIn(fn, func(cc *ssa.CallCommon) bool { return callsFunc(cc, isEOF) }) {
			if ec := ei.(*ssa.Call); len(ec.Call.Args) >= 2 && a.has(ec.Call.Args[1]) {
				eofSeen = true
			}
		}
		if !eofSeen {
			r.undecided(rule, name, fmt.Sprintf("row-packet#%d:end-of-rows-idiom", n), c.Pos(call.Pos()), "the end of the row stream is not recognised through dc.isEOFPacket(data) (length-checked EOF test): the rule cannot tell the EOF exit from a dropped row; a 0xfe first byte alone is also the length prefix of a >=16 MiB first column")
			continue
		}
		again := false
		exits := searchExits(fn, call, nil, SearchOpts{
			Stop: func(in ssa.Instruction) bool {
				if in == ssa.Instruction(call) {
					again = true
					return true
				}
				if st, ok := in.(*ssa.Store); ok && a.has(st.Val) {
					if _, isCell := st.Addr.(*ssa.Alloc); !isCell {
						return true
					}
				}
				return false
			},
			EdgeOK: func(b *ssa.BasicBlock, i int) bool { return !prune[[2]int{b.Index, i}] },
			ExitOK: func(in ssa.Instruction) bool {
				ret, ok := in.(*ssa.Return)
				if !ok {
					return true
				}
				isNil, known := returnsNilError(ret)
				return !(known && isNil) // error (or possibly-error) exits carry no obligation
			},
		})
		cons := fmt.Sprintf("row-packet#%d:stored-before-next-step", n)
		if !again && len(exits) == 0 {
			r.ok(rule, name, cons, c.Pos(call.Pos()), "every row packet is appended to the result before the next read, the 16 MiB break or the success return")
		} else {
			var p []string
			if len(exits) > 0 {
				p = c.pathStrings(exits[0])
			}
			r.viol(rule, name, cons, c.Pos(call.Pos()), "a packet read as a row can be dropped (the loop continues, breaks or returns success without storing it): the client receives a result with a row missing and no error", p...)
		}
	}
	if n == 0 {
		r.undecided(rule, name, "row-packet", c.Pos(fn.Pos()), "no readPacket call")
	}
}

// ruleC16c: statements never see each other's values: every statement registered in SessionExecutor.stmts went through
// ResetParams (its own fresh argument slice) before it was stored.
func ruleC16c(c *Ctx, r *Report) {
	const rule = "MP-C16c"
	r.floor(rule, 1)
	stmtsF := c.Field(serverRel, "SessionExecutor", "stmts")
	reset := c.Method(serverRel, "Stmt", "ResetParams")
	if stmtsF == nil || reset == nil {
		r.undecided(rule, "proxy/server", "anchor", "-", "anchors not found")
		return
	}
	n := 0
	for _, fn := range c.Funcs {
		if c.IsMockFunc(fn) {
			continue
		}
		allInstrs(fn, func(in ssa.Instruction) {
			mu, ok := in.(*ssa.MapUpdate)
			if !ok || loadedField(mu.Map) != stmtsF {
				return
			}
			n++
			name := c.FuncName(fn)
			dom := false
			for _, ci := range callsIn(fn, func(cc *ssa.CallCommon) bool { return callsFunc(cc, reset) }) {
				cc := callCommon(ci)
				if sameVal(cc.Args[0], mu.Value) && instrDominates(ci, mu) {
					dom = true
				}
			}
			if dom {
				r.ok(rule, name, "register:stmts", c.Pos(mu.Pos()), "the statement gets its own fresh argument slice (ResetParams) before it is registered")
			} else {
				r.viol(rule, name, "register:stmts", c.Pos(mu.Pos()), "a statement handle is registered without ResetParams: its argument slice may be shared with another handle (values of one statement appear in another)")
			}
		})
	}
	if n == 0 {
		r.undecided(rule, "proxy/server", "register:stmts", "-", "no registration of prepared statements found")
	}
}

// ruleC32c: the outcome of every proxy exchange reaches the decision: in ModifyNamespace's goroutines the value sent on
// the error channels is the result of the proxy.PrepareConfig / proxy.CommitConfig call (def-use), so a failed prepare
// cannot be reported as success.
func ruleC32c(c *Ctx, r *Report) {
	const rule = "MP-C32c"
	r.floor(rule, 2)
	mod := c.Func("cc/service", "ModifyNamespace")
	if mod == nil {
		r.undecided(rule, "cc/service.ModifyNamespace", "anchor", "-", "not found")
		return
	}
	n := 0
	for _, fn := range c.Funcs {
		if fn.Parent() != mod {
			continue
		}
		// proxy calls of the goroutine, including those in function literals it hands to a (retry) helper
		var proxyCalls []*ssa.Call
		var gather func(f *ssa.Function)
		gather = func(f *ssa.Function) {
			allInstrs(f, func(in ssa.Instruction) {
				if call, ok := in.(*ssa.Call); ok {
					if f := call.Call.StaticCallee(); f != nil && f.Pkg != nil && f.Pkg.Pkg.Path() == modPath+"/cc/proxy" && errResultIndex(f.Signature) >= 0 {
						proxyCalls = append(proxyCalls, call)
					}
				}
			})
			for _, a := range f.AnonFuncs {
				gather(a)
			}
		}
		gather(fn)
		if len(proxyCalls) == 0 {
			continue
		}
		allInstrs(fn, func(in ssa.Instruction) {
			snd, ok := in.(*ssa.Send)
			if !ok || !isErrorType(snd.X.Type()) {
				return
			}
			n++
			name := c.FuncName(fn)
			from := false
			leaves := phiLeaves(snd.X)
			for _, l := range phiLeaves(snd.X) {
				if hc, ok := l.(*ssa.Call); ok {
					leaves = append(leaves, hofResultLeaves(c, hc)...)
				}
			}
			for _, l := range leaves {
				for _, pc := range proxyCalls {
					if l == ssa.Value(pc) || l == errResultOf(pc) {
						from = true
					}
				}
			}
			label := proxyCalls[0].Call.StaticCallee().Name()
			if from {
				r.ok(rule, name, "send:error-of:"+label, c.Pos(snd.Pos()), "the error reported to the coordinator is the proxy call's own result")
			} else {
				r.viol(rule, name, "send:error-of:"+label, c.Pos(snd.Pos()), "the value reported for this proxy is not the result of the proxy call (e.g. a shadowed variable): a failed "+label+" is counted as success and the exchange goes on")
			}
		})
	}
	if n == 0 {
		r.undecided(rule, c.FuncName(mod), "send:error", c.Pos(mod.Pos()), "no per-proxy result is reported from the goroutines")
	}
}

func init() { register("C39", "", ruleC39true) }

// ruleC39true (PC5c): where a function that returns a result to the client learns that the backend still has rows
// (MoreRowsExist()==true), every path to a success return hands the connection to the streaming writer
// (session.continueConn = pc), drains it (FetchMoreRows) or fails.
func ruleC39true(c *Ctx, r *Report) {
	const rule = "PC5c"
	r.floor(rule, 1)
	pf := c.pcFacts()
	more := c.pcMethod("MoreRowsExist")
	fetch := c.pcMethod("FetchMoreRows")
	if pf == nil || more == nil || fetch == nil {
		r.undecided(rule, "proxy/server", "anchor", "-", "anchors not found")
		return
	}
	n := 0
	for _, fn := range pf.serverFuncs() {
		res := fn.Signature.Results()
		if res.Len() < 2 || errResultIndex(fn.Signature) != res.Len()-1 || !strings.Contains(res.At(0).Type().String(), "mysql.Result") {
			continue
		}
		name := c.FuncName(fn)
		for _, ci := range callsIn(fn, func(cc *ssa.CallCommon) bool { return callsIfaceMethod(cc, more) }) {
			call, ok := ci.(*ssa.Call)
			if !ok {
				continue
			}
			pc := recvOf(&call.Call)
			a := aliasSet(resolveLoad(stripValue(pc)))
			a[stripValue(pc)] = true
			for _, e := range condEdges(call) {
				if !e.Val {
					continue
				}
				n++
				exits := searchExits(fn, nil, e.If.Block().Succs[e.Succ], SearchOpts{
					Stop: func(in ssa.Instruction) bool {
						if st, ok := in.(*ssa.Store); ok && fieldOfAddr(st.Addr) == pf.contF && a.has(st.Val) {
							return true
						}
						cc := callCommon(in)
						return cc != nil && callsIfaceMethod(cc, fetch) && a.has(recvOf(cc))
					},
					ExitOK: func(in ssa.Instruction) bool {
						ret, ok := in.(*ssa.Return)
						if !ok {
							return true
						}
						isNil, known := returnsNilError(ret)
						return known && !isNil
					},
				})
				cons := "more-rows-edge@" + ordinalOfIface(ci, more)
				if len(exits) == 0 {
					r.ok(rule, name, cons, c.Pos(call.Pos()), "when the backend still has rows the connection is handed to the streaming writer (or drained, or the statement fails) on every path")
				} else {
					r.viol(rule, name, cons, c.Pos(call.Pos()), "the function knows the backend still has rows and can nevertheless return the partial result as complete", c.pathStrings(exits[0])...)
				}
			}
		}
	}
	if n == 0 {
		r.undecided(rule, "proxy/server", "more-rows-edge", "-", "no result-returning function branches on MoreRowsExist()")
	}
}

func init() {
	register("C11", "", ruleC11w)
	register("C20", "", ruleC20c)
	register("C03", "", ruleC03b)
}

// ruleC11w (MP-C11w): the writer cuts each frame where the previous one ended: in (*Conn).WritePacket the loop-carried
// offset and remaining length satisfy d(index) + d(length) = 0 on every back edge, and exactly one increment of
// c.sequence lies between a frame write and the next write or the success return.
func ruleC11w(c *Ctx, r *Report) {
	const rule = "MP-C11w"
	r.floor(rule, 2)
	fn := c.Method("mysql", "Conn", "WritePacket")
	seqF := c.Field("mysql", "Conn", "sequence")
	if fn == nil || seqF == nil || len(fn.Params) < 2 {
		r.undecided(rule, "(*mysql.Conn).WritePacket", "anchor", "-", "not found")
		return
	}
	name := c.FuncName(fn)
	data := fn.Params[1]
	p := c.newProver(fn, nil)
	p.noWrap = true
	// loop header phis: index (0 on entry), length (len(data) on entry)
	var idxPhi, lenPhi *ssa.Phi
	for _, b := range fn.Blocks {
		for _, in := range b.Instrs {
			ph, ok := in.(*ssa.Phi)
			if !ok {
				break
			}
			for i, pr := range b.Preds {
				if b.Dominates(pr) {
					continue
				}
				e := ph.Edges[i]
				if isIntConst(e, 0) {
					// the offset is the phi used as the low bound of a slice of data
					if refs := ph.Referrers(); refs != nil {
						for _, rr := range *refs {
							if sl, ok := rr.(*ssa.Slice); ok && sl.X == ssa.Value(data) && sl.Low == ssa.Value(ph) {
								idxPhi = ph
							}
						}
					}
				}
				if call, ok := e.(*ssa.Call); ok {
					if bi, ok := call.Call.Value.(*ssa.Builtin); ok && bi.Name() == "len" && call.Call.Args[0] == ssa.Value(data) {
						lenPhi = ph
					}
				}
			}
		}
	}
	if idxPhi == nil || lenPhi == nil || idxPhi.Block() != lenPhi.Block() {
		r.undecided(rule, name, "offset-and-remaining", c.Pos(fn.Pos()), "the frame loop's offset/remaining-length variables were not recognised")
	} else {
		h := idxPhi.Block()
		nb := 0
		for i, pr := range h.Preds {
			if !h.Dominates(pr) {
				continue
			}
			nb++
			at := pr.Instrs[len(pr.Instrs)-1]
			d := p.lin(idxPhi.Edges[i], at, 0).addScaled(p.lin(idxPhi, at, 0), -1).
				addScaled(p.lin(lenPhi.Edges[i], at, 0), 1).addScaled(p.lin(lenPhi, at, 0), -1)
			cons := fmt.Sprintf("back-edge#%d:offset+remaining-conserved", nb)
			if d.isConst() && d.k.Sign() == 0 {
				r.ok(rule, name, cons, c.Pos(at.Pos()), "the offset advances by exactly what the remaining length shrinks: the next frame starts where this one ended")
			} else {
				r.viol(rule, name, cons, c.Pos(at.Pos()), "on this way back to the loop head the offset does not advance by what was written ("+p.linString(d)+" != 0): continuation frames are cut from the wrong place")
			}
		}
		if nb == 0 {
			r.undecided(rule, name, "back-edge", c.Pos(fn.Pos()), "no back edge in the frame loop")
		}
	}
	// sequence: exactly one increment between a write and the next write / success return
	isWrite := func(in ssa.Instruction) bool {
		cc := callCommon(in)
		return cc != nil && cc.IsInvoke() && cc.Method.Name() == "Write"
	}
	isInc := func(in ssa.Instruction) bool {
		st, ok := in.(*ssa.Store)
		return ok && fieldOfAddr(st.Addr) == seqF
	}
	nw := 0
	allInstrs(fn, func(in ssa.Instruction) {
		if !isWrite(in) {
			return
		}
		nw++
		call := in.(*ssa.Call)
		errEdges := map[[2]int]bool{}
		for _, e := range errNilEdgesOfCall(call) {
			if !e.Val {
				errEdges[[2]int{e.If.Block().Index, e.Succ}] = true
			}
		}
		min, max := 1<<30, -1
		onPath := map[*ssa.BasicBlock]bool{}
		var walk func(b *ssa.BasicBlock, from int, cnt int)
		walk = func(b *ssa.BasicBlock, from int, cnt int) {
			for i := from; i < len(b.Instrs); i++ {
				x := b.Instrs[i]
				if isInc(x) {
					cnt++
				}
				end := false
				if isWrite(x) {
					end = true
				}
				if ret, ok := x.(*ssa.Return); ok {
					if isNil, known := returnsNilError(ret); known && !isNil {
						return // failure exits carry no obligation
					}
					end = true
				}
				if end {
					if cnt < min {
						min = cnt
					}
					if cnt > max {
						max = cnt
					}
					return
				}
			}
			for i, s := range b.Succs {
				if errEdges[[2]int{b.Index, i}] || onPath[s] {
					continue
				}
				onPath[s] = true
				walk(s, 0, cnt)
				onPath[s] = false
			}
		}
		walk(in.Block(), instrIndex(in)+1, 0)
		cons := fmt.Sprintf("write#%d:sequence-advanced-once", nw)
		if min == 1 && max == 1 {
			r.ok(rule, name, cons, c.Pos(in.Pos()), "exactly one increment of the sequence id between this frame and the next frame or the successful end")
		} else if max < 0 {
			r.ok(rule, name, cons, c.Pos(in.Pos()), "no successful continuation after this write")
		} else {
			r.viol(rule, name, cons, c.Pos(in.Pos()), fmt.Sprintf("the sequence id is advanced between %d and %d times after this frame (must be exactly once)", min, max))
		}
	})
	if nw == 0 {
		r.undecided(rule, name, "writes", c.Pos(fn.Pos()), "no frame write found")
	}
}

// ruleC20c (MP-C20c): a backend connection's record of its session variables never shares Variable objects with a
// client's set: in the methods of mysql.SessionVariables that take another *SessionVariables, nothing taken out of the
// other set's maps is stored into the receiver's maps (a later SET by the client would silently change the connection's
// belief without any SET being sent).
func ruleC20c(c *Ctx, r *Report) {
	const rule = "MP-C20c"
	r.floor(rule, 1)
	svT := c.NamedType("mysql", "SessionVariables")
	if svT == nil {
		r.undecided(rule, "mysql.SessionVariables", "anchor", "-", "not found")
		return
	}
	n := 0
	for _, fn := range c.Funcs {
		if fn.Signature.Recv() == nil || namedOf(fn.Signature.Recv().Type()) != svT || len(fn.Params) < 2 {
			continue
		}
		var other *ssa.Parameter
		for _, prm := range fn.Params[1:] {
			if namedOf(prm.Type()) == svT {
				other = prm
			}
		}
		if other == nil {
			continue
		}
		recv := fn.Params[0]
		rootParam := func(v ssa.Value) ssa.Value {
			for i := 0; i < 10; i++ {
				switch x := v.(type) {
				case *ssa.UnOp:
					v = x.X
					continue
				case *ssa.FieldAddr:
					v = x.X
					continue
				case *ssa.Extract:
					v = x.Tuple
					continue
				case *ssa.Next:
					v = x.Iter
					continue
				case *ssa.Range:
					v = x.X
					continue
				case *ssa.Lookup:
					v = x.X
					continue
				case *ssa.Phi:
					if len(x.Edges) > 0 {
						v = x.Edges[0]
						continue
					}
				}
				break
			}
			return v
		}
		n++
		name := c.FuncName(fn)
		bad := false
		allInstrs(fn, func(in ssa.Instruction) {
			mu, ok := in.(*ssa.MapUpdate)
			if !ok {
				return
			}
			if rootParam(mu.Map) == ssa.Value(recv) && rootParam(mu.Value) == ssa.Value(other) {
				bad = true
				r.viol(rule, name, "stores-other-sets-object", c.Pos(mu.Pos()), "a Variable object taken from the other set is stored into this set: the two sets now share it, and a later change through one of them silently changes the other (the connection believes it already has the client's new value and sends no SET)")
			}
		})
		if !bad {
			r.ok(rule, name, "no-shared-variable-objects", c.Pos(fn.Pos()), "values are copied with Set(name, value); no Variable object of the other set is stored")
		}
	}
	if n == 0 {
		r.undecided(rule, "mysql.SessionVariables", "methods", "-", "no method takes another SessionVariables")
	}
}

// ruleC03b (MP-C03b): an INSERT whose route was not narrowed to one table per rewritten statement is rejected: the
// sharded (non-global) INSERT path generates its SQL through generateMultiShardingSQLs, whose success is dominated by
// len(stmts) == len(result indexes) — the guard that rejects an INSERT ... SET whose sharding value was not evaluated.
func ruleC03b(c *Ctx, r *Report) {
	const rule = "MP-C03b"
	r.floor(rule, 2)
	multi := c.Func("proxy/plan", "generateMultiShardingSQLs")
	global := c.Func("proxy/plan", "generateGlobalShardingSQLs")
	his := c.Func("proxy/plan", "HandleInsertStmt")
	if multi == nil || his == nil || global == nil {
		r.undecided(rule, "proxy/plan", "anchor", "-", "anchors not found")
		return
	}
	// (1) guard inside generateMultiShardingSQLs
	mn := c.FuncName(multi)
	var eqEdges []CondEdge
	allInstrs(multi, func(in ssa.Instruction) {
		b, ok := in.(*ssa.BinOp)
		if !ok || (b.Op != token.NEQ && b.Op != token.EQL) {
			return
		}
		isLen := func(v ssa.Value) bool {
			call, ok := v.(*ssa.Call)
			if !ok {
				return false
			}
			bi, ok := call.Call.Value.(*ssa.Builtin)
			return ok && bi.Name() == "len"
		}
		if !isLen(b.X) || !isLen(b.Y) {
			return
		}
		for _, e := range condEdges(b) {
			eq := e.Val
			if b.Op == token.NEQ {
				eq = !e.Val
			}
			if eq {
				eqEdges = append(eqEdges, e)
			}
		}
	})
	k := 0
	for _, ret := range returnsOf(multi) {
		isNil, known := returnsNilError(ret)
		if known && !isNil {
			continue
		}
		k++
		cons := fmt.Sprintf("success#%d:stmts-match-route", k)
		if edgesDominate(multi, eqEdges, ret.Block()) {
			r.ok(rule, mn, cons, c.Pos(exitPos(ret)), "dominated by len(stmts) == len(route indexes)")
		} else {
			r.viol(rule, mn, cons, c.Pos(exitPos(ret)), "SQL is generated although the number of rewritten statements differs from the number of routed tables")
		}
	}
	// (2) HandleInsertStmt: every success return is dominated by the success of one of the two generators
	hn := c.FuncName(his)
	var okEdges []CondEdge
	for _, ci := range callsIn(his, func(cc *ssa.CallCommon) bool { return callsFunc(cc, multi) || callsFunc(cc, global) }) {
		if call, ok := ci.(*ssa.Call); ok {
			for _, e := range errNilEdgesOfCall(call) {
				if e.Val {
					okEdges = append(okEdges, e)
				}
			}
		}
	}
	j := 0
	for _, ret := range returnsOf(his) {
		isNil, known := returnsNilError(ret)
		if known && !isNil {
			continue
		}
		j++
		cons := fmt.Sprintf("success#%d:generated-by-guarded-generator", j)
		if edgesDominate(his, okEdges, ret.Block()) {
			r.ok(rule, hn, cons, c.Pos(exitPos(ret)), "the INSERT's SQL comes from generateMultiShardingSQLs (or the global-table generator)")
		} else {
			r.viol(rule, hn, cons, c.Pos(exitPos(ret)), "an INSERT can be planned without the generator that rejects an un-narrowed route: a row whose sharding value was not evaluated is written to every table (or to none)")
		}
	}
}

func init() { register("C34", "", ruleC34cd) }

// ruleC34cd: (ER-C34c) a failed block fetch leaves the cached block untouched: no store to curr/max lies on any path to
// an error return of getSeqFromDB; (ER-C34d) test, fetch and increment are one critical section: NextSeq calls
// getSeqFromDB with s.lock held, takes the lock once and releases it only by defer, and getSeqFromDB does not touch the lock.
func ruleC34cd(c *Ctx, r *Report) {
	lockF := c.Field("proxy/sequence", "MySQLSequence", "lock")
	get := c.Method("proxy/sequence", "MySQLSequence", "getSeqFromDB")
	next := c.Method("proxy/sequence", "MySQLSequence", "NextSeq")
	currF := c.Field("proxy/sequence", "MySQLSequence", "curr")
	maxF := c.Field("proxy/sequence", "MySQLSequence", "max")
	if lockF == nil || get == nil || next == nil || currF == nil || maxF == nil {
		r.undecided("ER-C34c", "proxy/sequence.MySQLSequence", "anchor", "-", "anchors not found")
		return
	}
	r.floor("ER-C34c", 3)
	r.floor("ER-C34d", 3)
	isStateStore := func(in ssa.Instruction) bool {
		st, ok := in.(*ssa.Store)
		if !ok {
			return false
		}
		f := fieldOfAddr(st.Addr)
		return f == currF || f == maxF
	}
	gn := c.FuncName(get)
	n := 0
	for _, ret := range returnsOf(get) {
		isNil, known := returnsNilError(ret)
		if known && isNil {
			continue
		}
		n++
		cons := fmt.Sprintf("error-return#%d:state-untouched", n)
		_, max := countOnPaths(get, ret, isStateStore)
		if max == 0 {
			r.ok("ER-C34c", gn, cons, c.Pos(exitPos(ret)), "no store to curr/max on any path to this failure")
		} else {
			r.viol("ER-C34c", gn, cons, c.Pos(exitPos(ret)), "the fetch can fail after it already overwrote curr or max: later requests skip the fetch and count on from a half-installed block (values that were never allocated, or are issued again)")
		}
	}
	if n == 0 {
		r.undecided("ER-C34c", gn, "error-return", c.Pos(get.Pos()), "no failing return")
	}
	nn := c.FuncName(next)
	for _, ci := range callsIn(next, func(cc *ssa.CallCommon) bool { return callsFunc(cc, get) }) {
		if c.lockHeldAt(next, ci, lockF) {
			r.ok("ER-C34d", nn, "fetch-under-lock", c.Pos(ci.Pos()), "the block fetch runs with s.lock held")
		} else {
			r.viol("ER-C34d", nn, "fetch-under-lock", c.Pos(ci.Pos()), "the block fetch runs without s.lock: two sessions can both see the block exhausted, fetch, and install out of order (values go backwards or are issued twice)")
		}
	}
	locks, unlocks, deferred := 0, 0, 0
	count := func(fn *ssa.Function) {
		allInstrs(fn, func(in ssa.Instruction) {
			cc := callCommon(in)
			if cc == nil {
				return
			}
			f := cc.StaticCallee()
			if f == nil || f.Pkg == nil || f.Pkg.Pkg.Path() != "sync" || len(cc.Args) == 0 || muFieldOf(cc.Args[0]) != lockF {
				return
			}
			switch f.Name() {
			case "Lock":
				locks++
			case "Unlock":
				if _, isD := in.(*ssa.Defer); isD {
					deferred++
				} else {
					unlocks++
				}
			}
		})
	}
	count(next)
	// no access to the cached block (and no fetch) may follow a release of the lock inside NextSeq
	reacq := false
	allInstrs(next, func(in ssa.Instruction) {
		call, ok := in.(*ssa.Call)
		if !ok {
			return
		}
		f := call.Call.StaticCallee()
		if f == nil || f.Pkg == nil || f.Pkg.Pkg.Path() != "sync" || f.Name() != "Unlock" || len(call.Call.Args) == 0 || muFieldOf(call.Call.Args[0]) != lockF {
			return
		}
		searchExits(next, in, nil, SearchOpts{Stop: func(x ssa.Instruction) bool {
			if fa, ok := x.(*ssa.FieldAddr); ok && (fieldOfAddr(fa) == currF || fieldOfAddr(fa) == maxF) {
				reacq = true
				return true
			}
			if cc := callCommon(x); cc != nil && callsFunc(cc, get) {
				reacq = true
				return true
			}
			return false
		}})
	})
	if locks >= 1 && !reacq {
		r.ok("ER-C34d", nn, "single-critical-section", c.Pos(next.Pos()), "nothing touches the cached block after the lock was released: test, fetch and increment are one critical section")
	} else {
		r.viol("ER-C34d", nn, "single-critical-section", c.Pos(next.Pos()), fmt.Sprintf("NextSeq releases the lock and touches the cached block again (Lock×%d, Unlock×%d, deferred×%d): the exhaustion test and the increment are not one atomic step", locks, unlocks, deferred))
	}
	locks, unlocks, deferred = 0, 0, 0
	count(get)
	if locks+unlocks+deferred == 0 {
		r.ok("ER-C34d", gn, "no-lock-juggling", c.Pos(get.Pos()), "the fetch runs inside its caller's critical section")
	} else {
		r.viol("ER-C34d", gn, "no-lock-juggling", c.Pos(get.Pos()), "the fetch takes or releases s.lock itself: the caller's critical section is split")
	}
}

func init() {
	register("C05", "Clause decided (the rejection gate only): a statement that would assign a new value to the sharding column is rejected. MP-C05: in plan.handleUpdateAssignmentList and plan.handleInsertOnDuplicate the comparison of an assigned column with the rule's GetShardingColumn() lies inside the loop over the assignments and its true edge reaches only error returns; the rule consulted is the statement table's own rule, not the one named by RouteResult.db/table (the parent, for linked tables); MP-C05side: those two functions dominate SQL generation in HandleUpdatePlan / HandleInsertStmt with their error edge returning; PC5d: the first of several per-statement results is never returned alone (affected rows of the other sub-tables would be dropped). That exactly the matching rows change is row-level equivalence and is not decided.",
		ruleC05, ruleC05side)
}

func ruleC05side(c *Ctx, r *Report) {
	side := func(fnName, guard, gen string) {
		f := c.Func("proxy/plan", fnName)
		g := c.Func("proxy/plan", guard)
		s := c.Func("proxy/plan", gen)
		if f == nil || g == nil || s == nil {
			r.undecided("MP-C05side", "proxy/plan."+fnName, guard+"->"+gen, "-", "anchor not found")
			return
		}
		for _, gi := range callsIn(f, func(cc *ssa.CallCommon) bool { return callsFunc(cc, s) }) {
			dom := false
			for _, ci := range callsIn(f, func(cc *ssa.CallCommon) bool { return callsFunc(cc, g) }) {
				if dominatedByNilErr(gi, ci.(*ssa.Call)) {
					dom = true
				}
			}
			if dom {
				r.ok("MP-C05side", c.FuncName(f), guard+"->"+gen, c.Pos(gi.Pos()), "SQL generation is dominated by the successful shard-column check")
			} else {
				r.viol("MP-C05side", c.FuncName(f), guard+"->"+gen, c.Pos(gi.Pos()), "SQL can be generated without the 'cannot update shard column' rejection having passed")
			}
		}
	}
	r.floor("MP-C05side", 2)
	side("HandleInsertStmt", "handleInsertOnDuplicate", "generateMultiShardingSQLs")
	side("HandleUpdatePlan", "handleUpdateAssignmentList", "generateShardingSQLs")
}

func ruleC05(c *Ctx, r *Report) {
	const rule = "MP-C05"
	r.floor(rule, 2)
	shardCol := c.IfaceMethod("proxy/router", "Rule", "GetShardingColumn")
	if shardCol == nil {
		r.undecided(rule, "proxy/router.Rule", "anchor", "-", "GetShardingColumn not found")
		return
	}
	for _, fname := range []string{"handleUpdateAssignmentList", "handleInsertOnDuplicate"} {
		fn := c.Func("proxy/plan", fname)
		if fn == nil {
			r.undecided(rule, "proxy/plan."+fname, "anchor", "-", "not found")
			continue
		}
		name := c.FuncName(fn)
		fromShardCol := func(v ssa.Value) bool {
			for _, l := range phiLeaves(v) {
				if call, ok := l.(*ssa.Call); ok && callsIfaceMethod(&call.Call, shardCol) {
					return true
				}
			}
			return false
		}
		n := 0
		allInstrs(fn, func(in ssa.Instruction) {
			b, ok := in.(*ssa.BinOp)
			if !ok || b.Op != token.EQL || !isStringType(b.X.Type()) {
				return
			}
			if !fromShardCol(b.X) && !fromShardCol(b.Y) {
				return
			}
			n++
			cons := fmt.Sprintf("sharding-column-match#%d", n)
			// inside a loop?
			inLoop := false
			for _, blk := range fn.Blocks {
				for _, h := range blk.Succs {
					if h.Dominates(blk) && h.Dominates(b.Block()) && blockReachable(b.Block(), h) {
						inLoop = true
					}
				}
			}
			var bad []Exit
			back := false
			ne := 0
			for _, e := range condEdges(b) {
				if !e.Val {
					continue
				}
				ne++
				first := b.Block().Instrs[0]
				bad = append(bad, searchExits(fn, nil, e.If.Block().Succs[e.Succ], SearchOpts{
					Stop: func(x ssa.Instruction) bool {
						if x == first {
							back = true
							return true
						}
						return false
					},
					ExitOK: func(x ssa.Instruction) bool {
						ret, ok := x.(*ssa.Return)
						if !ok {
							return true
						}
						isNil, known := returnsNilError(ret)
						return known && !isNil
					},
				})...)
			}
			switch {
			case !inLoop:
				r.viol(rule, name, cons, c.Pos(b.Pos()), "the sharding-column comparison is not inside the loop over the assignments: only some assignments are examined")
			case ne == 0:
				r.viol(rule, name, cons, c.Pos(b.Pos()), "the result of the sharding-column comparison is not branched on")
			case len(bad) > 0 || back:
				r.viol(rule, name, cons, c.Pos(b.Pos()), "an assignment to the sharding column can pass without the statement being rejected: the row stays in its table with a key that now routes elsewhere")
			default:
				r.ok(rule, name, cons, c.Pos(b.Pos()), "an assignment whose column is the rule's sharding column reaches only error returns")
			}
			// the rule consulted is the statement table's own rule, not the one named by RouteResult.db/table (for a linked
			// table those name the parent, whose sharding column may differ)
			fRRdb := c.Field(planRel, "RouteResult", "db")
			fRRtable := c.Field(planRel, "RouteResult", "table")
			viaRoute := false
			for _, side := range []ssa.Value{b.X, b.Y} {
				for _, l := range phiLeaves(side) {
					call, ok := l.(*ssa.Call)
					if !ok || !callsIfaceMethod(&call.Call, shardCol) {
						continue
					}
					for _, rl := range phiLeaves(recvOf(&call.Call)) {
						ex, ok := rl.(*ssa.Extract)
						if !ok {
							continue
						}
						gc, ok := ex.Tuple.(*ssa.Call)
						if !ok {
							continue
						}
						for _, a := range gc.Call.Args {
							if f := loadedField(resolveLoad(stripValue(a))); f != nil && (f == fRRdb || f == fRRtable) {
								viaRoute = true
							}
						}
					}
				}
			}
			if viaRoute {
				r.viol(rule, name, cons+":rule-of-the-table", c.Pos(b.Pos()), "the sharding column is taken from the rule named by RouteResult.db/table: for a linked (child) table that is the parent's rule, so assigning the child's own sharding column is accepted")
			} else {
				r.ok(rule, name, cons+":rule-of-the-table", c.Pos(b.Pos()), "the rule consulted is looked up for the statement's own table/column, not through the route result")
			}
		})
		if n == 0 {
			r.viol(rule, name, "sharding-column-match", c.Pos(fn.Pos()), "the function never compares an assigned column with the rule's sharding column")
		}
	}
}

func init() {
	register("C06", "Clause decided (gates only; the agreement of the token pre-check with the SQL grammar over all texts is a language question and is not decided): MP-C06a: in plan.CheckUnshardBase/Insert/Update a table whose rule is not the router's default rule makes the function answer 'not unsharded' on every path (the true edge of GetRule(..) != GetDefaultRule() reaches only returns with false); MP-C06b: in SessionExecutor.preBuildUnshardPlan every return that claims an unshard plan is dominated by the pre-check's positive answer (isUnshardPlan from CheckUnshard*) or by the router having no rules at all, and getPlan returns the fast plan only on that flag.",
		ruleC06)
}

func ruleC06(c *Ctx, r *Report) {
	r.floor("MP-C06a", 3)
	r.floor("MP-C06b", 2)
	getRule := c.Method("proxy/router", "Router", "GetRule")
	getDef := c.Method("proxy/router", "Router", "GetDefaultRule")
	if getRule == nil || getDef == nil {
		r.undecided("MP-C06a", "proxy/router.Router", "anchor", "-", "GetRule/GetDefaultRule not found")
		return
	}
	var checkers []*ssa.Function
	for _, n := range []string{"CheckUnshardBase", "CheckUnshardInsert", "CheckUnshardUpdate"} {
		fn := c.Func("proxy/plan", n)
		if fn == nil {
			r.undecided("MP-C06a", "proxy/plan."+n, "anchor", "-", "not found")
			continue
		}
		checkers = append(checkers, fn)
		name := c.FuncName(fn)
		isCallTo := func(v ssa.Value, f *ssa.Function) bool {
			call, ok := stripValue(v).(*ssa.Call)
			return ok && callsFunc(&call.Call, f)
		}
		k := 0
		isCmp := func(in ssa.Instruction) (*ssa.BinOp, bool) {
			b, ok := in.(*ssa.BinOp)
			if !ok || (b.Op != token.NEQ && b.Op != token.EQL) {
				return nil, false
			}
			if !(isCallTo(b.X, getRule) && isCallTo(b.Y, getDef)) && !(isCallTo(b.Y, getRule) && isCallTo(b.X, getDef)) {
				return nil, false
			}
			return b, true
		}
		allInstrs(fn, func(in ssa.Instruction) {
			type cmp struct {
				ssa.Value
				Op token.Token
			}
			var b cmp
			if bo, ok := isCmp(in); ok {
				b = cmp{bo, bo.Op}
			} else if call, ok := in.(*ssa.Call); ok {
				// the comparison extracted into a package-private bool helper whose answer is that comparison
				h := staticCallee(&call.Call)
				if h == nil || !c.InModule(h) || len(h.Blocks) == 0 || h.Object() == nil || h.Object().Exported() || h.Signature.Results().Len() != 1 || !isBoolType(h.Signature.Results().At(0).Type()) {
					return
				}
				rets := returnsOf(h)
				if len(rets) != 1 {
					return
				}
				hb, ok := stripValue(rets[0].Results[0]).(*ssa.BinOp)
				if !ok {
					return
				}
				if _, ok := isCmp(hb); !ok {
					return
				}
				b = cmp{call, hb.Op}
			} else {
				return
			}
			k++
			cons := fmt.Sprintf("sharded-table-found#%d", k)
			var bad []Exit
			for _, e := range condEdges(b.Value) {
				sharded := e.Val
				if b.Op == token.EQL {
					sharded = !e.Val
				}
				if !sharded {
					continue
				}
				bad = append(bad, searchExits(fn, nil, e.If.Block().Succs[e.Succ], SearchOpts{ExitOK: func(x ssa.Instruction) bool {
					ret, ok := x.(*ssa.Return)
					if !ok || len(ret.Results) < 2 {
						return true
					}
					vals, zero := retValues(ret, 1)
					if zero {
						return len(vals) == 0
					}
					for _, v := range vals {
						if t, isC := constBool(v); !isC || t {
							return false
						}
					}
					return true
				}})...)
			}
			if len(bad) == 0 {
				r.ok("MP-C06a", name, cons, c.Pos(b.Pos()), "a table with a sharding rule makes the pre-check answer 'not unsharded' on every path")
			} else {
				r.viol("MP-C06a", name, cons, c.Pos(b.Pos()), "the pre-check can answer 'unsharded' although it found a table with a sharding rule: the statement is forwarded unrewritten to the default slice", c.pathStrings(bad[0])...)
			}
		})
		if k == 0 {
			r.viol("MP-C06a", name, "sharded-table-found", c.Pos(fn.Pos()), "the pre-check never compares a table's rule with the default rule")
		}
	}
	pre := c.seMethod("preBuildUnshardPlan")
	getPlan := c.seMethod("getPlan")
	if pre == nil || getPlan == nil {
		r.undecided("MP-C06b", "proxy/server", "anchor", "-", "preBuildUnshardPlan/getPlan not found")
		return
	}
	pn := c.FuncName(pre)
	// edges: flag value (phi of Extract#1 of checker calls) true; or len(GetAllRules()) == 0
	var okEdges []CondEdge
	for _, b := range pre.Blocks {
		iff, ok := b.Instrs[len(b.Instrs)-1].(*ssa.If)
		if !ok {
			continue
		}
		cond := iff.Cond
		fromCheckers := true
		leaves := phiLeaves(cond)
		if len(leaves) == 0 {
			fromCheckers = false
		}
		for _, l := range leaves {
			if t, isC := constBool(l); isC && t {
				continue // initial `isUnshardPlan := true` is overwritten on every path that reaches the use (checked below by the switch default returning)
			}
			ex, isEx := l.(*ssa.Extract)
			if !isEx || ex.Index != 1 {
				fromCheckers = false
				continue
			}
			call, isCall := ex.Tuple.(*ssa.Call)
			okc := false
			if isCall {
				for _, ck := range checkers {
					if callsFunc(&call.Call, ck) {
						okc = true
					}
				}
			}
			if !okc {
				fromCheckers = false
			}
		}
		if fromCheckers {
			okEdges = append(okEdges, CondEdge{If: iff, Succ: 0, Val: true})
		}
		if bo, isB := cond.(*ssa.BinOp); isB && bo.Op == token.EQL && isIntConst(bo.Y, 0) {
			if call, isCall := bo.X.(*ssa.Call); isCall {
				if bi, isBi := call.Call.Value.(*ssa.Builtin); isBi && bi.Name() == "len" {
					if inner, isInner := call.Call.Args[0].(*ssa.Call); isInner && inner.Call.StaticCallee() != nil && inner.Call.StaticCallee().Name() == "GetAllRules" {
						okEdges = append(okEdges, CondEdge{If: iff, Succ: 0, Val: true})
					}
				}
			}
		}
	}
	n := 0
	for _, ret := range returnsOf(pre) {
		if len(ret.Results) < 2 {
			continue
		}
		vals, _ := retValues(ret, 1)
		maybe := false
		for _, v := range vals {
			if t, isC := constBool(v); !isC || t {
				maybe = true
			}
		}
		if !maybe {
			continue
		}
		n++
		cons := fmt.Sprintf("claims-unshard#%d", n)
		if edgesDominate(pre, okEdges, ret.Block()) {
			r.ok("MP-C06b", pn, cons, c.Pos(exitPos(ret)), "dominated by the pre-check's positive answer or by the router having no rules")
		} else {
			r.viol("MP-C06b", pn, cons, c.Pos(exitPos(ret)), "the fast unsharded plan can be chosen on a path where the token pre-check did not say 'all tables unsharded'")
		}
	}
	if n == 0 {
		r.undecided("MP-C06b", pn, "claims-unshard", c.Pos(pre.Pos()), "no return claims an unshard plan")
	}
	// getPlan: the early return of the fast plan is dominated by the flag
	gn := c.FuncName(getPlan)
	for _, ci := range callsIn(getPlan, func(cc *ssa.CallCommon) bool { return callsFunc(cc, pre) }) {
		flag := extractOf(ci.(ssa.Value), 1)
		planV := extractOf(ci.(ssa.Value), 0)
		if flag == nil || planV == nil {
			r.viol("MP-C06b", gn, "fast-plan-return", c.Pos(ci.Pos()), "the pre-check's answer is not used")
			continue
		}
		a := aliasSet(planV)
		okAll := true
		cnt := 0
		for _, ret := range returnsOf(getPlan) {
			vals, _ := retValues(ret, 0)
			uses := false
			for _, v := range vals {
				if a.has(v) {
					uses = true
				}
			}
			if !uses {
				continue
			}
			cnt++
			if !dominatedByCond(ret, flag, true) {
				okAll = false
			}
		}
		if okAll && cnt > 0 {
			r.ok("MP-C06b", gn, "fast-plan-return", c.Pos(ci.Pos()), "the fast plan is returned only when preBuildUnshardPlan said so")
		} else {
			r.viol("MP-C06b", gn, "fast-plan-return", c.Pos(ci.Pos()), "getPlan can return the fast unsharded plan without the pre-check's positive answer")
		}
	}
}

func init() { register("C16", "", ruleC16de) }

// ruleC16de: (MP-C16d) the statement handlers keep sub-slices of their packet (parameter types, long data), and the
// session's read buffer is recycled after every command: the packet handed to handleStmtExecute / handleStmtSendLongData
// is a fresh copy made in ExecuteCommand; (MP-C16e) ResetParams replaces the argument slice on every path.
func ruleC16de(c *Ctx, r *Report) {
	r.floor("MP-C16d", 2)
	r.floor("MP-C16e", 1)
	ec := c.seMethod("ExecuteCommand")
	reset := c.Method(serverRel, "Stmt", "ResetParams")
	argsF := c.Field(serverRel, "Stmt", "args")
	if ec == nil || reset == nil || argsF == nil {
		r.undecided("MP-C16d", "proxy/server", "anchor", "-", "anchors not found")
		return
	}
	en := c.FuncName(ec)
	for _, hn := range []string{"handleStmtExecute", "handleStmtSendLongData"} {
		h := c.seMethod(hn)
		if h == nil {
			r.undecided("MP-C16d", en, "packet-copy:"+hn, "-", "handler not found")
			continue
		}
		calls := callsIn(ec, func(cc *ssa.CallCommon) bool { return callsFunc(cc, h) })
		if len(calls) == 0 {
			r.undecided("MP-C16d", en, "packet-copy:"+hn, c.Pos(ec.Pos()), "handler is not called from ExecuteCommand")
		}
		for _, ci := range calls {
			cc := callCommon(ci)
			arg := cc.Args[len(cc.Args)-1]
			fresh := false
			if mk, ok := stripValue(resolveLoad(arg)).(*ssa.MakeSlice); ok {
				// and the packet is copied into it
				allInstrs(ec, func(in ssa.Instruction) {
					if call, ok := in.(*ssa.Call); ok {
						if b, ok := call.Call.Value.(*ssa.Builtin); ok && b.Name() == "copy" && stripValue(call.Call.Args[0]) == ssa.Value(mk) && instrDominates(in, ci) {
							fresh = true
						}
					}
				})
			}
			if fresh {
				r.ok("MP-C16d", en, "packet-copy:"+hn, c.Pos(ci.Pos()), "the handler receives a private copy of the packet")
			} else {
				r.viol("MP-C16d", en, "packet-copy:"+hn, c.Pos(ci.Pos()), "the handler receives the connection's pooled read buffer itself: what the statement remembers from this packet (parameter types, long data) is overwritten by later packets")
			}
		}
	}
	rn := c.FuncName(reset)
	exits := searchExits(reset, nil, reset.Blocks[0], SearchOpts{Stop: func(in ssa.Instruction) bool {
		st, ok := in.(*ssa.Store)
		return ok && fieldOfAddr(st.Addr) == argsF
	}})
	if len(exits) == 0 {
		r.ok("MP-C16e", rn, "always-replaces-args", c.Pos(reset.Pos()), "every path through ResetParams installs a new argument slice")
	} else {
		r.viol("MP-C16e", rn, "always-replaces-args", c.Pos(reset.Pos()), "ResetParams can return without clearing the bound arguments: values (e.g. long data) survive a reset or a failed execution", c.pathStrings(exits[0])...)
	}
}

// ruleC20d (MP-C20d): a backend connection object that was marked closed is never revived with its cached session
// state: every write of DirectConnection.closed stores true, unless the same function also replaces the cached
// sessionVariables (a reconnect gives a brand-new backend session with server defaults; an object that comes back to the
// pool as healthy with the previous session's cached variables/charset makes the next client skip its SET).
func init() { register("C20", "", ruleC20d) }

func ruleC20d(c *Ctx, r *Report) {
	const rule = "MP-C20d"
	r.floor(rule, 1)
	fClosed := c.Field("backend", "DirectConnection", "closed")
	fVars := c.Field("backend", "DirectConnection", "sessionVariables")
	if fClosed == nil || fVars == nil {
		r.undecided(rule, "backend.DirectConnection", "anchor", "-", "fields closed / sessionVariables not found")
		return
	}
	n := 0
	for _, fn := range c.Funcs {
		if c.IsMockFunc(fn) {
			continue
		}
		k := 0
		allInstrs(fn, func(in ssa.Instruction) {
			cc := callCommon(in)
			if cc == nil {
				return
			}
			f := staticCallee(cc)
			if f == nil || f.Signature.Recv() == nil || len(cc.Args) < 2 {
				return
			}
			if f.Name() != "Set" && f.Name() != "CompareAndSwap" && f.Name() != "Store" {
				return
			}
			fa, ok := stripValue(cc.Args[0]).(*ssa.FieldAddr)
			if !ok || fieldOfAddr(fa) != fClosed {
				return
			}
			n++
			k++
			cons := fmt.Sprintf("closed-write@%d", k)
			newVal := cc.Args[len(cc.Args)-1]
			if b, ok := constBool(newVal); ok && b {
				r.ok(rule, c.FuncName(fn), cons, c.Pos(in.Pos()), "marks the connection closed")
				return
			}
			// revival: acceptable only together with a fresh session-variable record
			fresh := false
			allInstrs(fn, func(in2 ssa.Instruction) {
				if st, ok := in2.(*ssa.Store); ok && fieldOfAddr(st.Addr) == fVars {
					fresh = true
				}
			})
			if fresh {
				r.ok(rule, c.FuncName(fn), cons, c.Pos(in.Pos()), "the object is reopened together with a new session-variable record")
			} else {
				r.viol(rule, c.FuncName(fn), cons, c.Pos(in.Pos()), "a closed connection object is marked usable again while it keeps the cached session variables/charset of its previous backend session: after the reconnect the backend has server defaults, the pool believes the previous client's settings are applied, and the next client's SET is skipped")
			}
		})
	}
	if n == 0 {
		r.undecided(rule, "backend.DirectConnection", "closed-writes", "-", "no write of the closed flag found")
	}
}

// ruleC39d (PC5d): the first of several per-statement results is never handed on alone. In proxy/plan every return of
// xs[0] for a []*mysql.Result xs is (i) dominated by len(xs)==1, or (ii) dominated by the plan's single-routed-index
// predicate (a method whose body is len(<route result>.indexes)==1: one routed index -> one statement -> one result),
// or (iii) reached after a loop that folds the other elements into xs[0].
func init() { register("C39", "", ruleC39d); register("C05", "", ruleC39d) }

func ruleC39d(c *Ctx, r *Report) {
	const rule = "PC5d"
	r.floor(rule, 3)
	fIndexes := c.Field(planRel, "RouteResult", "indexes")
	resT := c.NamedType("mysql", "Result")
	if fIndexes == nil || resT == nil {
		r.undecided(rule, planRel, "anchor", "-", "RouteResult.indexes / mysql.Result not found")
		return
	}
	isResultSlice := func(t types.Type) bool {
		s, ok := t.Underlying().(*types.Slice)
		if !ok {
			return false
		}
		p, ok := s.Elem().Underlying().(*types.Pointer)
		return ok && namedOf(p.Elem()) == resT
	}
	// single-index predicates: methods returning len(x.indexes) == 1
	single := map[*ssa.Function]bool{}
	for _, fn := range c.Funcs {
		if fn.Pkg == nil || !strings.HasSuffix(fn.Pkg.Pkg.Path(), planRel) || len(fn.Blocks) != 1 {
			continue
		}
		for _, ret := range returnsOf(fn) {
			if len(ret.Results) != 1 {
				continue
			}
			b, ok := stripValue(ret.Results[0]).(*ssa.BinOp)
			if !ok || b.Op != token.EQL {
				continue
			}
			if k, ok := constInt(b.Y); !ok || k != 1 {
				continue
			}
			if l, ok := stripValue(b.X).(*ssa.Call); ok {
				if bi, ok := l.Call.Value.(*ssa.Builtin); ok && bi.Name() == "len" && loadedField(l.Call.Args[0]) == fIndexes {
					single[fn] = true
				}
			}
		}
	}
	n := 0
	for _, fn := range c.Funcs {
		if fn.Pkg == nil || !strings.HasSuffix(fn.Pkg.Pkg.Path(), planRel) || c.IsMockFunc(fn) {
			continue
		}
		k := 0
		for _, ret := range returnsOf(fn) {
			if len(ret.Results) == 0 {
				continue
			}
			vals, zero := retValues(ret, 0)
			if zero {
				continue
			}
			for _, v := range vals {
				u, ok := stripValue(resolveLoad(stripValue(v))).(*ssa.UnOp)
				if !ok || u.Op != token.MUL {
					continue
				}
				ia, ok := u.X.(*ssa.IndexAddr)
				if !ok || !isResultSlice(ia.X.Type()) {
					continue
				}
				if idx, ok := constInt(ia.Index); !ok || idx != 0 {
					continue
				}
				xs := stripValue(ia.X)
				n++
				k++
				cons := fmt.Sprintf("first-result-return#%d", k)
				name := c.FuncName(fn)
				good, why := false, ""
				// (i) len(xs) == 1
				allInstrs(fn, func(in ssa.Instruction) {
					b, ok := in.(*ssa.BinOp)
					if !ok || b.Op != token.EQL {
						return
					}
					if kk, ok := constInt(b.Y); !ok || kk != 1 {
						return
					}
					if l, ok := stripValue(b.X).(*ssa.Call); ok {
						if bi, ok := l.Call.Value.(*ssa.Builtin); ok && bi.Name() == "len" && sameVal(l.Call.Args[0], xs) && dominatedByCond(ret, b, true) {
							good, why = true, "dominated by len(results)==1"
						}
					}
				})
				// (ii) single-index predicate
				if !good {
					allInstrs(fn, func(in ssa.Instruction) {
						call, ok := in.(*ssa.Call)
						if !ok {
							return
						}
						if f := staticCallee(&call.Call); f != nil && single[f] && dominatedByCond(ret, call, true) {
							good, why = true, "dominated by "+f.Name()+"() (one routed index, hence one statement and one result)"
						}
					})
				}
				// (iii) after a folding loop
				if !good {
					allInstrs(fn, func(in ssa.Instruction) {
						ia2, ok := in.(*ssa.IndexAddr)
						if !ok || !sameVal(ia2.X, xs) {
							return
						}
						if _, isConst := constInt(ia2.Index); isConst {
							return
						}
						if blockReachable(ia2.Block(), ret.Block()) && blockReachable(ia2.Block(), ia2.Block()) {
							good, why = true, "returned after the loop that folds the other results into the first"
						}
					})
				}
				if good {
					r.ok(rule, name, cons, c.Pos(ret.Pos()), "results[0] is "+why)
				} else {
					r.viol(rule, name, cons, c.Pos(ret.Pos()), "results[0] is returned alone where several per-statement results can exist (no len(results)==1 guard, no single-routed-index guard, no merge loop): the rows of the other sub-tables are silently dropped")
				}
			}
		}
	}
	if n == 0 {
		r.undecided(rule, planRel, "first-result-returns", "-", "no return of results[0] found")
	}
}
