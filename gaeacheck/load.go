package main

import (
	"fmt"
	"go/token"
	"go/types"
	"os"
	"sort"
	"strings"

	"golang.org/x/tools/go/callgraph"
	"golang.org/x/tools/go/callgraph/cha"
	"golang.org/x/tools/go/callgraph/vta"
	"golang.org/x/tools/go/packages"
	"golang.org/x/tools/go/ssa"
	"golang.org/x/tools/go/ssa/ssautil"
)

const modPath = "github.com/XiaoMi/Gaea"

// Ctx is the loaded, type-checked, SSA-built program plus lazily built call graph.
type Ctx struct {
	Repo                 string
	Tier                 string
	Fset                 *token.FileSet
	Pkgs                 []*packages.Package // root packages
	AllPkgs              map[string]*packages.Package
	Prog                 *ssa.Program
	SSAPkgs              map[string]*ssa.Package // by import path (module packages only)
	Funcs                []*ssa.Function         // every function (incl. anonymous) whose source file is in the module and is not a _test.go file
	cg                   *callgraph.Graph
	cgEdges              int
	allFuncs             map[*ssa.Function]bool
	Arch386              bool
	onceChecked, onceBad bool
}

var quickPatterns = []string{
	"./proxy/...", "./backend/...", "./mysql/...", "./models/...", "./util/...", "./cc/...", "./parser", "./core/...", "./stats/...", "./log/...",
}

func loadProgram(repo, tier string, overlay map[string][]byte, goarch string) (*Ctx, error) {
	env := append(os.Environ(), "GOFLAGS=-mod=mod", "GOPROXY=off", "GOSUMDB=off", "GOTOOLCHAIN=local", "GOWORK=off")
	if goarch != "" {
		env = append(env, "GOARCH="+goarch, "CGO_ENABLED=0")
	}
	cfg := &packages.Config{
		Mode:    packages.LoadAllSyntax,
		Dir:     repo,
		Env:     env,
		Overlay: overlay,
		Tests:   false,
	}
	pats := quickPatterns
	if tier == "thorough" {
		pats = []string{"./..."}
	}
	pkgs, err := packages.Load(cfg, pats...)
	if err != nil {
		return nil, fmt.Errorf("packages.Load: %v", err)
	}
	if len(pkgs) == 0 {
		return nil, fmt.Errorf("no packages loaded from %s", repo)
	}
	var errs []string
	all := map[string]*packages.Package{}
	packages.Visit(pkgs, nil, func(p *packages.Package) {
		all[p.PkgPath] = p
		if strings.HasPrefix(p.PkgPath, modPath) {
			for _, e := range p.Errors {
				errs = append(errs, e.Error())
			}
		}
	})
	if len(errs) > 0 {
		sort.Strings(errs)
		if len(errs) > 10 {
			errs = errs[:10]
		}
		return nil, fmt.Errorf("module packages do not type-check: %s", strings.Join(errs, "; "))
	}
	prog, _ := ssautil.AllPackages(pkgs, ssa.InstantiateGenerics)
	prog.Build()
	c := &Ctx{Repo: repo, Tier: tier, Fset: prog.Fset, Pkgs: pkgs, AllPkgs: all, Prog: prog, SSAPkgs: map[string]*ssa.Package{}}
	for _, sp := range prog.AllPackages() {
		if sp.Pkg != nil && strings.HasPrefix(sp.Pkg.Path(), modPath) {
			c.SSAPkgs[sp.Pkg.Path()] = sp
		}
	}
	c.allFuncs = ssautil.AllFunctions(prog)
	for fn := range c.allFuncs {
		if c.InModule(fn) {
			c.Funcs = append(c.Funcs, fn)
		}
	}
	sort.Slice(c.Funcs, func(i, j int) bool {
		a, b := c.Funcs[i], c.Funcs[j]
		if a.String() != b.String() {
			return a.String() < b.String()
		}
		return a.Pos() < b.Pos()
	})
	return c, nil
}

// InModule reports whether fn has a body that comes from a non-test source file of the module.
func (c *Ctx) InModule(fn *ssa.Function) bool {
	if fn == nil || fn.Blocks == nil {
		return false
	}
	root := fn
	for root.Parent() != nil {
		root = root.Parent()
	}
	if root.Pkg == nil || root.Pkg.Pkg == nil || !strings.HasPrefix(root.Pkg.Pkg.Path(), modPath) {
		return false
	}
	if fn.Synthetic != "" && fn.Pos() == token.NoPos {
		return false
	}
	p := c.Fset.Position(fn.Pos())
	if p.Filename == "" {
		return false
	}
	return !strings.HasSuffix(p.Filename, "_test.go")
}

// CallGraph builds (once) the VTA call graph seeded with CHA.
func (c *Ctx) CallGraph() *callgraph.Graph {
	if c.cg == nil {
		c.cg = vta.CallGraph(c.allFuncs, cha.CallGraph(c.Prog))
		n := 0
		for _, nd := range c.cg.Nodes {
			n += len(nd.Out)
		}
		c.cgEdges = n
	}
	return c.cg
}

// Pkg returns the SSA package with the module-relative path rel (e.g. "proxy/server").
func (c *Ctx) Pkg(rel string) *ssa.Package {
	return c.SSAPkgs[modPath+"/"+rel]
}

// Func looks up a package-level function "pkgrel.Name" or a method "pkgrel.(*T).Name" / "pkgrel.(T).Name".
func (c *Ctx) Func(rel, name string) *ssa.Function {
	p := c.Pkg(rel)
	if p == nil {
		return nil
	}
	return p.Func(name)
}

// Method looks up method name on named type typ (pointer receiver tried first) in package rel.
func (c *Ctx) Method(rel, typ, name string) *ssa.Function {
	p := c.Pkg(rel)
	if p == nil {
		return nil
	}
	obj := p.Pkg.Scope().Lookup(typ)
	if obj == nil {
		return nil
	}
	tn, ok := obj.(*types.TypeName)
	if !ok {
		return nil
	}
	for _, t := range []types.Type{types.NewPointer(tn.Type()), tn.Type()} {
		ms := c.Prog.MethodSets.MethodSet(t)
		if sel := ms.Lookup(p.Pkg, name); sel != nil {
			if fn := c.Prog.MethodValue(sel); fn != nil && fn.Synthetic == "" {
				return fn
			}
		}
	}
	return nil
}

// NamedType returns the *types.Named for pkgrel.Name.
func (c *Ctx) NamedType(rel, name string) *types.Named {
	p := c.Pkg(rel)
	if p == nil {
		return nil
	}
	obj := p.Pkg.Scope().Lookup(name)
	if obj == nil {
		return nil
	}
	n, _ := obj.Type().(*types.Named)
	return n
}

// Field returns the field object name of struct type pkgrel.typ.
func (c *Ctx) Field(rel, typ, name string) *types.Var {
	n := c.NamedType(rel, typ)
	if n == nil {
		return nil
	}
	st, ok := n.Underlying().(*types.Struct)
	if !ok {
		return nil
	}
	for i := 0; i < st.NumFields(); i++ {
		if st.Field(i).Name() == name {
			return st.Field(i)
		}
	}
	return nil
}

// IfaceMethod returns the *types.Func of interface method pkgrel.iface.name.
func (c *Ctx) IfaceMethod(rel, iface, name string) *types.Func {
	n := c.NamedType(rel, iface)
	if n == nil {
		return nil
	}
	it, ok := n.Underlying().(*types.Interface)
	if !ok {
		return nil
	}
	for i := 0; i < it.NumMethods(); i++ {
		if it.Method(i).Name() == name {
			return it.Method(i)
		}
	}
	return nil
}

func (c *Ctx) Pos(p token.Pos) string {
	if !p.IsValid() {
		return "-"
	}
	pp := c.Fset.Position(p)
	f := strings.TrimPrefix(pp.Filename, c.Repo+"/")
	return fmt.Sprintf("%s:%d", f, pp.Line)
}

// FuncName is a stable, readable name for a function: pkgrel.(*T).m or pkgrel.f or parent$n.
func (c *Ctx) FuncName(fn *ssa.Function) string {
	if fn == nil {
		return "<nil>"
	}
	s := fn.String()
	s = strings.ReplaceAll(s, modPath+"/", "")
	return s
}

func isMockFile(name string) bool {
	b := name
	if i := strings.LastIndex(b, "/"); i >= 0 {
		b = b[i+1:]
	}
	return strings.HasPrefix(b, "mock_") || strings.Contains(b, "_mock")
}

func (c *Ctx) IsMockFunc(fn *ssa.Function) bool {
	return isMockFile(c.Fset.Position(fn.Pos()).Filename)
}
