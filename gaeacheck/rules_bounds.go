package main

import (
	"fmt"
	"go/token"
	"go/types"
	"math/big"
	"sort"
	"strings"

	"golang.org/x/tools/go/ssa"
)

// A small path-sensitive bounds prover over SSA: integer values are normalised to linear forms over atoms, facts are
// the comparisons on dominating branch edges (with their polarity), goals are discharged as non-negative combinations
// of at most three facts. Wrap-around is modelled: a+b is linear only if its mathematical value is provably in range.

func init() {
	register("C12", "Clause decided (decoding half): for the length-encoded decoders of mysql/encoding.go (ReadByte, ReadBytes, ReadBytesCopy, ReadNullString, ReadNullByte, ReadUint16/32/64, ReadLenEncInt, readLenEncString, skipLenEncString, ReadLenEncStringAsBytes) every index expression, slice expression and make([]T,n) is proven in bounds for all inputs from the comparisons that dominate it (BD-C12), with integer wrap-around modelled; each decoder's post-condition 'ok => 0 <= newpos <= len(data)' is proven and reused at its call sites. The round-trip half (encode∘decode = id) is value equality and not covered; encoders and decoders outside encoding.go are out of scope.",
		ruleC12)
	register("C09", "Clause decided: malformed string keys cannot cause an index-out-of-range panic in the calendar shards: every slice expression on the key string (and on time.Format output) in DateYearShard.getNumYear, DateMonthShard.getNumYearMonth and DateDayShard.getNumYearMonthDay is proven in bounds from dominating length tests (BD-C09), and the three sibling parsers all guard their string case. Interval/period arithmetic, equal placement of the accepted spellings and time zones are not covered.",
		ruleC09)
	// no GOARCH=386 pass: package mysql itself does not type-check on 32-bit targets (SQLMode constants overflow int),
	// so 32-bit is not a build target of this repository
	register("C33", "", ruleC33bd)
}

type atomKey struct {
	kind int // 0 value, 1 len(value)
	v    ssa.Value
}

type lin struct {
	k *big.Int
	t map[atomKey]int64
}

func newLin(k int64) lin { return lin{k: big.NewInt(k), t: map[atomKey]int64{}} }
func (a lin) clone() lin {
	n := lin{k: new(big.Int).Set(a.k), t: make(map[atomKey]int64, len(a.t))}
	for x, c := range a.t {
		n.t[x] = c
	}
	return n
}
func (a lin) addScaled(b lin, s int64) lin {
	n := a.clone()
	n.k.Add(n.k, new(big.Int).Mul(b.k, big.NewInt(s)))
	for x, c := range b.t {
		n.t[x] += c * s
		if n.t[x] == 0 {
			delete(n.t, x)
		}
	}
	return n
}
func (a lin) neg() lin              { return newLin(0).addScaled(a, -1) }
func (a lin) plusConst(k int64) lin { n := a.clone(); n.k.Add(n.k, big.NewInt(k)); return n }
func (a lin) isConst() bool         { return len(a.t) == 0 }

type bprover struct {
	c         *Ctx
	fn        *ssa.Function
	max       *big.Int // largest int
	big_      *big.Int // assumed bound for lengths and offsets
	bits      int
	domEdges  map[*ssa.BasicBlock][]CondEdge // edges dominating the block (value of CondEdge.Val unused)
	factMemo  map[*ssa.BasicBlock][]lin
	inFacts   map[*ssa.BasicBlock]bool
	posts     map[*ssa.Function]bool // decoders whose post-condition 0<=newpos<=len(data) is proven
	axioms    func(p *bprover, a atomKey) []lin
	atoms     map[atomKey]bool
	notes     []string
	diseqMemo map[*ssa.BasicBlock][]lin
	extra     map[*ssa.BasicBlock][]lin
	extraDone map[ssa.Value]bool
	noWrap    bool // treat + - * as exact (used where values are bounded by a slice length by construction)
}

func (c *Ctx) newProver(fn *ssa.Function, posts map[*ssa.Function]bool) *bprover {
	p := &bprover{c: c, fn: fn, posts: posts, factMemo: map[*ssa.BasicBlock][]lin{}, inFacts: map[*ssa.BasicBlock]bool{}, atoms: map[atomKey]bool{}, extra: map[*ssa.BasicBlock][]lin{}, extraDone: map[ssa.Value]bool{}}
	p.bits = 64
	if c.Arch386 {
		p.bits = 32
	}
	p.max = new(big.Int).Sub(new(big.Int).Lsh(big.NewInt(1), uint(p.bits-1)), big.NewInt(1))
	p.big_ = new(big.Int).Lsh(big.NewInt(1), uint(p.bits-2))
	p.domEdges = map[*ssa.BasicBlock][]CondEdge{}
	for _, b := range fn.Blocks {
		iff, ok := b.Instrs[len(b.Instrs)-1].(*ssa.If)
		if !ok {
			continue
		}
		for i := range b.Succs {
			if b.Succs[0] == b.Succs[1] {
				continue
			}
			for _, t := range fn.Blocks {
				if edgeDominates(fn, b, i, t) && entryReachable(t) {
					p.domEdges[t] = append(p.domEdges[t], CondEdge{If: iff, Succ: i, Val: i == 0})
				}
			}
		}
	}
	return p
}

func intInfo(t types.Type) (bits int, signed bool, ok bool) {
	b, isB := t.Underlying().(*types.Basic)
	if !isB || b.Info()&types.IsInteger == 0 {
		return 0, false, false
	}
	switch b.Kind() {
	case types.Int8:
		return 8, true, true
	case types.Int16:
		return 16, true, true
	case types.Int32:
		return 32, true, true
	case types.Int64:
		return 64, true, true
	case types.Int:
		return 0, true, true // arch
	case types.Uint8:
		return 8, false, true
	case types.Uint16:
		return 16, false, true
	case types.Uint32:
		return 32, false, true
	case types.Uint64:
		return 64, false, true
	case types.Uint, types.Uintptr:
		return 0, false, true
	case types.UntypedInt:
		return 0, true, true
	}
	return 0, false, false
}

func (p *bprover) width(t types.Type) (int, bool) {
	bits, signed, ok := intInfo(t)
	if !ok {
		return 0, false
	}
	if bits == 0 {
		bits = p.bits
	}
	return bits, signed
}

// lenOf returns the linear form of len(v).
func (p *bprover) lenOf(v ssa.Value, at ssa.Instruction, depth int) lin {
	switch x := v.(type) {
	case *ssa.Const:
		if s, ok := constString(x); ok {
			return newLin(int64(len(s)))
		}
	case *ssa.Slice:
		// len(x[lo:hi]) = hi - lo
		var lo, hi lin
		if x.Low != nil {
			lo = p.lin(x.Low, at, depth+1)
		} else {
			lo = newLin(0)
		}
		if x.High != nil {
			hi = p.lin(x.High, at, depth+1)
		} else {
			hi = p.lenOf(x.X, at, depth+1)
		}
		return hi.addScaled(lo, -1)
	case *ssa.Convert:
		// []byte(string) / string([]byte) keep the length
		if _, isStr := x.X.Type().Underlying().(*types.Basic); isStr || isSliceOfBytes(x.X.Type()) {
			if isSliceOfBytes(x.Type()) || isStringType(x.Type()) {
				return p.lenOf(x.X, at, depth+1)
			}
		}
	case *ssa.ChangeType:
		return p.lenOf(x.X, at, depth+1)
	case *ssa.Alloc:
		if arr, ok := x.Type().(*types.Pointer).Elem().Underlying().(*types.Array); ok {
			return newLin(arr.Len())
		}
	}
	if pt, ok := v.Type().Underlying().(*types.Pointer); ok {
		if arr, ok := pt.Elem().Underlying().(*types.Array); ok {
			return newLin(arr.Len())
		}
	}
	a := atomKey{1, v}
	p.atoms[a] = true
	l := newLin(0)
	l.t[a] = 1
	return l
}

func isSliceOfBytes(t types.Type) bool {
	s, ok := t.Underlying().(*types.Slice)
	if !ok {
		return false
	}
	b, ok := s.Elem().Underlying().(*types.Basic)
	return ok && b.Kind() == types.Uint8
}
func isStringType(t types.Type) bool {
	b, ok := t.Underlying().(*types.Basic)
	return ok && b.Info()&types.IsString != 0
}

func (p *bprover) atom(v ssa.Value) lin {
	a := atomKey{0, v}
	p.atoms[a] = true
	l := newLin(0)
	l.t[a] = 1
	return l
}

// lin returns the linear form of integer value v, valid as a mathematical identity at block `at`.
func (p *bprover) lin(v ssa.Value, at ssa.Instruction, depth int) lin {
	if depth > 12 {
		return p.atom(v)
	}
	switch x := v.(type) {
	case *ssa.Const:
		if x.Value != nil {
			if bi, ok := new(big.Int).SetString(x.Value.ExactString(), 10); ok {
				return lin{k: bi, t: map[atomKey]int64{}}
			}
		}
	case *ssa.BinOp:
		switch x.Op {
		case token.ADD, token.SUB:
			a, b := p.lin(x.X, at, depth+1), p.lin(x.Y, at, depth+1)
			s := int64(1)
			if x.Op == token.SUB {
				s = -1
			}
			r := a.addScaled(b, s)
			if p.inRange(r, x.Type(), at) {
				return r
			}
		case token.MUL, token.SHL:
			if k, ok := constInt(x.Y); ok && k >= 0 && k < 31 {
				m := k
				if x.Op == token.SHL {
					m = int64(1) << uint(k)
				}
				r := newLin(0).addScaled(p.lin(x.X, at, depth+1), m)
				if p.inRange(r, x.Type(), at) {
					return r
				}
			}
		}
	case *ssa.Call:
		if b, ok := x.Call.Value.(*ssa.Builtin); ok && b.Name() == "len" && len(x.Call.Args) == 1 {
			return p.lenOf(x.Call.Args[0], at, depth+1)
		}
	case *ssa.Convert:
		fb, fs := p.width(x.X.Type())
		tb, ts := p.width(x.Type())
		if fb > 0 && tb > 0 {
			// value-preserving conversions: widening with compatible signedness, or a source whose mathematical value is
			// provably inside the target's range
			inner := p.lin(x.X, at, depth+1)
			if (fs == ts && tb >= fb) || (!fs && ts && tb > fb) {
				return inner
			}
			if p.inRange(inner, x.Type(), at) {
				return inner
			}
		}
	case *ssa.ChangeType:
		return p.lin(x.X, at, depth+1)
	}
	return p.atom(v)
}

// inRange: the mathematical value of l is provably inside the range of integer type t (at block `at`).
func (p *bprover) inRange(l lin, t types.Type, at ssa.Instruction) bool {
	if p.noWrap {
		return true
	}
	bits, signed := p.width(t)
	if bits == 0 {
		return false
	}
	var lo, hi *big.Int
	if signed {
		hi = new(big.Int).Sub(new(big.Int).Lsh(big.NewInt(1), uint(bits-1)), big.NewInt(1))
		lo = new(big.Int).Neg(new(big.Int).Lsh(big.NewInt(1), uint(bits-1)))
	} else {
		hi = new(big.Int).Sub(new(big.Int).Lsh(big.NewInt(1), uint(bits)), big.NewInt(1))
		lo = big.NewInt(0)
	}
	// hi - l >= 0  and  l - lo >= 0
	g1 := lin{k: new(big.Int).Set(hi), t: map[atomKey]int64{}}.addScaled(l, -1)
	g2 := l.clone()
	g2.k.Sub(g2.k, lo)
	return p.prove(g1, at) && p.prove(g2, at)
}

// cmpFacts: the linear facts (each >= 0) implied by comparison b having truth value `truth`; disequalities separately.
func (p *bprover) cmpFacts(b *ssa.BinOp, truth bool, at ssa.Instruction) (facts []lin, diseq []lin) {
	if _, _, ok := intInfo(b.X.Type()); !ok {
		return nil, nil
	}
	// facts must be about exact mathematical values: evaluate operands at the If's own block
	x, y := p.lin(b.X, at, 0), p.lin(b.Y, at, 0)
	return cmpFactsLin(x, y, b.Op, truth)
}

// cmpFactsLin: the facts of `x op y` having the given truth, over linear forms.
func cmpFactsLin(x, y lin, op token.Token, truth bool) (facts []lin, diseq []lin) {
	if !truth {
		switch op {
		case token.LSS:
			op = token.GEQ
		case token.LEQ:
			op = token.GTR
		case token.GTR:
			op = token.LEQ
		case token.GEQ:
			op = token.LSS
		case token.EQL:
			op = token.NEQ
		case token.NEQ:
			op = token.EQL
		}
	}
	d := y.addScaled(x, -1) // y - x
	switch op {
	case token.LSS: // x < y : y-x-1 >= 0
		facts = append(facts, d.plusConst(-1))
	case token.LEQ:
		facts = append(facts, d)
	case token.GTR: // x > y : x-y-1 >= 0
		facts = append(facts, d.neg().plusConst(-1))
	case token.GEQ:
		facts = append(facts, d.neg())
	case token.EQL:
		facts = append(facts, d, d.neg())
	case token.NEQ:
		diseq = append(diseq, d)
	}
	return
}

// edgeFacts returns the facts established by the branch edges that dominate block b.
func (p *bprover) edgeFacts(b *ssa.BasicBlock) (facts []lin, diseq []lin) {
	if f, ok := p.factMemo[b]; ok {
		return f, p.diseqMemo[b]
	}
	if p.inFacts[b] {
		return nil, nil
	}
	p.inFacts[b] = true
	defer func() { p.inFacts[b] = false }()
	for _, e := range p.domEdges[b] {
		cond := e.If.Cond
		truth := e.Succ == 0
		for {
			if u, ok := cond.(*ssa.UnOp); ok && u.Op == token.NOT {
				cond, truth = u.X, !truth
				continue
			}
			break
		}
		switch x := cond.(type) {
		case *ssa.BinOp:
			f, d := p.cmpFacts(x, truth, e.If)
			facts = append(facts, f...)
			diseq = append(diseq, d...)
		case *ssa.Call:
			// a package-private bool helper (`hasBytesAt(data,pos,size)`): on its true edge, the comparisons that hold
			// whenever it answers true, instantiated with the call's arguments
			if truth {
				for _, hf := range p.helperTrueFacts(x, e.If) {
					facts = append(facts, hf)
				}
			}
		case *ssa.Extract:
			// ok result of a proven decoder: 0 <= newpos <= len(data)
			if call, isCall := x.Tuple.(*ssa.Call); isCall && truth {
				if f := call.Call.StaticCallee(); f != nil && p.posts[f] && x.Index == f.Signature.Results().Len()-1 && len(call.Call.Args) >= 2 {
					if np := extractOf(call, 1); np != nil {
						nl := p.atom(np)
						facts = append(facts, nl, p.lenOf(call.Call.Args[0], e.If, 0).addScaled(nl, -1))
					}
				}
			}
		}
	}
	p.factMemo[b] = facts
	if p.diseqMemo == nil {
		p.diseqMemo = map[*ssa.BasicBlock][]lin{}
	}
	p.diseqMemo[b] = diseq
	return facts, diseq
}

// definedBefore: the atom's value exists when instruction `at` executes (parameters, constants and values whose
// definition dominates `at`). Facts about values defined later must not be used: they presuppose that `at` succeeded.
func definedBefore(a atomKey, at ssa.Instruction) bool {
	def, ok := a.v.(ssa.Instruction)
	if !ok {
		return true
	}
	if def == at {
		return false
	}
	return instrDominates(def, at)
}

// factsAt returns the facts valid when instruction `at` executes.
func (p *bprover) factsAt(at ssa.Instruction) []lin {
	facts, diseq := p.edgeFacts(at.Block())
	facts = append([]lin{}, facts...)
	facts = append(facts, p.extra[at.Block()]...)
	seen := map[atomKey]bool{}
	for round := 0; round < 3; round++ {
		var add []lin
		var as []atomKey
		for a := range p.atoms {
			as = append(as, a)
		}
		for _, a := range as {
			if seen[a] {
				continue
			}
			seen[a] = true
			if !definedBefore(a, at) {
				continue
			}
			add = append(add, p.atomAxioms(a)...)
		}
		if len(add) == 0 {
			break
		}
		facts = append(facts, add...)
	}
	// drop facts that mention atoms not yet defined at `at`
	var usable []lin
	for _, f := range facts {
		ok := true
		for a := range f.t {
			if !definedBefore(a, at) {
				ok = false
			}
		}
		if ok {
			usable = append(usable, f)
		}
	}
	facts = usable
	for _, d := range diseq {
		if p.proveWith(d, facts) {
			facts = append(facts, d.plusConst(-1))
		} else if p.proveWith(d.neg(), facts) {
			facts = append(facts, d.neg().plusConst(-1))
		}
	}
	return facts
}

// atomAxioms: type ranges and the stated preconditions.
func (p *bprover) atomAxioms(a atomKey) []lin {
	var out []lin
	l := newLin(0)
	l.t[a] = 1
	if a.kind == 1 {
		out = append(out, l) // len >= 0
		up := lin{k: new(big.Int).Set(p.big_), t: map[atomKey]int64{}}.addScaled(l, -1)
		out = append(out, up) // len <= BIG (assumption)
		return out
	}
	if bits, signed := p.width(a.v.Type()); bits > 0 && !signed {
		out = append(out, l)
		if bits < p.bits {
			hi := new(big.Int).Sub(new(big.Int).Lsh(big.NewInt(1), uint(bits)), big.NewInt(1))
			out = append(out, lin{k: hi, t: map[atomKey]int64{}}.addScaled(l, -1))
		}
	}
	if prm, ok := a.v.(*ssa.Parameter); ok && prm.Name() == "pos" {
		out = append(out, l, lin{k: new(big.Int).Set(p.big_), t: map[atomKey]int64{}}.addScaled(l, -1))
	}
	if call, ok := a.v.(*ssa.Call); ok {
		if f := call.Call.StaticCallee(); f != nil && f.Pkg != nil && f.Pkg.Pkg.Path() == "bytes" && f.Name() == "IndexByte" && len(call.Call.Args) == 2 {
			// -1 <= r <= len(s)-1
			out = append(out, l.plusConst(1))
			out = append(out, p.lenOf(call.Call.Args[0], call, 0).addScaled(l, -1).plusConst(-1))
		}
	}
	return out
}

func (p *bprover) prove(goal lin, at ssa.Instruction) bool {
	if goal.isConst() {
		return goal.k.Sign() >= 0
	}
	return p.proveWith(goal, p.factsAt(at))
}

// proveWith: goal >= 0 follows as goal = sum(m_i * f_i) + c, c >= 0, with at most three facts and m_i in {1,2}.
func (p *bprover) proveWith(goal lin, facts []lin) bool {
	if goal.isConst() {
		return goal.k.Sign() >= 0
	}
	// relevant facts: share an atom with the goal or with another relevant fact (two rounds)
	rel := map[int]bool{}
	atoms := map[atomKey]bool{}
	for a := range goal.t {
		atoms[a] = true
	}
	for round := 0; round < 2; round++ {
		for i, f := range facts {
			if rel[i] {
				continue
			}
			for a := range f.t {
				if atoms[a] {
					rel[i] = true
					break
				}
			}
		}
		for i := range rel {
			for a := range facts[i].t {
				atoms[a] = true
			}
		}
	}
	var fs []lin
	for i := range facts {
		if rel[i] {
			fs = append(fs, facts[i])
		}
	}
	if len(fs) > 60 {
		fs = fs[:60]
	}
	ok := func(r lin) bool { return r.isConst() && r.k.Sign() >= 0 }
	mult := []int64{1, 2}
	for i := range fs {
		for _, mi := range mult {
			r1 := goal.addScaled(fs[i], -mi)
			if ok(r1) {
				return true
			}
			for j := i + 1; j < len(fs); j++ {
				for _, mj := range mult {
					r2 := r1.addScaled(fs[j], -mj)
					if ok(r2) {
						return true
					}
					if len(r2.t) > 2 {
						continue
					}
					for k := j + 1; k < len(fs); k++ {
						for _, mk := range mult {
							if ok(r2.addScaled(fs[k], -mk)) {
								return true
							}
						}
					}
				}
			}
		}
	}
	return false
}

func (p *bprover) linString(l lin) string {
	var parts []string
	var keys []atomKey
	for a := range l.t {
		keys = append(keys, a)
	}
	sort.Slice(keys, func(i, j int) bool { return keys[i].v.Name() < keys[j].v.Name() })
	for _, a := range keys {
		n := a.v.Name()
		if a.kind == 1 {
			n = "len(" + n + ")"
		}
		parts = append(parts, fmt.Sprintf("%+d*%s", l.t[a], n))
	}
	parts = append(parts, l.k.String())
	return strings.Join(parts, " ")
}

// obligations of one function
type boundOb struct {
	in    ssa.Instruction
	label string
	goals []lin
	names []string
}

func (p *bprover) obligations() []boundOb {
	var obs []boundOb
	idx := map[string]int{}
	mk := func(in ssa.Instruction, kind string) string {
		idx[kind]++
		return fmt.Sprintf("%s#%d", kind, idx[kind])
	}
	for _, b := range p.fn.Blocks {
		if !entryReachable(b) {
			continue
		}
		for _, in := range b.Instrs {
			switch x := in.(type) {
			case *ssa.IndexAddr:
				i := p.lin(x.Index, in, 0)
				n := p.lenOf(x.X, in, 0)
				// writes into freshly made varargs arrays with constant index are trivially fine
				obs = append(obs, boundOb{in, mk(in, "index"), []lin{i, n.addScaled(i, -1).plusConst(-1)}, []string{"index >= 0", "index < len"}})
			case *ssa.Index:
				i := p.lin(x.Index, in, 0)
				n := p.lenOf(x.X, in, 0)
				obs = append(obs, boundOb{in, mk(in, "index"), []lin{i, n.addScaled(i, -1).plusConst(-1)}, []string{"index >= 0", "index < len"}})
			case *ssa.Lookup:
				if isStringType(x.X.Type()) {
					i := p.lin(x.Index, in, 0)
					n := p.lenOf(x.X, in, 0)
					obs = append(obs, boundOb{in, mk(in, "index"), []lin{i, n.addScaled(i, -1).plusConst(-1)}, []string{"index >= 0", "index < len"}})
				}
			case *ssa.Slice:
				n := p.lenOf(x.X, in, 0)
				lo, hi := newLin(0), n
				if x.Low != nil {
					lo = p.lin(x.Low, in, 0)
				}
				if x.High != nil {
					hi = p.lin(x.High, in, 0)
				}
				obs = append(obs, boundOb{in, mk(in, "slice"), []lin{lo, hi.addScaled(lo, -1), n.addScaled(hi, -1)}, []string{"low >= 0", "low <= high", "high <= len"}})
			case *ssa.MakeSlice:
				obs = append(obs, boundOb{in, mk(in, "make"), []lin{p.lin(x.Len, in, 0)}, []string{"len >= 0"}})
			}
		}
	}
	return obs
}

var c12Decoders = []string{"ReadByte", "ReadBytes", "ReadBytesCopy", "ReadNullString", "ReadNullByte", "ReadUint16", "ReadUint32", "ReadUint64",
	"ReadLenEncInt", "readLenEncString", "skipLenEncString", "ReadLenEncStringAsBytes"}

func ruleC12(c *Ctx, r *Report) {
	rule := "BD-C12"
	post := "BD-C12post"
	sfx := ""
	if c.Arch386 {
		sfx = "@386"
	}
	r.floor(rule, 15)
	r.assume("decoder offsets: 0 <= pos <= 2^62 (2^30 on 32-bit): an offset is a value previously returned by a decoder or bounded by a length, never a wrapped integer")
	r.assume("len(data) <= 2^62 (2^30 on 32-bit); `size` parameters and decoded lengths are unconstrained")
	posts := map[*ssa.Function]bool{}
	var fns []*ssa.Function
	for _, n := range c12Decoders {
		f := c.Func("mysql", n)
		if f == nil {
			r.undecided(rule, "mysql."+n, "anchor"+sfx, "-", "decoder not found")
			continue
		}
		fns = append(fns, f)
	}
	// post-conditions first (callees before callers: two rounds suffice for the call depth of this file)
	for round := 0; round < 2; round++ {
		for _, f := range fns {
			if posts[f] || f.Signature.Results().Len() < 3 {
				continue
			}
			p := c.newProver(f, posts)
			dataP, okAll := ssa.Value(nil), true
			if len(f.Params) >= 1 {
				dataP = f.Params[0]
			}
			nret := 0
			for _, ret := range returnsOf(f) {
				last := ret.Results[len(ret.Results)-1]
				if b, isC := constBool(last); isC && !b {
					continue
				}
				nret++
				// results handed through from a decoder whose post-condition is proven, on the same input: (_, next, …, ok)
				// are that call's newpos and ok, so ok => 0<=next<=len(data) is the callee's post-condition
				if okx, isEx := last.(*ssa.Extract); isEx {
					if call, isCall := okx.Tuple.(*ssa.Call); isCall {
						if k := call.Call.StaticCallee(); k != nil && posts[k] && okx.Index == k.Signature.Results().Len()-1 && len(call.Call.Args) >= 1 && call.Call.Args[0] == dataP {
							if npx, isEx2 := ret.Results[1].(*ssa.Extract); isEx2 && npx.Tuple == okx.Tuple && npx.Index == 1 {
								continue
							}
						}
					}
				}
				np := p.lin(ret.Results[1], ret, 0)
				if !p.prove(np, ret) || !p.prove(p.lenOf(dataP, ret, 0).addScaled(np, -1), ret) {
					okAll = false
				}
			}
			if okAll && nret > 0 {
				posts[f] = true
			}
		}
	}
	for _, f := range fns {
		name := c.FuncName(f)
		if f.Signature.Results().Len() >= 3 {
			if posts[f] {
				r.ok(post, name, "post:ok=>0<=newpos<=len(data)"+sfx, c.Pos(f.Pos()), "proven at every ok return; used as a fact at call sites")
			} else {
				r.viol(post, name, "post:ok=>0<=newpos<=len(data)"+sfx, c.Pos(f.Pos()), "the decoder can report success with a next position outside [0,len(data)]: the next decoder reads outside the input")
			}
		}
		p := c.newProver(f, posts)
		for _, ob := range p.obligations() {
			var failed []string
			for i, g := range ob.goals {
				if !p.prove(g, ob.in) {
					failed = append(failed, ob.names[i]+"  [cannot derive "+p.linString(g)+" >= 0]")
				}
			}
			if len(failed) == 0 {
				r.ok(rule, name, ob.label+sfx, c.Pos(ob.in.Pos()), "in bounds on every path (derived from the dominating comparisons)")
			} else {
				r.viol(rule, name, ob.label+sfx, c.Pos(ob.in.Pos()), "not provably in bounds for all inputs: "+strings.Join(failed, "; ")+" — a hostile packet can make the decoder index outside its input")
			}
		}
	}
}

func ruleC09(c *Ctx, r *Report) {
	const rule = "BD-C09"
	r.floor(rule, 6)
	r.assume("time.Time.Format(\"2006-01-02\") yields at least 10 bytes (years 0..9999)")
	targets := [][2]string{{"DateYearShard", "getNumYear"}, {"DateMonthShard", "getNumYearMonth"}, {"DateDayShard", "getNumYearMonthDay"}}
	guarded := map[string]bool{}
	for _, t := range targets {
		f := c.Method("proxy/router", t[0], t[1])
		if f == nil {
			r.undecided(rule, "proxy/router."+t[0]+"."+t[1], "anchor", "-", "not found")
			continue
		}
		name := c.FuncName(f)
		p := c.newProver(f, nil)
		// axiom: len(Format(layout)) >= len(layout) for the date layout
		extra := func(b *ssa.BasicBlock) {
			allInstrs(f, func(in ssa.Instruction) {
				call, ok := in.(*ssa.Call)
				if !ok {
					return
				}
				k := call.Call.StaticCallee()
				isFormat := func(k *ssa.Function, cc *ssa.CallCommon) bool {
					return k != nil && k.Name() == "Format" && k.Pkg != nil && k.Pkg.Pkg.Path() == "time" && len(cc.Args) == 2
				}
				layout := ssa.Value(nil)
				if isFormat(k, &call.Call) {
					layout = call.Call.Args[1]
				} else if k != nil && c.InModule(k) && len(k.Blocks) > 0 && k.Object() != nil && !k.Object().Exported() && k.Signature.Results().Len() == 1 {
					// a package-private helper that returns time.Format(<its layout parameter>) unchanged
					if rets := returnsOf(k); len(rets) == 1 {
						if fc, ok := stripValue(rets[0].Results[0]).(*ssa.Call); ok && isFormat(fc.Call.StaticCallee(), &fc.Call) {
							for i, q := range k.Params {
								if stripValue(fc.Call.Args[1]) == ssa.Value(q) && i < len(call.Call.Args) {
									layout = call.Call.Args[i]
								}
							}
						}
					}
				}
				if layout == nil {
					return
				}
				if s, ok := constString(layout); ok && s == "2006-01-02" {
					if !p.extraDone[call] {
						p.extraDone[call] = true
						for _, bb := range f.Blocks {
							p.extra[bb] = append(p.extra[bb], p.lenOf(call, call, 0).plusConst(-10))
						}
					}
				}
			})
		}
		for _, ob := range p.obligations() {
			if _, isSlice := ob.in.(*ssa.Slice); !isSlice {
				continue
			}
			sl := ob.in.(*ssa.Slice)
			if !isStringType(sl.X.Type()) {
				continue // varargs slices
			}
			extra(ob.in.Block())
			var failed []string
			for i, g := range ob.goals {
				if !p.prove(g, ob.in) {
					failed = append(failed, ob.names[i])
				}
			}
			// does the sliced string come from the key (type switch / assertion) rather than from Format?
			if _, fromCall := sl.X.(*ssa.Call); !fromCall && len(failed) == 0 {
				guarded[t[1]] = true
			}
			if len(failed) == 0 {
				r.ok(rule, name, ob.label, c.Pos(ob.in.Pos()), "slice of the key string is within its length on every path")
			} else {
				r.viol(rule, name, ob.label, c.Pos(ob.in.Pos()), "slice expression on the key string is not guarded by a length test ("+strings.Join(failed, ", ")+"): a short malformed key panics instead of being rejected with an error")
			}
		}
	}
}

// ruleC33bd: "decrypting malformed data ... fails or yields data without crashing": the index and slice expressions of
// the ECB decrypt path in util/crypto are proven in bounds for every ciphertext (the block loop of cryptBlocks needs
// divisibility reasoning the prover does not have; it is listed as not covered).
func ruleC33bd(c *Ctx, r *Report) {
	const rule = "BD-C33"
	r.floor(rule, 2)
	for _, n := range []string{"DecryptECB", "pkcs5UnPadding"} {
		f := c.Func("util/crypto", n)
		if f == nil {
			r.undecided(rule, "util/crypto."+n, "anchor", "-", "function not found")
			continue
		}
		name := c.FuncName(f)
		p := c.newProver(f, nil)
		obs := p.obligations()
		if len(obs) == 0 {
			r.ok(rule, name, "no-indexing", c.Pos(f.Pos()), "the function contains no index, slice or make expression of its own")
		}
		for _, ob := range obs {
			var failed []string
			for i, g := range ob.goals {
				if !p.prove(g, ob.in) {
					failed = append(failed, ob.names[i]+"  [cannot derive "+p.linString(g)+" >= 0]")
				}
			}
			if len(failed) == 0 {
				r.ok(rule, name, ob.label, c.Pos(ob.in.Pos()), "in bounds for every ciphertext (derived from the dominating comparisons)")
			} else {
				r.viol(rule, name, ob.label, c.Pos(ob.in.Pos()), "not provably in bounds for all ciphertexts: "+strings.Join(failed, "; ")+" — malformed stored data can crash the loader instead of failing the load")
			}
		}
	}
}

// helperTrueFacts: for a call of a package-private bool function of the module, the linear facts (over the caller's
// values) that hold whenever the function answers true. Recognised result shapes: one return whose value is a
// comparison, or the phi of a `&&` chain (constant false on every edge but one); the facts are the comparisons on the
// branch edges dominating the surviving edge plus the surviving comparison itself. Operands are translated with the
// parameters replaced by the call's arguments; an operand that is not exact in the caller's context (a subtraction that
// could wrap) makes that comparison unusable, never wrong.
func (p *bprover) helperTrueFacts(call *ssa.Call, at ssa.Instruction) []lin {
	h := call.Call.StaticCallee()
	if h == nil || !p.c.InModule(h) || len(h.Blocks) == 0 || h.Object() == nil || h.Object().Exported() || h.Signature.Results().Len() != 1 || !isBoolType(h.Signature.Results().At(0).Type()) {
		return nil
	}
	rets := returnsOf(h)
	if len(rets) != 1 || len(h.Params) != len(call.Call.Args) {
		return nil
	}
	type cond struct {
		v     ssa.Value
		truth bool
	}
	var conds []cond
	addDominating := func(b *ssa.BasicBlock) {
		for _, hb := range h.Blocks {
			iff, ok := hb.Instrs[len(hb.Instrs)-1].(*ssa.If)
			if !ok || hb.Succs[0] == hb.Succs[1] {
				continue
			}
			for i := range hb.Succs {
				if edgeDominates(h, hb, i, b) || (hb.Succs[i] == b && len(b.Preds) == 1) {
					conds = append(conds, cond{iff.Cond, i == 0})
				}
			}
		}
	}
	v := rets[0].Results[0]
	switch x := v.(type) {
	case *ssa.Phi:
		surv := -1
		for i, e := range x.Edges {
			if b, isC := constBool(e); isC && !b {
				continue
			}
			if surv >= 0 {
				return nil
			}
			surv = i
		}
		if surv < 0 {
			return nil
		}
		pred := x.Block().Preds[surv]
		addDominating(pred)
		// the edge pred -> phi block itself, when pred ends in an If
		if iff, ok := pred.Instrs[len(pred.Instrs)-1].(*ssa.If); ok && pred.Succs[0] != pred.Succs[1] {
			for i := range pred.Succs {
				if pred.Succs[i] == x.Block() {
					conds = append(conds, cond{iff.Cond, i == 0})
				}
			}
		}
		if b, isC := constBool(x.Edges[surv]); !isC || !b {
			conds = append(conds, cond{x.Edges[surv], true})
		}
	default:
		addDominating(rets[0].Block())
		conds = append(conds, cond{v, true})
	}
	sub := map[ssa.Value]ssa.Value{}
	for i, q := range h.Params {
		sub[q] = call.Call.Args[i]
	}
	var tr func(v ssa.Value, depth int) (lin, bool)
	tr = func(v ssa.Value, depth int) (lin, bool) {
		if depth > 6 {
			return lin{}, false
		}
		switch x := v.(type) {
		case *ssa.Const:
			if x.Value != nil {
				if bi, ok := new(big.Int).SetString(x.Value.ExactString(), 10); ok {
					return lin{k: bi, t: map[atomKey]int64{}}, true
				}
			}
		case *ssa.Parameter:
			if a, ok := sub[x]; ok {
				if _, _, isInt := intInfo(a.Type()); isInt {
					return p.lin(a, at, 0), true
				}
			}
		case *ssa.Call:
			if b, ok := x.Call.Value.(*ssa.Builtin); ok && b.Name() == "len" && len(x.Call.Args) == 1 {
				if a, ok := sub[x.Call.Args[0]]; ok {
					return p.lenOf(a, at, 0), true
				}
			}
		case *ssa.BinOp:
			if x.Op == token.ADD || x.Op == token.SUB {
				a, ok1 := tr(x.X, depth+1)
				b, ok2 := tr(x.Y, depth+1)
				if ok1 && ok2 {
					s := int64(1)
					if x.Op == token.SUB {
						s = -1
					}
					r := a.addScaled(b, s)
					if p.inRange(r, x.Type(), at) {
						return r, true
					}
				}
			}
		}
		return lin{}, false
	}
	var out []lin
	for _, cd := range conds {
		cv, truth := cd.v, cd.truth
		for {
			if u, ok := cv.(*ssa.UnOp); ok && u.Op == token.NOT {
				cv, truth = u.X, !truth
				continue
			}
			break
		}
		b, ok := cv.(*ssa.BinOp)
		if !ok {
			continue
		}
		if _, _, isInt := intInfo(b.X.Type()); !isInt {
			continue
		}
		x, ok1 := tr(b.X, 0)
		y, ok2 := tr(b.Y, 0)
		if !ok1 || !ok2 {
			continue
		}
		f, _ := cmpFactsLin(x, y, b.Op, truth)
		out = append(out, f...)
	}
	return out
}
