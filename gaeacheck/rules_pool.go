package main

import (
	"fmt"
	"go/token"
	"go/types"
	"sort"
	"strings"

	"golang.org/x/tools/go/ssa"
)

func init() {
	register("C24", "Clauses decided: (PL-C24) quiescent accounting — for every method of util.ResourcePool that touches the token channel or the capacity/available/inUse counters, every acyclic CFG path (loops per iteration, callees by result-correlated summaries, comma-ok receives resolved at the branch on ok) conserves A-T and T+U-C, a successful get hands out exactly one slot (dU=+1), a failed get none and Put takes exactly one back (dU=-1); because the invariants are linear and every counter/channel step is atomic, conservation per completed operation gives 'idle + in-use = capacity' at every quiescent point for every interleaving of completed operations. (PC3) the release protocol never creates two holders: Put/Recycle is the last use of the connection in pooledConnectImpl.Recycle, connectionPoolImpl.Put/Get and ResourcePool.Put. (WM-C24) only the release protocol returns slots: ResourcePool.Put is called only by connectionPoolImpl.Put, which is called only by pooledConnectImpl.Recycle. (MP-C24c) the pool is detached from connectionPoolImpl only after it was drained. Who wins a race between operations in progress (CAS vs AddCapacityResource, Close vs get) and whether Put can meet a full channel are not covered.",
		ruleC24conserve, ruleC24pc3, ruleC24who, ruleC24close)
}

// ---------------------------------------------------------------------------------------
// effect vectors

type eff struct {
	T, C, A, U int
	cas        int // number of applied capacity.CompareAndSwap (symbolic dC each)
}

func (e eff) sub(o eff) eff { return eff{e.T - o.T, e.C - o.C, e.A - o.A, e.U - o.U, e.cas - o.cas} }
func (e eff) add(o eff) eff { return eff{e.T + o.T, e.C + o.C, e.A + o.A, e.U + o.U, e.cas + o.cas} }
func (e eff) String() string {
	s := fmt.Sprintf("dT=%+d dC=%+d dA=%+d dU=%+d", e.T, e.C, e.A, e.U)
	if e.cas != 0 {
		s += fmt.Sprintf(" +%d×CAS(new-old)", e.cas)
	}
	return s
}

type outcome struct {
	e      eff
	kind   string        // "return" | "panic"
	rets   map[int]*bool // constant boolean results
	errNil *bool         // last result of type error: known nil / non-nil
	ret    *ssa.Return
	path   []*ssa.BasicBlock
	iters  []iterRec // loop iterations met on this path (effects of one iteration)
}

type iterRec struct {
	header *ssa.BasicBlock
	e      eff
}

type poolFacts struct {
	c                          *Ctx
	rpT                        *types.Named
	resF, capF, availF, inUseF *types.Var
	memo                       map[*ssa.Function][]outcome
	inProgress                 map[*ssa.Function]bool
	undecided                  []string
	utilPkg                    *ssa.Package
}

func (c *Ctx) poolFacts() *poolFacts {
	pf := &poolFacts{c: c, memo: map[*ssa.Function][]outcome{}, inProgress: map[*ssa.Function]bool{}}
	pf.rpT = c.NamedType("util", "ResourcePool")
	pf.resF = c.Field("util", "ResourcePool", "resources")
	pf.capF = c.Field("util", "ResourcePool", "capacity")
	pf.availF = c.Field("util", "ResourcePool", "available")
	pf.inUseF = c.Field("util", "ResourcePool", "inUse")
	pf.utilPkg = c.Pkg("util")
	if pf.rpT == nil || pf.resF == nil || pf.capF == nil || pf.availF == nil || pf.inUseF == nil || pf.utilPkg == nil {
		return nil
	}
	return pf
}

// counterOf: the receiver argument of an atomic method call is the address of one of the counters.
func (pf *poolFacts) counterOf(v ssa.Value) string {
	switch fieldOfAddr(v) {
	case pf.capF:
		return "C"
	case pf.availF:
		return "A"
	case pf.inUseF:
		return "U"
	}
	return ""
}

func (pf *poolFacts) isResChan(v ssa.Value) bool { return loadedField(v) == pf.resF }

// path state
type pstate struct {
	b      *ssa.BasicBlock
	prev   *ssa.BasicBlock
	facts  map[ssa.Value]bool
	phi    map[ssa.Value]ssa.Value // phi -> incoming value on this path
	e      eff
	path   []*ssa.BasicBlock
	entryE map[*ssa.BasicBlock]eff // effects at (last) entry of each block on the path
	taken  map[ssa.Value]bool      // receive instruction (Select / UnOp) whose token was taken on this path and not cancelled
	nilF   map[ssa.Value]bool      // error-typed call results known nil (true) / non-nil (false) from callee outcomes
	iters  []iterRec
}

func (s *pstate) clone() *pstate {
	n := &pstate{b: s.b, prev: s.prev, e: s.e}
	n.facts = make(map[ssa.Value]bool, len(s.facts))
	for k, v := range s.facts {
		n.facts[k] = v
	}
	n.phi = make(map[ssa.Value]ssa.Value, len(s.phi))
	for k, v := range s.phi {
		n.phi[k] = v
	}
	n.entryE = make(map[*ssa.BasicBlock]eff, len(s.entryE))
	for k, v := range s.entryE {
		n.entryE[k] = v
	}
	n.taken = make(map[ssa.Value]bool, len(s.taken))
	for k, v := range s.taken {
		n.taken[k] = v
	}
	n.nilF = make(map[ssa.Value]bool, len(s.nilF))
	for k, v := range s.nilF {
		n.nilF[k] = v
	}
	n.path = append([]*ssa.BasicBlock{}, s.path...)
	n.iters = append([]iterRec{}, s.iters...)
	return n
}

func (s *pstate) resolve(v ssa.Value) ssa.Value {
	for i := 0; i < 8; i++ {
		if w, ok := s.phi[v]; ok {
			v = w
			continue
		}
		break
	}
	return v
}

// truth evaluates a boolean SSA value under the path's facts.
func (s *pstate) truth(v ssa.Value, depth int) (bool, bool) {
	if depth > 6 {
		return false, false
	}
	v = s.resolve(v)
	if b, ok := constBool(v); ok {
		return b, true
	}
	if t, ok := s.facts[v]; ok {
		return t, true
	}
	switch x := v.(type) {
	case *ssa.UnOp:
		if x.Op == token.NOT {
			if t, ok := s.truth(x.X, depth+1); ok {
				return !t, true
			}
		}
	case *ssa.BinOp:
		if x.Op == token.EQL || x.Op == token.NEQ {
			if b, ok := constBool(x.Y); ok {
				if t, ok2 := s.truth(x.X, depth+1); ok2 {
					return (t == b) == (x.Op == token.EQL), true
				}
			}
		}
	}
	return false, false
}

// setTruth records that boolean value v is t (propagating through negation and comparisons with constants).
func (s *pstate) setTruth(v ssa.Value, t bool, depth int) {
	if depth > 6 {
		return
	}
	v = s.resolve(v)
	s.facts[v] = t
	switch x := v.(type) {
	case *ssa.UnOp:
		if x.Op == token.NOT {
			s.setTruth(x.X, !t, depth+1)
		}
	case *ssa.BinOp:
		if x.Op == token.EQL || x.Op == token.NEQ {
			if b, ok := constBool(x.Y); ok {
				s.setTruth(x.X, (x.Op == token.EQL) == (t == b), depth+1)
			}
		}
	}
}

const maxPoolPaths = 20000

// summarize enumerates the acyclic paths of fn and returns one outcome per path.
func (pf *poolFacts) summarize(fn *ssa.Function, depth int) []outcome {
	if out, ok := pf.memo[fn]; ok {
		return out
	}
	if pf.inProgress[fn] || depth > 4 {
		pf.undecided = append(pf.undecided, "recursion or call depth limit at "+pf.c.FuncName(fn))
		return nil
	}
	pf.inProgress[fn] = true
	defer func() { pf.inProgress[fn] = false }()
	var outs []outcome
	start := &pstate{b: fn.Blocks[0], facts: map[ssa.Value]bool{}, phi: map[ssa.Value]ssa.Value{}, entryE: map[*ssa.BasicBlock]eff{}, taken: map[ssa.Value]bool{}, nilF: map[ssa.Value]bool{}}
	stack := []*pstate{start}
	for len(stack) > 0 {
		if len(outs) > maxPoolPaths {
			pf.undecided = append(pf.undecided, "path limit in "+pf.c.FuncName(fn))
			break
		}
		s := stack[len(stack)-1]
		stack = stack[:len(stack)-1]
		// loop: block already on the path => one iteration completed
		onPath := false
		for _, pb := range s.path {
			if pb == s.b {
				onPath = true
			}
		}
		if onPath {
			it := iterRec{header: s.b, e: s.e.sub(s.entryE[s.b])}
			outs = append(outs, outcome{e: s.e, kind: "iteration", path: append(s.path, s.b), iters: append(s.iters, it)})
			continue
		}
		s.path = append(s.path, s.b)
		s.entryE[s.b] = s.e
		// phis
		for _, in := range s.b.Instrs {
			ph, ok := in.(*ssa.Phi)
			if !ok {
				break
			}
			for i, p := range s.b.Preds {
				if p == s.prev {
					s.phi[ph] = s.resolve(ph.Edges[i])
				}
			}
		}
		states := []*pstate{s}
		var done bool
		for _, in := range s.b.Instrs {
			var next []*pstate
			for _, st := range states {
				next = append(next, pf.step(fn, st, in, depth, &outs)...)
			}
			states = next
			if len(states) == 0 {
				done = true
				break
			}
		}
		if done {
			continue
		}
		// terminator
		for _, st := range states {
			last := st.b.Instrs[len(st.b.Instrs)-1]
			switch x := last.(type) {
			case *ssa.If:
				t, known := st.truth(x.Cond, 0)
				for i, succ := range st.b.Succs {
					want := i == 0
					if known && t != want {
						continue
					}
					n := st.clone()
					n.setTruth(x.Cond, want, 0)
					pf.applyEdge(n, x, want)
					n.prev, n.b = st.b, succ
					stack = append(stack, n)
				}
			case *ssa.Jump:
				n := st.clone()
				n.prev, n.b = st.b, st.b.Succs[0]
				stack = append(stack, n)
			}
		}
	}
	pf.memo[fn] = outs
	return outs
}

// applyEdge: effects that materialise on a branch edge: the chosen case of a select, and the cancellation of a
// comma-ok receive when ok turns out false (closed channel: no token was taken).
func (pf *poolFacts) applyEdge(s *pstate, iff *ssa.If, taken bool) {
	cond := s.resolve(iff.Cond)
	// select index test:  extract(select,0) == k
	if bo, ok := cond.(*ssa.BinOp); ok && bo.Op == token.EQL && taken {
		if ex, ok := bo.X.(*ssa.Extract); ok && ex.Index == 0 {
			if sel, ok := ex.Tuple.(*ssa.Select); ok {
				if k, ok := constInt(bo.Y); ok && int(k) < len(sel.States) {
					st := sel.States[k]
					if pf.isResChan(st.Chan) {
						if st.Dir == types.RecvOnly {
							s.e.T--
							s.taken[sel] = true
						} else {
							s.e.T++
						}
					}
				}
			}
		}
	}
	// ok == false for a receive whose token was counted
	for v, t := range s.facts {
		if t {
			continue
		}
		ex, ok := v.(*ssa.Extract)
		if !ok || ex.Index != 1 {
			continue
		}
		switch r := ex.Tuple.(type) {
		case *ssa.Select:
			if s.taken[r] {
				s.e.T++
				s.taken[r] = false
			}
		case *ssa.UnOp:
			if r.Op == token.ARROW && s.taken[r] {
				s.e.T++
				s.taken[r] = false
			}
		}
	}
}

// step executes one non-terminator instruction; may fork (callee outcomes) or end the path (return/panic).
func (pf *poolFacts) step(fn *ssa.Function, s *pstate, in ssa.Instruction, depth int, outs *[]outcome) []*pstate {
	switch x := in.(type) {
	case *ssa.Send:
		if pf.isResChan(x.Chan) {
			s.e.T++
		}
	case *ssa.UnOp:
		if x.Op == token.ARROW && pf.isResChan(x.X) {
			s.e.T--
			s.taken[x] = true
		}
	case *ssa.Return:
		o := outcome{e: s.e, kind: "return", ret: x, rets: map[int]*bool{}, path: s.path, iters: s.iters}
		for i := range x.Results {
			vals, zero := retValues(x, i)
			if len(vals) == 1 && !zero {
				if _, isBool := vals[0].Type().Underlying().(*types.Basic); isBool {
					if t, ok := s.truth(vals[0], 0); ok {
						tt := t
						o.rets[i] = &tt
					}
				}
			}
		}
		if idx := errResultIndex(fn.Signature); idx >= 0 {
			if n, k := returnsNilError(x); k {
				nn := n
				o.errNil = &nn
			} else if vals, zero := retValues(x, idx); len(vals) == 1 && !zero {
				if n, ok := s.nilF[s.resolve(stripValue(vals[0]))]; ok {
					nn := n
					o.errNil = &nn
				}
			}
		}
		// a returned boolean that is the comma-ok of a receive whose token was counted on this path: the caller will
		// branch on it; hand the two cases up separately (ok=false means the channel was closed: no token was taken)
		split := false
		for i := range x.Results {
			if _, known := o.rets[i]; known {
				continue
			}
			vals, zero := retValues(x, i)
			if len(vals) != 1 || zero {
				continue
			}
			ex, ok := s.resolve(stripValue(vals[0])).(*ssa.Extract)
			if !ok || ex.Index != 1 {
				continue
			}
			var recv ssa.Value
			switch rv := ex.Tuple.(type) {
			case *ssa.Select:
				recv = rv
			case *ssa.UnOp:
				if rv.Op == token.ARROW {
					recv = rv
				}
			}
			if recv == nil || !s.taken[recv] {
				continue
			}
			tt, ff := true, false
			oT, oF := o, o
			oT.rets = map[int]*bool{}
			oF.rets = map[int]*bool{}
			for k, v := range o.rets {
				oT.rets[k] = v
				oF.rets[k] = v
			}
			oT.rets[i] = &tt
			oF.rets[i] = &ff
			oF.e.T++
			*outs = append(*outs, oT, oF)
			split = true
			break
		}
		if !split {
			*outs = append(*outs, o)
		}
		return nil
	case *ssa.Panic:
		*outs = append(*outs, outcome{e: s.e, kind: "panic", path: s.path, iters: s.iters})
		return nil
	case *ssa.Call:
		return pf.stepCall(fn, s, x, depth)
	case *ssa.Defer:
		// deferred calls of the pool itself would need ordering; only Unlock/cancel style defers occur
		if f := x.Call.StaticCallee(); f != nil && pf.touches(f) {
			pf.undecided = append(pf.undecided, "deferred call of a counter-touching function in "+pf.c.FuncName(fn))
		}
	}
	return []*pstate{s}
}

// touches: function (transitively, depth-limited) contains channel/counter operations of the pool.
func (pf *poolFacts) touches(f *ssa.Function) bool {
	if f == nil || f.Blocks == nil {
		return false
	}
	root := f
	for root.Parent() != nil {
		root = root.Parent()
	}
	if root.Pkg != pf.utilPkg {
		return false
	}
	found := false
	seen := map[*ssa.Function]bool{}
	var walk func(g *ssa.Function, d int)
	walk = func(g *ssa.Function, d int) {
		if g == nil || g.Blocks == nil || seen[g] || d > 4 || found {
			return
		}
		seen[g] = true
		allInstrs(g, func(in ssa.Instruction) {
			switch x := in.(type) {
			case *ssa.Send:
				if pf.isResChan(x.Chan) {
					found = true
				}
			case *ssa.UnOp:
				if x.Op == token.ARROW && pf.isResChan(x.X) {
					found = true
				}
			case *ssa.Select:
				for _, st := range x.States {
					if pf.isResChan(st.Chan) {
						found = true
					}
				}
			case *ssa.Call:
				if len(x.Call.Args) > 0 && pf.counterOf(x.Call.Args[0]) != "" {
					found = true
				}
				if k := x.Call.StaticCallee(); k != nil && k.Pkg == pf.utilPkg {
					walk(k, d+1)
				}
			}
		})
	}
	walk(f, 0)
	return found
}

func (pf *poolFacts) stepCall(fn *ssa.Function, s *pstate, call *ssa.Call, depth int) []*pstate {
	f := call.Call.StaticCallee()
	if f == nil {
		return []*pstate{s}
	}
	// atomic counter operations
	if len(call.Call.Args) > 0 {
		if ctr := pf.counterOf(call.Call.Args[0]); ctr != "" {
			switch f.Name() {
			case "Add":
				k, ok := constInt(call.Call.Args[1])
				if !ok {
					pf.undecided = append(pf.undecided, "non-constant Add on counter "+ctr+" in "+pf.c.FuncName(fn))
					return []*pstate{s}
				}
				switch ctr {
				case "C":
					s.e.C += int(k)
				case "A":
					s.e.A += int(k)
				case "U":
					s.e.U += int(k)
				}
				return []*pstate{s}
			case "Get":
				return []*pstate{s}
			case "CompareAndSwap":
				if ctr != "C" {
					pf.undecided = append(pf.undecided, "CompareAndSwap on counter "+ctr+" in "+pf.c.FuncName(fn))
					return []*pstate{s}
				}
				a := s.clone()
				a.facts[call] = true
				a.e.cas++
				b := s.clone()
				b.facts[call] = false
				return []*pstate{a, b}
			default:
				pf.undecided = append(pf.undecided, "counter "+ctr+" modified by "+f.Name()+" in "+pf.c.FuncName(fn))
				return []*pstate{s}
			}
		}
	}
	if !pf.touches(f) {
		return []*pstate{s}
	}
	outs := pf.summarize(f, depth+1)
	var res []*pstate
	for _, o := range outs {
		if o.kind != "return" {
			continue // panics end the operation; iterations are checked where they occur
		}
		n := s.clone()
		n.e = n.e.add(o.e)
		n.iters = append(n.iters, o.iters...)
		for idx, b := range o.rets {
			if ex := resultOf(call, idx); ex != nil && b != nil {
				n.facts[ex] = *b
			}
		}
		if o.errNil != nil {
			if ev := errResultOf(call); ev != nil {
				n.nilF[ev] = *o.errNil
			}
		}
		res = append(res, n)
	}
	if len(res) == 0 {
		pf.undecided = append(pf.undecided, "callee "+pf.c.FuncName(f)+" has no returning path")
	}
	return res
}

// ---------------------------------------------------------------------------------------

func ruleC24conserve(c *Ctx, r *Report) {
	const rule = "PL-C24"
	r.floor(rule, 10)
	pf := c.poolFacts()
	if pf == nil {
		r.undecided(rule, "util.ResourcePool", "anchor", "-", "ResourcePool or its fields resources/capacity/available/inUse not found")
		return
	}
	ctor := c.Func("util", "NewResourcePool")
	scale := c.Method("util", "ResourcePool", "ScaleCapacity")
	get := c.Method("util", "ResourcePool", "get")
	put := c.Method("util", "ResourcePool", "Put")
	// operations: every function of package util (methods of ResourcePool and their closures) that touches the state
	var ops []*ssa.Function
	for _, fn := range c.Funcs {
		root := fn
		for root.Parent() != nil {
			root = root.Parent()
		}
		if root.Pkg != pf.utilPkg || fn == ctor {
			continue
		}
		if pf.touches(fn) {
			ops = append(ops, fn)
		}
	}
	// helpers: touching functions that are called from another touching function of the package complete their effect in
	// the caller; they are not operations of their own (their callers are frozen by a who-may-call obligation)
	helper := map[*ssa.Function][]*ssa.Function{}
	for _, fn := range ops {
		allInstrs(fn, func(in ssa.Instruction) {
			if _, isGo := in.(*ssa.Go); isGo {
				return
			}
			if cc := callCommon(in); cc != nil {
				if k := cc.StaticCallee(); k != nil && k != fn && pf.touches(k) {
					helper[k] = append(helper[k], fn)
				}
			}
		})
	}
	partial := map[string]bool{"AddCapacityResource": true, "scaleOutResources": true}
	var kept []*ssa.Function
	for _, fn := range ops {
		// an unexported function that is only called from other pool functions completes its effect in its callers too
		unexportedHelper := false
		if _, ok := helper[fn]; ok && fn.Object() != nil && !fn.Object().Exported() && fn.Parent() == nil {
			unexportedHelper = true
			for _, s := range c.callSites(func(cc *ssa.CallCommon) bool { return callsFunc(cc, fn) }) {
				if c.IsMockFunc(s.Fn) {
					continue
				}
				if !pf.touches(s.Fn) {
					unexportedHelper = false
				}
			}
			// the historical operations of the pool stay operations
			switch fn.Name() {
			case "get", "scaleInResources", "closeIdleResources":
				unexportedHelper = false
			}
		}
		if callers, ok := helper[fn]; ok && (partial[fn.Name()] || unexportedHelper) {
			// callers outside the package?
			ext := false
			for _, s := range c.callSites(func(cc *ssa.CallCommon) bool { return callsFunc(cc, fn) }) {
				root := s.Fn
				for root.Parent() != nil {
					root = root.Parent()
				}
				if root.Pkg != pf.utilPkg {
					ext = true
					r.viol(rule, c.FuncName(s.Fn), "calls:"+fn.Name(), c.Pos(s.In.Pos()), "a partial pool operation (capacity added without a token) is called from outside the pool")
				}
			}
			if !ext {
				r.ok(rule, c.FuncName(fn), "helper-of:"+callers[0].Name(), c.Pos(fn.Pos()), "partial operation completed in its only callers inside the pool (its effect is summarised there)")
			}
			continue
		}
		kept = append(kept, fn)
	}
	ops = kept
	sort.Slice(ops, func(i, j int) bool { return ops[i].String() < ops[j].String() })
	if len(ops) < 5 {
		r.undecided(rule, "util.ResourcePool", "operations", "-", fmt.Sprintf("only %d functions touch the pool state", len(ops)))
	}
	npaths := 0
	for _, fn := range ops {
		name := c.FuncName(fn)
		outs := pf.summarize(fn, 0)
		type agg struct {
			n   int
			bad *outcome
			why string
		}
		groups := map[string]*agg{}
		note := func(key string, o *outcome, why string) {
			g := groups[key]
			if g == nil {
				g = &agg{}
				groups[key] = g
			}
			g.n++
			if why != "" && g.bad == nil {
				oo := *o
				g.bad, g.why = &oo, why
			}
		}
		for i := range outs {
			o := &outs[i]
			npaths++
			switch o.kind {
			case "panic":
				note("exit:panic", o, "")
			case "iteration":
				it := o.iters[len(o.iters)-1]
				why := ""
				if it.e.A-it.e.T != 0 {
					why = "one loop iteration changes A-T (" + it.e.String() + ")"
				}
				if fn != scale && it.e.cas == 0 && it.e.T+it.e.U-it.e.C != 0 {
					why = "one loop iteration changes T+U-C (" + it.e.String() + ")"
				}
				if fn == scale && !(it.e.U == 0 && it.e.C == 0 && (it.e.T == it.e.A) && (it.e.T == 1 || it.e.T == -1 || it.e.T == 0)) {
					why = "a ScaleCapacity loop iteration is not dT=dA=±1 (" + it.e.String() + ")"
				}
				note(fmt.Sprintf("loop@block%s:iteration", loopLabel(fn, it.header)), o, why)
			case "return":
				why := ""
				if o.e.A-o.e.T != 0 {
					why = "a completed operation changes A-T: 'available' no longer equals the idle slots (" + o.e.String() + ")"
				} else if o.e.cas == 0 && o.e.T+o.e.U-o.e.C != 0 {
					why = "a completed operation changes T+U-C: idle + in-use no longer equals capacity (" + o.e.String() + ")"
				}
				key := "exit:return"
				if fn == get || fn == c.Method("util", "ResourcePool", "Get") {
					switch {
					case o.errNil != nil && *o.errNil:
						key = "exit:return-success"
						if why == "" && o.e.U != 1 {
							why = "a successful get does not account exactly one slot as in use (" + o.e.String() + ")"
						}
					case o.errNil != nil && !*o.errNil:
						key = "exit:return-error"
						if why == "" && o.e.U != 0 {
							why = "a failed get changes the in-use count (" + o.e.String() + ")"
						}
					default:
						key = "exit:return-unknown"
						if why == "" {
							why = "cannot tell whether this return of get is a success or a failure"
						}
					}
				}
				if fn == put && why == "" && o.e.U != -1 {
					why = "Put does not take exactly one slot back (" + o.e.String() + ")"
				}
				note(key, o, why)
			}
		}
		var keys []string
		for k := range groups {
			keys = append(keys, k)
		}
		sort.Strings(keys)
		for _, k := range keys {
			g := groups[k]
			if k == "exit:panic" {
				r.info(rule, name, k, c.Pos(fn.Pos()), fmt.Sprintf("%d path(s) end in an explicit panic (not counted as completed operations)", g.n))
				continue
			}
			if g.bad == nil {
				r.ok(rule, name, k, c.Pos(fn.Pos()), fmt.Sprintf("%d path(s): A-T and T+U-C conserved", g.n))
			} else {
				var p []string
				for _, b := range g.bad.path {
					p = append(p, fmt.Sprintf("block %d (%s)", b.Index, b.Comment))
				}
				r.viol(rule, name, k, c.Pos(fn.Pos()), g.why, p...)
			}
		}
	}
	for _, u := range uniq(pf.undecided) {
		r.undecided(rule, "util.ResourcePool", "engine:"+u, "-", u)
	}
	r.note("PL-C24 enumerated %d acyclic paths over %d operations", npaths, len(ops))
	// ScaleCapacity: the trip counts of its loops are the difference the CAS installed
	if scale == nil {
		r.undecided(rule, "(*util.ResourcePool).ScaleCapacity", "trip-count", "-", "not found")
	} else {
		pf.checkScaleTripCount(r, rule, scale)
	}
	// constructor establishes the invariant: tokens sent = capacity, available = capacity
	if ctor == nil {
		r.undecided(rule, "util.NewResourcePool", "establishes-invariant", "-", "not found")
	} else {
		pf.checkCtor(r, rule, ctor)
	}
}

func uniq(a []string) []string {
	m := map[string]bool{}
	var out []string
	for _, s := range a {
		if !m[s] {
			m[s] = true
			out = append(out, s)
		}
	}
	sort.Strings(out)
	return out
}

func loopLabel(fn *ssa.Function, header *ssa.BasicBlock) string {
	// ordinal of the loop header among loop headers (blocks with a back edge), in block order
	n := 0
	for _, b := range fn.Blocks {
		isHdr := false
		for _, p := range b.Preds {
			if b.Dominates(p) {
				isHdr = true
			}
		}
		if isHdr {
			n++
			if b == header {
				return fmt.Sprint(n)
			}
		}
	}
	return fmt.Sprintf("?%d", header.Index)
}

func convSource(v ssa.Value) ssa.Value {
	for i := 0; i < 4; i++ {
		switch x := v.(type) {
		case *ssa.Convert:
			v = x.X
			continue
		case *ssa.ChangeType:
			v = x.X
			continue
		}
		break
	}
	return v
}

func (pf *poolFacts) checkScaleTripCount(r *Report, rule string, scale *ssa.Function) {
	c := pf.c
	name := c.FuncName(scale)
	var cas *ssa.Call
	allInstrs(scale, func(in ssa.Instruction) {
		if call, ok := in.(*ssa.Call); ok && len(call.Call.Args) == 3 && pf.counterOf(call.Call.Args[0]) == "C" {
			if f := call.Call.StaticCallee(); f != nil && f.Name() == "CompareAndSwap" {
				cas = call
			}
		}
	})
	if cas == nil {
		r.undecided(rule, name, "trip-count", c.Pos(scale.Pos()), "capacity is not installed by CompareAndSwap: shape not recognised")
		return
	}
	old, nw := convSource(cas.Call.Args[1]), convSource(cas.Call.Args[2])
	// loops: find comparisons i < (x - y) that guard a send/receive on the channel
	n := 0
	allInstrs(scale, func(in ssa.Instruction) {
		b, ok := in.(*ssa.BinOp)
		if !ok || b.Op != token.LSS {
			return
		}
		// the bound as a linear form over the old and the new capacity (x - y, -(y - x), a temporary holding either)
		var lin func(v ssa.Value, d int) (co, cn, k int64, ok bool)
		lin = func(v ssa.Value, d int) (int64, int64, int64, bool) {
			v = resolveLoad(stripValue(v))
			src := convSource(v)
			if sameVal(src, old) {
				return 1, 0, 0, true
			}
			if sameVal(src, nw) {
				return 0, 1, 0, true
			}
			if kk, ok := constInt(v); ok {
				return 0, 0, kk, true
			}
			if d == 0 {
				return 0, 0, 0, false
			}
			switch x := stripValue(v).(type) {
			case *ssa.BinOp:
				a1, b1, c1, ok1 := lin(x.X, d-1)
				a2, b2, c2, ok2 := lin(x.Y, d-1)
				if !ok1 || !ok2 {
					return 0, 0, 0, false
				}
				switch x.Op {
				case token.SUB:
					return a1 - a2, b1 - b2, c1 - c2, true
				case token.ADD:
					return a1 + a2, b1 + b2, c1 + c2, true
				}
			case *ssa.UnOp:
				if x.Op == token.SUB {
					a1, b1, c1, ok1 := lin(x.X, d-1)
					return -a1, -b1, -c1, ok1
				}
			case *ssa.Convert:
				return lin(x.X, d-1)
			}
			return 0, 0, 0, false
		}
		co, cn, ck, okLin := lin(b.Y, 5)
		if !okLin || ck != 0 || co == 0 {
			return
		}
		// which channel operation does the true edge guard?
		dir := 0
		for _, e := range condEdges(b) {
			if !e.Val {
				continue
			}
			blk := e.If.Block().Succs[e.Succ]
			for _, bi := range blk.Instrs {
				switch op := bi.(type) {
				case *ssa.Send:
					if pf.isResChan(op.Chan) {
						dir = +1
					}
				case *ssa.UnOp:
					if op.Op == token.ARROW && pf.isResChan(op.X) {
						dir = -1
					}
				}
			}
		}
		if dir == 0 {
			return
		}
		n++
		cons := fmt.Sprintf("trip-count:loop#%d", n)
		okShape := (dir == -1 && co == 1 && cn == -1) || (dir == +1 && co == -1 && cn == 1)
		if okShape {
			r.ok(rule, name, cons, c.Pos(b.Pos()), "the loop moves exactly |new-old| tokens, the amount the CompareAndSwap added to the capacity")
		} else {
			r.viol(rule, name, cons, c.Pos(b.Pos()), "the number of tokens moved by this loop is not the difference installed by the CompareAndSwap: idle + in-use drifts away from capacity")
		}
	})
	if n < 2 {
		r.undecided(rule, name, "trip-count", c.Pos(scale.Pos()), fmt.Sprintf("expected a shrinking and a growing loop bounded by the capacity difference, found %d", n))
	}
}

func (pf *poolFacts) checkCtor(r *Report, rule string, ctor *ssa.Function) {
	c := pf.c
	name := c.FuncName(ctor)
	if len(ctor.Params) < 2 {
		r.undecided(rule, name, "establishes-invariant", c.Pos(ctor.Pos()), "unexpected signature")
		return
	}
	capP := ctor.Params[1]
	// loop bound: i < capacity guarding a send
	okLoop := false
	allInstrs(ctor, func(in ssa.Instruction) {
		b, ok := in.(*ssa.BinOp)
		if !ok || b.Op != token.LSS || convSource(b.Y) != ssa.Value(capP) {
			return
		}
		for _, e := range condEdges(b) {
			if !e.Val {
				continue
			}
			for _, bi := range e.If.Block().Succs[e.Succ].Instrs {
				if s, ok := bi.(*ssa.Send); ok && pf.isResChan(s.Chan) {
					okLoop = true
				}
			}
		}
	})
	// available and capacity initialised from the same parameter
	initOK := map[*types.Var]bool{}
	allInstrs(ctor, func(in ssa.Instruction) {
		st, ok := in.(*ssa.Store)
		if !ok {
			return
		}
		f := fieldOfAddr(st.Addr)
		if f != pf.availF && f != pf.capF {
			return
		}
		if call, ok := st.Val.(*ssa.Call); ok && len(call.Call.Args) == 1 && convSource(call.Call.Args[0]) == ssa.Value(capP) {
			initOK[f] = true
		}
	})
	if okLoop && initOK[pf.availF] && initOK[pf.capF] {
		r.ok(rule, name, "establishes-invariant", c.Pos(ctor.Pos()), "capacity tokens are placed in the channel and available = capacity = the same parameter; in-use starts at zero")
	} else {
		r.viol(rule, name, "establishes-invariant", c.Pos(ctor.Pos()), "the constructor does not start with tokens = available = capacity")
	}
}

// ---------------------------------------------------------------------------------------
// PC3 / who-may-call / close order in backend and util

func ruleC24pc3(c *Ctx, r *Report) {
	pf := c.pcFacts()
	if pf == nil {
		r.undecided("PC3", "backend", "anchor", "-", "anchors not found")
		return
	}
	r.floor("PC3", 3)
	for _, fn := range []*ssa.Function{
		c.Method("backend", "pooledConnectImpl", "Recycle"),
		c.Method("backend", "connectionPoolImpl", "Put"),
		c.Method("backend", "connectionPoolImpl", "Get"),
		c.Method("util", "ResourcePool", "Put"),
	} {
		if fn == nil {
			r.undecided("PC3", "backend/util", "anchor", "-", "a release-protocol function was not found")
			continue
		}
		pf.pc3(r, fn)
	}
}

func ruleC24who(c *Ctx, r *Report) {
	const rule = "WM-C24"
	r.floor(rule, 2)
	rpPut := c.Method("util", "ResourcePool", "Put")
	cpPut := c.Method("backend", "connectionPoolImpl", "Put")
	recycle := c.Method("backend", "pooledConnectImpl", "Recycle")
	cpPutI := c.IfaceMethod("backend", "ConnectionPool", "Put")
	if rpPut == nil || cpPut == nil || recycle == nil || cpPutI == nil {
		r.undecided(rule, "backend/util", "anchor", "-", "Put/Recycle functions not found")
		return
	}
	for _, s := range c.callSites(func(cc *ssa.CallCommon) bool { return callsFunc(cc, rpPut) }) {
		if s.Fn == cpPut {
			r.ok(rule, c.FuncName(s.Fn), "calls:ResourcePool.Put@"+branchLabel(c, s.In), c.Pos(s.In.Pos()), "the connection pool's return path")
		} else {
			r.viol(rule, c.FuncName(s.Fn), "calls:ResourcePool.Put@"+branchLabel(c, s.In), c.Pos(s.In.Pos()), "a slot is returned to the resource pool outside connectionPoolImpl.Put: a second return for one Get over-fills the pool (two holders for one slot)")
		}
	}
	for _, s := range c.callSites(func(cc *ssa.CallCommon) bool { return callsFunc(cc, cpPut) || callsIfaceMethod(cc, cpPutI) }) {
		if s.Fn == recycle {
			r.ok(rule, c.FuncName(s.Fn), "calls:ConnectionPool.Put@"+ordinalOfIface(s.In, cpPutI), c.Pos(s.In.Pos()), "the pooled connection's Recycle")
		} else {
			r.viol(rule, c.FuncName(s.Fn), "calls:ConnectionPool.Put", c.Pos(s.In.Pos()), "a connection is put back outside pooledConnectImpl.Recycle")
		}
	}
}

func ruleC24close(c *Ctx, r *Report) {
	const rule = "MP-C24c"
	r.floor(rule, 1)
	cl := c.Method("backend", "connectionPoolImpl", "Close")
	rpClose := c.Method("util", "ResourcePool", "Close")
	connF := c.Field("backend", "connectionPoolImpl", "connections")
	if cl == nil || rpClose == nil || connF == nil {
		r.undecided(rule, "(*backend.connectionPoolImpl).Close", "anchor", "-", "not found")
		return
	}
	name := c.FuncName(cl)
	closes := callsIn(cl, func(cc *ssa.CallCommon) bool { return callsFunc(cc, rpClose) })
	n := 0
	allInstrs(cl, func(in ssa.Instruction) {
		st, ok := in.(*ssa.Store)
		if !ok || fieldOfAddr(st.Addr) != connF {
			return
		}
		n++
		dom := false
		for _, ci := range closes {
			if instrDominates(ci, st) {
				dom = true
			}
		}
		if dom {
			r.ok(rule, name, "detach-after-drain", c.Pos(st.Pos()), "cp.connections is cleared only after ResourcePool.Close() returned (all handed-out connections were returned)")
		} else {
			r.viol(rule, name, "detach-after-drain", c.Pos(st.Pos()), "the pool is detached before it is drained: returning a connection that is still out panics in connectionPoolImpl.Put (and Close waits forever for it)")
		}
	})
	if n == 0 {
		r.undecided(rule, name, "detach-after-drain", c.Pos(cl.Pos()), "Close never clears cp.connections")
	}
	_ = strings.TrimSpace
}

func init() {
	register("C24", "", ruleC24once)
	register("C38", "", ruleC38buf, rulePC1) // a leak of a shared pool slot on a client-triggerable exit starves other sessions
}

// ruleC24once (EO-C24): one slot goes back per release: on every path through connectionPoolImpl.Put exactly one
// ResourcePool.Put is executed, and on every path through pooledConnectImpl.Recycle exactly one ConnectionPool.Put.
func ruleC24once(c *Ctx, r *Report) {
	const rule = "EO-C24"
	r.floor(rule, 2)
	rpPut := c.Method("util", "ResourcePool", "Put")
	cpPut := c.Method("backend", "connectionPoolImpl", "Put")
	cpPutI := c.IfaceMethod("backend", "ConnectionPool", "Put")
	recycle := c.Method("backend", "pooledConnectImpl", "Recycle")
	if rpPut == nil || cpPut == nil || recycle == nil || cpPutI == nil {
		r.undecided(rule, "backend", "anchor", "-", "anchors not found")
		return
	}
	check := func(fn *ssa.Function, isPut func(cc *ssa.CallCommon) bool, what string) {
		name := c.FuncName(fn)
		n := 0
		for _, ret := range returnsOf(fn) {
			n++
			min, max := countOnPaths(fn, ret, func(in ssa.Instruction) bool {
				if _, isD := in.(*ssa.Defer); isD {
					return false
				}
				cc := callCommon(in)
				return cc != nil && isPut(cc)
			})
			cons := fmt.Sprintf("return#%d:exactly-one-%s", n, what)
			if min == 1 && max == 1 {
				r.ok(rule, name, cons, c.Pos(exitPos(ret)), "every path to this return hands back exactly one slot")
			} else {
				r.viol(rule, name, cons, c.Pos(exitPos(ret)), fmt.Sprintf("a path to this return executes %s between %d and %d times: a release that returns no slot leaks it, one that returns two over-fills the pool (the same slot is issued to two holders)", what, min, max))
			}
		}
		if n == 0 {
			r.undecided(rule, name, "returns", c.Pos(fn.Pos()), "no return")
		}
	}
	check(cpPut, func(cc *ssa.CallCommon) bool { return callsFunc(cc, rpPut) }, "ResourcePool.Put")
	check(recycle, func(cc *ssa.CallCommon) bool { return callsFunc(cc, cpPut) || callsIfaceMethod(cc, cpPutI) }, "ConnectionPool.Put")
}

// ruleC38buf (BP-C38c): the packet-buffer pool is shared by all sessions: a buffer given back with bufPool.Put is
// forgotten by its connection on every path (currentEphemeralBuffer is overwritten before the function returns), so it
// cannot be given back a second time and end up in two sessions at once.
func ruleC38buf(c *Ctx, r *Report) {
	const rule = "BP-C38c"
	r.floor(rule, 2)
	bufF := c.Field("mysql", "Conn", "currentEphemeralBuffer")
	mp := c.Pkg("mysql")
	if bufF == nil || mp == nil {
		r.undecided(rule, "mysql.Conn", "anchor", "-", "currentEphemeralBuffer not found")
		return
	}
	n := 0
	for _, fn := range c.Funcs {
		root := fn
		for root.Parent() != nil {
			root = root.Parent()
		}
		if root.Pkg != mp {
			continue
		}
		allInstrs(fn, func(in ssa.Instruction) {
			call, ok := in.(*ssa.Call)
			if !ok {
				return
			}
			f := call.Call.StaticCallee()
			if f == nil || f.Name() != "Put" || len(call.Call.Args) < 2 || loadedField(call.Call.Args[1]) != bufF {
				return
			}
			n++
			name := c.FuncName(fn)
			cons := "put-buffer@" + ordinalByLabel(fn, in, "Put")
			exits := searchExits(fn, in, nil, SearchOpts{Stop: func(x ssa.Instruction) bool {
				st, ok := x.(*ssa.Store)
				return ok && fieldOfAddr(st.Addr) == bufF
			}})
			if len(exits) == 0 {
				r.ok(rule, name, cons, c.Pos(in.Pos()), "the connection forgets the buffer on every path after giving it back")
			} else {
				r.viol(rule, name, cons, c.Pos(in.Pos()), "the buffer is given back to the shared pool but stays attached to the connection: the caller's cleanup gives it back again and two sessions receive the same buffer (one session's packet is overwritten by another's)", c.pathStrings(exits[0])...)
			}
		})
	}
	if n == 0 {
		r.undecided(rule, "mysql", "put-buffer", "-", "no release of the ephemeral buffer found")
	}
}
