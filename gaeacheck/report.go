package main

import (
	"bufio"
	"encoding/json"
	"fmt"
	"os"
	"path/filepath"
	"sort"
	"strings"
)

type Verdict string

const (
	OK        Verdict = "ok"
	Violation Verdict = "violation"
	Undecided Verdict = "undecided"
	Info      Verdict = "info" // reported, never fails
)

// Obligation is one decided rule instance. Key = Rule|Func|Construct (never a line number).
type Obligation struct {
	Rule      string   `json:"rule"`
	Func      string   `json:"func"`
	Construct string   `json:"construct"`
	Verdict   Verdict  `json:"verdict"`
	Reason    string   `json:"reason,omitempty"`
	Pos       string   `json:"pos,omitempty"`
	Path      []string `json:"path,omitempty"`
	Known     bool     `json:"known,omitempty"`
}

func (o *Obligation) Key() string { return o.Rule + "|" + o.Func + "|" + o.Construct }

type Report struct {
	Prop   string
	Obs    []*Obligation
	Floors map[string]int // rule -> minimum number of instances
	Notes  []string
	Assume []string
	seen   map[string]bool
}

func newReport(prop string) *Report {
	return &Report{Prop: prop, Floors: map[string]int{}, seen: map[string]bool{}}
}

func (r *Report) add(o *Obligation) *Obligation {
	k := o.Key()
	if r.seen[k] {
		// same construct key twice in one function: disambiguate by ordinal (ordering is deterministic)
		for i := 2; ; i++ {
			k2 := fmt.Sprintf("%s#%d", o.Construct, i)
			if !r.seen[o.Rule+"|"+o.Func+"|"+k2] {
				o.Construct = k2
				break
			}
		}
	}
	r.seen[o.Key()] = true
	r.Obs = append(r.Obs, o)
	return o
}

func (r *Report) ok(rule, fn, construct, pos, reason string) {
	r.add(&Obligation{Rule: rule, Func: fn, Construct: construct, Verdict: OK, Pos: pos, Reason: reason})
}
func (r *Report) viol(rule, fn, construct, pos, reason string, path ...string) {
	r.add(&Obligation{Rule: rule, Func: fn, Construct: construct, Verdict: Violation, Pos: pos, Reason: reason, Path: path})
}
func (r *Report) undecided(rule, fn, construct, pos, reason string) {
	r.add(&Obligation{Rule: rule, Func: fn, Construct: construct, Verdict: Undecided, Pos: pos, Reason: reason})
}
func (r *Report) info(rule, fn, construct, pos, reason string) {
	r.add(&Obligation{Rule: rule, Func: fn, Construct: construct, Verdict: Info, Pos: pos, Reason: reason})
}

// floor: the instance count below which a rule is taken to have lost sight of the code it was written for. The number given
// is what was counted by hand on the pinned tree; a behaviour-preserving extract-method legitimately merges duplicated
// sites into one, so the check fails only when fewer than a third of them (at least one) are still seen.
func (r *Report) floor(rule string, n int) {
	f := n / 3
	if f < 1 {
		f = 1
	}
	r.Floors[rule] = f
}
func (r *Report) note(f string, a ...interface{}) {
	r.Notes = append(r.Notes, fmt.Sprintf(f, a...))
}
func (r *Report) assume(s string) { r.Assume = append(r.Assume, s) }

// ---- known findings -------------------------------------------------------------------

type knownEntry struct {
	Kind string // "known" or "fixed"
	Prop string
	Key  string // rule|func|construct
	Text string
	used bool
}

func readKnown(path string) ([]*knownEntry, error) {
	f, err := os.Open(path)
	if err != nil {
		if os.IsNotExist(err) {
			return nil, nil
		}
		return nil, err
	}
	defer f.Close()
	var out []*knownEntry
	sc := bufio.NewScanner(f)
	sc.Buffer(make([]byte, 1<<20), 1<<20)
	for sc.Scan() {
		line := strings.TrimSpace(sc.Text())
		if line == "" || strings.HasPrefix(line, "#") {
			continue
		}
		var kind string
		switch {
		case strings.HasPrefix(line, "known:"):
			kind = "known"
			line = strings.TrimSpace(line[len("known:"):])
		case strings.HasPrefix(line, "fixed:"):
			kind = "fixed"
			line = strings.TrimSpace(line[len("fixed:"):])
		default:
			return nil, fmt.Errorf("known_findings: bad line %q", line)
		}
		text := ""
		if i := strings.Index(line, " | "); i >= 0 {
			text = strings.TrimSpace(line[i+3:])
			line = strings.TrimSpace(line[:i])
		}
		e := &knownEntry{Kind: kind, Text: text}
		var rule, fn, cons string
		for _, kv := range splitKV(line) {
			switch kv[0] {
			case "property":
				e.Prop = kv[1]
			case "rule":
				rule = kv[1]
			case "func":
				fn = kv[1]
			case "construct":
				cons = kv[1]
			}
		}
		e.Key = rule + "|" + fn + "|" + cons
		out = append(out, e)
	}
	return out, sc.Err()
}

// splitKV splits `k=v k2=v2` where values may be quoted with double quotes.
func splitKV(s string) [][2]string {
	var out [][2]string
	for len(s) > 0 {
		s = strings.TrimLeft(s, " \t")
		i := strings.IndexByte(s, '=')
		if i < 0 {
			break
		}
		k := s[:i]
		s = s[i+1:]
		var v string
		if strings.HasPrefix(s, "\"") {
			j := strings.IndexByte(s[1:], '"')
			if j < 0 {
				v, s = s[1:], ""
			} else {
				v, s = s[1:1+j], s[j+2:]
			}
		} else {
			j := strings.IndexAny(s, " \t")
			if j < 0 {
				v, s = s, ""
			} else {
				v, s = s[:j], s[j:]
			}
		}
		out = append(out, [2]string{k, v})
	}
	return out
}

// ---- finishing: verdict, prints, evidence -----------------------------------------------

type runStats struct {
	Packages, Functions, CGEdges int
	WallS                        float64
	Seed                         int
	Tier                         string
}

func (r *Report) finish(verifDir string, known []*knownEntry, st runStats, extra map[string]interface{}) int {
	sort.SliceStable(r.Obs, func(i, j int) bool { return r.Obs[i].Key() < r.Obs[j].Key() })
	counts := map[string]int{}
	for _, o := range r.Obs {
		if o.Verdict != Info {
			counts[o.Rule]++
		}
	}
	// floors
	var floorRules []string
	for k := range r.Floors {
		floorRules = append(floorRules, k)
	}
	sort.Strings(floorRules)
	for _, rule := range floorRules {
		if counts[rule] < r.Floors[rule] {
			r.Obs = append(r.Obs, &Obligation{Rule: rule, Func: "-", Construct: "instance-floor", Verdict: Undecided,
				Reason: fmt.Sprintf("rule matched %d instances, fewer than the %d confirmed by hand on the pinned tree: the rule no longer sees the code it was written for", counts[rule], r.Floors[rule])})
		}
	}
	kmap := map[string]*knownEntry{}
	for _, k := range known {
		if k.Kind == "known" && k.Prop == r.Prop {
			kmap[k.Key] = k
		}
	}
	nViol, nKnown, nOK, nUnd, total := 0, 0, 0, 0, 0
	var lines []string
	replayDir := filepath.Join(verifDir, "replay")
	os.MkdirAll(replayDir, 0o755)
	for _, o := range r.Obs {
		if o.Verdict == Info {
			continue
		}
		total++
		switch o.Verdict {
		case OK:
			nOK++
		case Violation, Undecided:
			if k, ok := kmap[o.Key()]; ok && o.Verdict == Violation {
				k.used = true
				o.Known = true
				nKnown++
				lines = append(lines, fmt.Sprintf("KNOWN-FINDING: property=%s %s %s %s at %s: %s", r.Prop, o.Rule, o.Func, o.Construct, o.Pos, o.Reason))
				continue
			}
			if o.Verdict == Undecided {
				nUnd++
			}
			nViol++
			rp := filepath.Join(replayDir, fmt.Sprintf("%s_%s.json", r.Prop, sanitize(o.Key())))
			b, _ := json.MarshalIndent(map[string]interface{}{"property": r.Prop, "obligation": o, "tier": st.Tier}, "", " ")
			os.WriteFile(rp, b, 0o644)
			lines = append(lines, fmt.Sprintf("FAILED-OBLIGATION (%s) %s %s [%s] at %s: %s", string(o.Verdict), o.Rule, o.Func, o.Construct, o.Pos, o.Reason))
			for _, p := range o.Path {
				lines = append(lines, "      path: "+p)
			}
			lines = append(lines, fmt.Sprintf("VIOLATION property=%s replay=%s", r.Prop, rp))
		}
	}
	for _, k := range known {
		if k.Kind == "known" && k.Prop == r.Prop && !k.used {
			lines = append(lines, fmt.Sprintf("STALE-KNOWN (warning): property=%s key=%s no longer violates; remove the entry", r.Prop, k.Key))
		}
	}
	// print
	fmt.Printf("gaeacheck property=%s tier=%s packages=%d functions=%d callgraph_edges=%d\n", r.Prop, st.Tier, st.Packages, st.Functions, st.CGEdges)
	var rules []string
	for k := range counts {
		rules = append(rules, k)
	}
	sort.Strings(rules)
	for _, rule := range rules {
		fmt.Printf("  rule %-12s instances=%d floor=%d\n", rule, counts[rule], r.Floors[rule])
	}
	for _, o := range r.Obs {
		tag := string(o.Verdict)
		if o.Known {
			tag = "known"
		}
		fmt.Printf("  [%-9s] %-10s %s :: %s (%s) %s\n", tag, o.Rule, o.Func, o.Construct, o.Pos, o.Reason)
	}
	for _, n := range r.Notes {
		fmt.Println("  note:", n)
	}
	for _, l := range lines {
		fmt.Println(l)
	}
	fmt.Printf("summary property=%s obligations=%d ok=%d known=%d violations=%d (undecided=%d)\n", r.Prop, total, nOK, nKnown, nViol, nUnd)

	// evidence
	samples := []interface{}{}
	distinct := map[string]bool{}
	for _, o := range r.Obs {
		if o.Verdict == Info {
			continue
		}
		distinct[o.Key()] = true
		if len(samples) < 12 {
			samples = append(samples, o)
		}
	}
	var kf []string
	for _, o := range r.Obs {
		if o.Known {
			kf = append(kf, o.Key())
		}
	}
	cov := map[string]interface{}{
		"obligations":         total,
		"discharged":          nOK,
		"evaluations":         total,
		"distinct_nontrivial": len(distinct),
		"rule":                "one obligation per rule instance found in the current source (key = rule|function|construct); every instance is non-trivial by construction (it names a concrete call site, store, path set or table row); instances are enumerated exhaustively over all loaded functions",
		"samples":             samples,
		"explanation":         propExplanation[r.Prop],
		"exhaustive":          true,
		"packages":            st.Packages,
		"functions":           st.Functions,
		"callgraph_edges":     st.CGEdges,
		"known_findings":      kfOrEmpty(kf),
		"instances_per_rule":  counts,
		"floors":              r.Floors,
		"all_obligations":     r.Obs,
		"notes":               notesOrEmpty(r.Notes),
	}
	for k, v := range extra {
		cov[k] = v
	}
	if r.Assume == nil {
		r.Assume = []string{}
	}
	if r.Notes == nil {
		r.Notes = []string{}
	}
	if kf == nil {
		kf = []string{}
	}
	ev := map[string]interface{}{
		"property_id": r.Prop,
		"tier":        st.Tier,
		"seed":        st.Seed,
		"level":       "other",
		"coverage":    cov,
		"assumptions": r.Assume,
		"wall_s":      st.WallS,
		"violations":  nViol,
	}
	os.MkdirAll(filepath.Join(verifDir, "evidence"), 0o755)
	b, _ := json.MarshalIndent(ev, "", " ")
	if err := os.WriteFile(filepath.Join(verifDir, "evidence", r.Prop+".json"), b, 0o644); err != nil {
		fmt.Println("cannot write evidence:", err)
		return 2
	}
	if nViol > 0 {
		return 1
	}
	return 0
}

func sanitize(s string) string {
	var b strings.Builder
	for _, r := range s {
		switch {
		case r >= 'a' && r <= 'z', r >= 'A' && r <= 'Z', r >= '0' && r <= '9', r == '-', r == '_', r == '.':
			b.WriteRune(r)
		default:
			b.WriteByte('_')
		}
	}
	out := b.String()
	if len(out) > 150 {
		out = out[:150]
	}
	return out
}

func kfOrEmpty(a []string) []string {
	if a == nil {
		return []string{}
	}
	return a
}

func notesOrEmpty(a []string) []string { return kfOrEmpty(a) }
