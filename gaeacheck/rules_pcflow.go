package main

import (
	"fmt"
	"go/token"
	"go/types"
	"sort"
	"strings"

	"golang.org/x/tools/go/ssa"
)

// pcflow: ownership / typestate analysis of backend.PooledConnect values over SSA.

func init() {
	register("C19", "Clause decided: release-exactly-once on every CFG path of the session layer. PC1: every acquisition of a backend.PooledConnect (and every local map of them) in proxy/server is discharged on every path to every exit by exactly one of Recycle(), return, store into txConns/ksConns/continueConn or a (deferred) consumer call; PC2a: every replacement of txConns/ksConns is preceded by a range loop whose every body path recycles the element; PC2b: recycling a pinned connection is followed on every path by unpinning; PC2c: consumers release only what the caller owns; PC2d: transaction-ending entry points always drain; PC3: a released connection is never used or returned afterwards. Not value-sensitive on IsClosed(); goroutine leaks and whether the backend transaction was really rolled back are not covered.",
		rulePC1, rulePC2a, rulePC2b, rulePC2c, rulePC2d, rulePC3server)
	register("C18", "Clauses decided (structure): WM-C18a single acquisition layer (raw connection sources and client-SQL execution sites in proxy/server are a frozen table); MP-C18b in a transaction the replica-capable source is unreachable (dominated by !isInTransaction()) and the other edge reaches only getTransactionConn; MP-C18c one master connection per slice: the only raw source of getTransactionConn is GetMasterConn, dominated by the miss edge of txConns[sliceName], stored under the same key on every success exit, under txLock; PC2a/PC2d commit, rollback and SET autocommit=1 reach exactly the transaction's connections and release them. BEGIN timing, savepoint replay and connection identity across histories are not covered.",
		ruleC18a, ruleC18b, ruleC18c, rulePC2aTx, rulePC2d)
	register("C23", "Clauses decided (structure): MP-C23a keep-session connections are created only on a miss of ksConns[sliceName] and stored under that key on every success exit; WM-C23b only the listed functions write ksConns; PC2a/PC2b unpinning closes and recycles every pinned connection and recycling implies unpinning; Session.Close reaches handleKsQuit on every path past the already-closed test; clearKsConns is guarded by !isInTransaction(). Backend-held state and the timing of namespaceChangeIndex are not covered.",
		ruleC23a, ruleC23b, rulePC2aKs, rulePC2bKs, ruleC23close)
}

type pcFacts struct {
	c                                *Ctx
	pcType                           types.Type
	recycle, closeM, isClosedM       *types.Func
	txF, ksF, contF                  *types.Var
	consumers                        map[*ssa.Function]int // function -> index (in cc.Args) of the connection argument
	mapConsumers                     map[*ssa.Function]int
	sessionSources                   map[*ssa.Function]bool
	isInTx, isKs, recycleTx, clearKs *ssa.Function
	serverPkg                        *ssa.Package
}

func (c *Ctx) pcFacts() *pcFacts {
	pf := &pcFacts{c: c}
	n := c.NamedType("backend", "PooledConnect")
	if n == nil {
		return nil
	}
	pf.pcType = n
	pf.recycle = c.pcMethod("Recycle")
	pf.closeM = c.pcMethod("Close")
	pf.isClosedM = c.pcMethod("IsClosed")
	pf.txF = c.Field(serverRel, "SessionExecutor", "txConns")
	pf.ksF = c.Field(serverRel, "SessionExecutor", "ksConns")
	pf.contF = c.Field(serverRel, "Session", "continueConn")
	pf.consumers = map[*ssa.Function]int{}
	pf.mapConsumers = map[*ssa.Function]int{}
	if f := c.seMethod("recycleBackendConn"); f != nil {
		pf.consumers[f] = 1
	}
	if f := c.seMethod("recycleContinueConn"); f != nil {
		pf.consumers[f] = 1
	}
	if f := c.seMethod("recycleBackendConns"); f != nil {
		pf.mapConsumers[f] = 1
	}
	pf.sessionSources = map[*ssa.Function]bool{}
	for _, nm := range []string{"getBackendConn", "getBackendNoKsConn", "getBackendKsConn", "getTransactionConn"} {
		if f := c.seMethod(nm); f != nil {
			pf.sessionSources[f] = true
		}
	}
	pf.isInTx = c.seMethod("isInTransaction")
	pf.isKs = c.seMethod("IsKeepSession")
	pf.recycleTx = c.seMethod("recycleTx")
	pf.clearKs = c.Method(serverRel, "Session", "clearKsConns")
	pf.serverPkg = c.Pkg(serverRel)
	if pf.recycle == nil || pf.closeM == nil || pf.txF == nil || pf.ksF == nil || pf.contF == nil || pf.serverPkg == nil ||
		len(pf.consumers) != 2 || len(pf.mapConsumers) != 1 || len(pf.sessionSources) != 4 || pf.isInTx == nil || pf.isKs == nil {
		return nil
	}
	return pf
}

func (pf *pcFacts) isPC(t types.Type) bool { return types.Identical(t, pf.pcType) }
func (pf *pcFacts) isPCMap(t types.Type) bool {
	m, ok := t.Underlying().(*types.Map)
	return ok && pf.isPC(m.Elem())
}

// serverFuncs: non-test, non-mock functions (incl. closures) of proxy/server.
func (pf *pcFacts) serverFuncs() []*ssa.Function {
	var out []*ssa.Function
	for _, fn := range pf.c.Funcs {
		root := fn
		for root.Parent() != nil {
			root = root.Parent()
		}
		if root.Pkg == pf.serverPkg && !pf.c.IsMockFunc(fn) {
			out = append(out, fn)
		}
	}
	return out
}

type valSet map[ssa.Value]bool

func aliasSet(v ssa.Value) valSet {
	s := valSet{}
	for _, a := range aliases(v) {
		s[a] = true
	}
	return s
}

func (s valSet) has(v ssa.Value) bool {
	if v == nil {
		return false
	}
	return s[v] || s[stripValue(v)]
}

// sourceKind classifies a call that yields a connection: "raw" (fresh ownership from a pool/slice), "session"
// (session-mode value: may be pinned in txConns/ksConns), "" (not an owning source).
func (pf *pcFacts) sourceKind(cc *ssa.CallCommon) string {
	if cc.IsInvoke() {
		// ConnectionPool.Get
		if cc.Method.Name() == "Get" && isNamed(cc.Value.Type(), backendPath, "ConnectionPool") {
			return "raw"
		}
		return ""
	}
	f := cc.StaticCallee()
	if f == nil {
		return ""
	}
	if pf.sessionSources[f] {
		return "session"
	}
	if f.Signature.Recv() != nil && isNamed(f.Signature.Recv().Type(), backendPath, "Slice") {
		switch f.Name() {
		case "GetConn", "GetMasterConn", "GetSlaveConn":
			return "raw"
		}
	}
	return ""
}

func (pf *pcFacts) isRecycle(cc *ssa.CallCommon, a valSet) bool {
	return cc != nil && callsIfaceMethod(cc, pf.recycle) && a.has(recvOf(cc))
}

func (pf *pcFacts) isConsumerCall(cc *ssa.CallCommon, a valSet) bool {
	if cc == nil {
		return false
	}
	f := cc.StaticCallee()
	if f == nil {
		return false
	}
	if idx, ok := pf.consumers[f]; ok && idx < len(cc.Args) && a.has(cc.Args[idx]) {
		return true
	}
	if idx, ok := pf.mapConsumers[f]; ok && idx < len(cc.Args) && a.has(cc.Args[idx]) {
		return true
	}
	return false
}

// returnsAny: the Return hands one of the values of a back to the caller.
func returnsAny(ret *ssa.Return, a valSet) bool {
	for i := range ret.Results {
		vals, _ := retValues(ret, i)
		for _, v := range vals {
			if a.has(v) {
				return true
			}
		}
	}
	return false
}

// ---------------------------------------------------------------------------------------
// PC1

func rulePC1(c *Ctx, r *Report) {
	const rule = "PC1"
	r.floor(rule, 10)
	pf := c.pcFacts()
	if pf == nil {
		r.undecided(rule, "proxy/server", "anchor", "-", "PooledConnect / SessionExecutor anchors not found")
		return
	}
	for _, fn := range pf.serverFuncs() {
		name := c.FuncName(fn)
		allInstrs(fn, func(in ssa.Instruction) {
			switch x := in.(type) {
			case *ssa.Call:
				sig := x.Call.Signature()
				if sig.Results().Len() == 0 {
					return
				}
				rt := sig.Results().At(0).Type()
				if pf.isPC(rt) {
					kind := pf.sourceKind(&x.Call)
					label := calleeLabel(&x.Call)
					cons := "acquire:" + label + "@" + ordinalByLabel(fn, in, label)
					if kind == "" {
						if f := x.Call.StaticCallee(); f != nil && c.InModule(f) && f.Pkg == pf.serverPkg {
							r.undecided(rule, name, cons, c.Pos(in.Pos()), "call returns a PooledConnect but the callee is not classified as a source")
						}
						return
					}
					pf.checkAcquire(r, rule, fn, x, kind, cons)
				} else if pf.isPCMap(rt) {
					label := calleeLabel(&x.Call)
					cons := "acquire-map:" + label + "@" + ordinalByLabel(fn, in, label)
					pf.checkMapOwner(r, rule, fn, x, resultOf(x, 0), cons)
				}
			case *ssa.MapUpdate:
				// owned value stored into a local (not field) map: the map carries the obligation from here on
				if !pf.isPCMap(x.Map.Type()) {
					return
				}
				if f := loadedField(x.Map); f != nil {
					return // txConns/ksConns: pinned, handled by PC2
				}
				cons := "fill-map@" + ordinalOfKind(fn, in)
				pf.checkMapOwner(r, rule, fn, x, x.Map, cons)
			}
		})
	}
}

func calleeLabel(cc *ssa.CallCommon) string {
	if cc.IsInvoke() {
		if n := namedOf(cc.Value.Type()); n != nil {
			return n.Obj().Name() + "." + cc.Method.Name()
		}
		return "iface." + cc.Method.Name()
	}
	if f := cc.StaticCallee(); f != nil {
		return f.Name()
	}
	return "dynamic"
}

func ordinalByLabel(fn *ssa.Function, at ssa.Instruction, label string) string {
	n, idx := 0, 0
	allInstrs(fn, func(in ssa.Instruction) {
		if cc := callCommon(in); cc != nil && calleeLabel(cc) == label {
			n++
			if in == at {
				idx = n
			}
		}
	})
	return fmt.Sprint(idx)
}

func ordinalOfKind(fn *ssa.Function, at ssa.Instruction) string {
	n, idx := 0, 0
	allInstrs(fn, func(in ssa.Instruction) {
		if fmt.Sprintf("%T", in) == fmt.Sprintf("%T", at) {
			n++
			if in == at {
				idx = n
			}
		}
	})
	return fmt.Sprint(idx)
}

func (pf *pcFacts) checkAcquire(r *Report, rule string, fn *ssa.Function, call *ssa.Call, kind, cons string) {
	c := pf.c
	name := c.FuncName(fn)
	v := resultOf(call, 0)
	if v == nil {
		r.viol(rule, name, cons, c.Pos(call.Pos()), "the acquired connection is discarded at the call site")
		return
	}
	a := aliasSet(v)
	errEdges := map[[2]int]bool{}
	for _, e := range errNilEdgesOfCall(call) {
		if !e.Val {
			errEdges[[2]int{e.If.Block().Index, e.Succ}] = true
		}
	}
	for x := range a {
		for _, e := range nilEdges1(x) {
			if e.Val {
				errEdges[[2]int{e.If.Block().Index, e.Succ}] = true
			}
		}
	}
	var sessionRecycle ssa.Instruction
	discharge := func(in ssa.Instruction) bool {
		switch x := in.(type) {
		case *ssa.MapUpdate:
			return pf.isPCMap(x.Map.Type()) && a.has(x.Value)
		case *ssa.Store:
			if _, isField := x.Addr.(*ssa.FieldAddr); isField && a.has(x.Val) {
				return true
			}
			return false
		}
		cc := callCommon(in)
		if cc == nil {
			return false
		}
		if pf.isConsumerCall(cc, a) {
			return true
		}
		if pf.isRecycle(cc, a) {
			if kind == "session" {
				sessionRecycle = in
			}
			return true
		}
		return false
	}
	if dominatingDefer(fn, call, func(d *ssa.Defer) bool { return false }) {
		return
	}
	exits := searchExits(fn, call, nil, SearchOpts{
		Stop:      func(in ssa.Instruction) bool { _, isD := in.(*ssa.Defer); return !isD && discharge(in) },
		DeferStop: func(d *ssa.Defer) bool { return discharge(d) },
		EdgeOK:    func(b *ssa.BasicBlock, i int) bool { return !errEdges[[2]int{b.Index, i}] },
		ExitOK: func(in ssa.Instruction) bool {
			ret, ok := in.(*ssa.Return)
			return ok && returnsAny(ret, a)
		},
	})
	if sessionRecycle != nil {
		r.viol(rule, name, cons, c.Pos(sessionRecycle.Pos()), "a session-mode connection (it may be pinned in txConns/ksConns) is recycled directly instead of through recycleBackendConn")
		return
	}
	if len(exits) == 0 {
		r.ok(rule, name, cons, c.Pos(call.Pos()), "every path from the acquisition to every exit discharges the connection exactly through Recycle / return / pin / consumer ("+kind+" source)")
	} else {
		r.viol(rule, name, cons, c.Pos(call.Pos()), fmt.Sprintf("connection leaks: %d exit(s) are reachable from the acquisition without Recycle(), return, pinning or a consumer call (first exit at %s)", len(exits), c.Pos(exitPos(exits[0].Instr))), c.pathStrings(exits[0])...)
	}
}

// checkMapOwner: from instruction `from`, the map value m (holding owned connections) must on every path be returned,
// handed to recycleBackendConns (direct or deferred) or stored into a field.
func (pf *pcFacts) checkMapOwner(r *Report, rule string, fn *ssa.Function, from ssa.Instruction, m ssa.Value, cons string) {
	c := pf.c
	name := c.FuncName(fn)
	if m == nil {
		r.viol(rule, name, cons, c.Pos(from.Pos()), "map of connections is discarded at the call site")
		return
	}
	a := aliasSet(resolveLoad(stripValue(m)))
	for x := range aliasSet(m) {
		a[x] = true
	}
	discharge := func(in ssa.Instruction) bool {
		if st, ok := in.(*ssa.Store); ok {
			if _, isField := st.Addr.(*ssa.FieldAddr); isField && a.has(st.Val) {
				return true
			}
			return false
		}
		return pf.isConsumerCall(callCommon(in), a)
	}
	if dominatingDefer(fn, from, func(d *ssa.Defer) bool { return discharge(d) }) {
		r.ok(rule, name, cons, c.Pos(from.Pos()), "a deferred recycleBackendConns on this map is already registered")
		return
	}
	exits := searchExits(fn, from, nil, SearchOpts{
		Stop:      func(in ssa.Instruction) bool { _, isD := in.(*ssa.Defer); return !isD && discharge(in) },
		DeferStop: func(d *ssa.Defer) bool { return discharge(d) },
		ExitOK: func(in ssa.Instruction) bool {
			ret, ok := in.(*ssa.Return)
			return ok && returnsAny(ret, a)
		},
	})
	if len(exits) == 0 {
		r.ok(rule, name, cons, c.Pos(from.Pos()), "on every path (error paths included) the map of connections is returned, handed to recycleBackendConns or stored")
	} else {
		r.viol(rule, name, cons, c.Pos(from.Pos()), fmt.Sprintf("connections already placed in the map leak: %d exit(s) drop the map (first at %s)", len(exits), c.Pos(exitPos(exits[0].Instr))), c.pathStrings(exits[0])...)
	}
}

// ---------------------------------------------------------------------------------------
// PC2a: drain before replace

type rangeLoop struct {
	rng   *ssa.Range
	next  *ssa.Next
	elem  ssa.Value // extract #2
	field *types.Var
}

// rangesOver returns the range loops in fn over the map loaded from `field`.
func rangesOver(fn *ssa.Function, field *types.Var) []rangeLoop {
	var out []rangeLoop
	allInstrs(fn, func(in ssa.Instruction) {
		rg, ok := in.(*ssa.Range)
		if !ok || loadedField(rg.X) != field {
			return
		}
		refs := rg.Referrers()
		if refs == nil {
			return
		}
		for _, rr := range *refs {
			nx, ok := rr.(*ssa.Next)
			if !ok {
				continue
			}
			rl := rangeLoop{rng: rg, next: nx, field: field}
			if ex := extractOf(nx, 2); ex != nil {
				rl.elem = ex
			} else if kx := extractOf(nx, 1); kx != nil {
				// `for k := range m { v := m[k] ... }`: the element is the lookup of the iterated key in the same map
				allInstrs(fn, func(in2 ssa.Instruction) {
					if lk, ok := in2.(*ssa.Lookup); ok && !lk.CommaOk && loadedField(lk.X) == field && sameVal(lk.Index, kx) && rl.elem == nil {
						rl.elem = lk
					}
				})
			}
			out = append(out, rl)
		}
	})
	return out
}

// loopBodyAlways: every path from the start of the loop body (true edge of the Next's ok test) back to the Next or out
// of the function passes an instruction satisfying all of preds (each must be met at least once on the path).
func loopBodyMisses(fn *ssa.Function, rl rangeLoop, pred func(in ssa.Instruction) bool) (missAtNext bool, exits []Exit) {
	okv := extractOf(rl.next, 0)
	if okv == nil {
		return true, nil
	}
	for _, e := range condEdges(okv) {
		if !e.Val {
			continue
		}
		start := e.If.Block().Succs[e.Succ]
		ex := searchExits(fn, nil, start, SearchOpts{Stop: func(in ssa.Instruction) bool {
			if in == ssa.Instruction(rl.next) {
				missAtNext = true
				return true
			}
			return pred(in)
		}})
		exits = append(exits, ex...)
	}
	return
}

func rulePC2a(c *Ctx, r *Report)   { pc2a(c, r, true, true) }
func rulePC2aTx(c *Ctx, r *Report) { pc2a(c, r, true, false) }
func rulePC2aKs(c *Ctx, r *Report) { pc2a(c, r, false, true) }

func pc2a(c *Ctx, r *Report, tx, ks bool) {
	const rule = "PC2a"
	pf := c.pcFacts()
	if pf == nil {
		r.undecided(rule, "proxy/server", "anchor", "-", "anchors not found")
		return
	}
	n := 0
	for _, fn := range pf.serverFuncs() {
		name := c.FuncName(fn)
		allInstrs(fn, func(in ssa.Instruction) {
			st, ok := in.(*ssa.Store)
			if !ok {
				return
			}
			f := fieldOfAddr(st.Addr)
			if !(f == pf.txF && tx) && !(f == pf.ksF && ks) {
				return
			}
			if isFreshAlloc(rootOfAddr(st.Addr)) {
				return // constructor literal
			}
			n++
			cons := "replace:" + f.Name() + "@" + ordinalOfFieldStore(fn, in, f)
			needClose := f == pf.ksF
			var best string
			okFound := false
			for _, rl := range rangesOver(fn, f) {
				if !instrDominates(rl.rng, st) {
					continue
				}
				if rl.elem == nil {
					best = "the draining loop does not use the element"
					continue
				}
				a := aliasSet(rl.elem)
				miss, exits := loopBodyMisses(fn, rl, func(x ssa.Instruction) bool { return pf.isRecycle(callCommon(x), a) })
				if miss || len(exits) > 0 {
					best = "a path through the loop body skips Recycle() for an element"
					if len(exits) > 0 {
						best = "a path through the loop body leaves the function before Recycle() for the remaining elements"
					}
					continue
				}
				if needClose {
					miss2, exits2 := loopBodyMisses(fn, rl, func(x ssa.Instruction) bool {
						cc := callCommon(x)
						return cc != nil && callsIfaceMethod(cc, pf.closeM) && a.has(recvOf(cc))
					})
					if miss2 || len(exits2) > 0 {
						// not demanded by C19/C23 as stated (they require release, not discard): reported as information only
						r.info(rule, name, cons+":close", c.Pos(st.Pos()), "sibling disagreement: this loop recycles keep-session connections without Close() on some path (handleKsQuit and clearKsConns close them first); backend-held state (temporary tables, locks) goes back to the pool")
					}
				}
				okFound = true
			}
			if okFound {
				r.ok(rule, name, cons, c.Pos(st.Pos()), "preceded by a range loop in which every path recycles the element")
			} else {
				if best == "" {
					best = "no draining range loop over the map precedes the replacement"
				}
				r.viol(rule, name, cons, c.Pos(st.Pos()), "the map of pinned connections is replaced but "+best+": those connections are never returned to their pools")
			}
		})
	}
	if tx && ks {
		r.floor(rule, 6)
	} else {
		r.floor(rule, 2)
	}
	_ = n
}

func ordinalOfFieldStore(fn *ssa.Function, at ssa.Instruction, f *types.Var) string {
	n, idx := 0, 0
	allInstrs(fn, func(in ssa.Instruction) {
		if st, ok := in.(*ssa.Store); ok && fieldOfAddr(st.Addr) == f {
			n++
			if in == at {
				idx = n
			}
		}
	})
	return fmt.Sprint(idx)
}

// ---------------------------------------------------------------------------------------
// PC2b: release implies unpin

func rulePC2b(c *Ctx, r *Report)   { pc2b(c, r, true, true) }
func rulePC2bKs(c *Ctx, r *Report) { pc2b(c, r, false, true) }

// pinnedOrigin: the value is an element of txConns/ksConns (range element or lookup) or was stored into one of them
// in this function; returns the field.
func (pf *pcFacts) pinnedOrigin(fn *ssa.Function, v ssa.Value) *types.Var {
	o := stripValue(resolveLoad(stripValue(v)))
	if ex, ok := o.(*ssa.Extract); ok {
		switch t := ex.Tuple.(type) {
		case *ssa.Next:
			if rg, ok := t.Iter.(*ssa.Range); ok {
				if f := loadedField(rg.X); f == pf.txF || f == pf.ksF {
					return f
				}
			}
		case *ssa.Lookup:
			if f := loadedField(t.X); f == pf.txF || f == pf.ksF {
				return f
			}
		}
	}
	if lk, ok := o.(*ssa.Lookup); ok {
		if f := loadedField(lk.X); f == pf.txF || f == pf.ksF {
			return f
		}
	}
	a := aliasSet(o)
	var found *types.Var
	allInstrs(fn, func(in ssa.Instruction) {
		if mu, ok := in.(*ssa.MapUpdate); ok && a.has(mu.Value) {
			if f := loadedField(mu.Map); f == pf.txF || f == pf.ksF {
				found = f
			}
		}
	})
	return found
}

func pc2b(c *Ctx, r *Report, tx, ks bool) {
	const rule = "PC2b"
	pf := c.pcFacts()
	if pf == nil {
		r.undecided(rule, "proxy/server", "anchor", "-", "anchors not found")
		return
	}
	r.floor(rule, 4)
	if !tx {
		r.floor(rule, 2)
	}
	for _, fn := range pf.serverFuncs() {
		name := c.FuncName(fn)
		allInstrs(fn, func(in ssa.Instruction) {
			call, ok := in.(*ssa.Call)
			if !ok || !callsIfaceMethod(&call.Call, pf.recycle) {
				return
			}
			recv := recvOf(&call.Call)
			var f *types.Var
			if fv, isFree := stripValue(recv).(*ssa.UnOp); isFree {
				_ = fv
			}
			f = pf.pinnedOrigin(fn, recv)
			if f == nil {
				// closure: the recycled value is a captured cell of the parent that the parent pins
				f = pf.capturedPinned(fn, recv)
			}
			if f == nil || (f == pf.txF && !tx) || (f == pf.ksF && !ks) {
				return
			}
			cons := "recycle-pinned:" + f.Name() + "@" + ordinalOfIface(in, pf.recycle)
			// MapUpdate that pins *after* the recycle point is irrelevant; only paths where the value is pinned matter:
			// if the pin is a MapUpdate in this function, the recycle must be reachable from it.
			if !pf.pinReaches(fn, recv, f, in) {
				return
			}
			unpin := func(x ssa.Instruction) bool {
				switch y := x.(type) {
				case *ssa.Store:
					return fieldOfAddr(y.Addr) == f
				case *ssa.Call:
					if b, ok := y.Call.Value.(*ssa.Builtin); ok && b.Name() == "delete" && loadedField(y.Call.Args[0]) == f {
						return true
					}
					// helper that replaces the map (recycleTx replaces txConns)
					if f == pf.txF && callsFunc(&y.Call, pf.recycleTx) {
						return true
					}
				}
				return false
			}
			exits := searchExits(fn, in, nil, SearchOpts{Stop: unpin, DeferStop: func(d *ssa.Defer) bool { return unpin(d) }})
			if len(exits) == 0 {
				r.ok(rule, name, cons, c.Pos(in.Pos()), "every path after the release replaces the map or deletes the key")
			} else {
				r.viol(rule, name, cons, c.Pos(in.Pos()), "a pinned connection is returned to its pool but stays in "+f.Name()+": the session keeps using (and later releases again) a connection the pool may hand to another session", c.pathStrings(exits[0])...)
			}
		})
	}
}

// pinReaches: when the pin is a MapUpdate of this function, the release must be reachable from it (otherwise the
// value was not pinned yet on the paths that release it). Range/lookup origins are always pinned.
func (pf *pcFacts) pinReaches(fn *ssa.Function, v ssa.Value, f *types.Var, rel ssa.Instruction) bool {
	o := stripValue(resolveLoad(stripValue(v)))
	if ex, ok := o.(*ssa.Extract); ok {
		switch ex.Tuple.(type) {
		case *ssa.Next, *ssa.Lookup:
			return true
		}
	}
	if _, ok := o.(*ssa.Lookup); ok {
		return true
	}
	if fn.Parent() != nil {
		if _, isLoad := stripValue(v).(*ssa.UnOp); isLoad {
			return true // captured cell of the parent: runs at the parent's exit, after any pin
		}
	}
	a := aliasSet(o)
	reach := false
	allInstrs(fn, func(in ssa.Instruction) {
		mu, ok := in.(*ssa.MapUpdate)
		if !ok || !a.has(mu.Value) || loadedField(mu.Map) != f {
			return
		}
		searchExits(fn, mu, nil, SearchOpts{Stop: func(x ssa.Instruction) bool {
			if x == rel {
				reach = true
				return true
			}
			return false
		}})
	})
	return reach
}

// capturedPinned: fn is a closure; v is a load of a free variable whose cell, in the parent, is stored into
// txConns/ksConns.
func (pf *pcFacts) capturedPinned(fn *ssa.Function, v ssa.Value) *types.Var {
	if fn.Parent() == nil {
		return nil
	}
	ld, ok := stripValue(v).(*ssa.UnOp)
	if !ok || ld.Op != token.MUL {
		return nil
	}
	fv, ok := ld.X.(*ssa.FreeVar)
	if !ok {
		return nil
	}
	// find binding in parent
	idx := -1
	for i, x := range fn.FreeVars {
		if x == fv {
			idx = i
		}
	}
	if idx < 0 {
		return nil
	}
	var cell ssa.Value
	allInstrs(fn.Parent(), func(in ssa.Instruction) {
		if mc, ok := in.(*ssa.MakeClosure); ok && mc.Fn == ssa.Value(fn) && idx < len(mc.Bindings) {
			cell = mc.Bindings[idx]
		}
	})
	if cell == nil {
		return nil
	}
	var found *types.Var
	allInstrs(fn.Parent(), func(in ssa.Instruction) {
		mu, ok := in.(*ssa.MapUpdate)
		if !ok {
			return
		}
		f := loadedField(mu.Map)
		if f != pf.txF && f != pf.ksF {
			return
		}
		if l, ok := stripValue(mu.Value).(*ssa.UnOp); ok && l.Op == token.MUL && l.X == cell {
			found = f
		}
	})
	return found
}

// ---------------------------------------------------------------------------------------
// PC2c: consumers release only what the caller owns

func rulePC2c(c *Ctx, r *Report)   { pc2c(c, r, true) }
func rulePC2cTx(c *Ctx, r *Report) { pc2c(c, r, false) }

func pc2c(c *Ctx, r *Report, ksSide bool) {
	const rule = "PC2c"
	if ksSide {
		r.floor(rule, 8)
	} else {
		r.floor(rule, 4)
	}
	pf := c.pcFacts()
	if pf == nil {
		r.undecided(rule, "proxy/server", "anchor", "-", "anchors not found")
		return
	}
	var fns []*ssa.Function
	for f := range pf.consumers {
		fns = append(fns, f)
	}
	for f := range pf.mapConsumers {
		fns = append(fns, f)
	}
	sort.Slice(fns, func(i, j int) bool { return fns[i].Name() < fns[j].Name() })
	// a release may sit in an unexported helper the consumer calls (extract-method): the helper's releases are checked
	// too, and a guard counts whether it dominates the release inside the helper or the helper's call site in the consumer
	type site struct {
		in    ssa.Instruction   // the Recycle call
		chain []ssa.Instruction // call sites leading to it, innermost first
		owner *ssa.Function     // the listed consumer
	}
	var sites []site
	var collect func(owner, fn *ssa.Function, chain []ssa.Instruction, depth int, seen map[*ssa.Function]bool)
	collect = func(owner, fn *ssa.Function, chain []ssa.Instruction, depth int, seen map[*ssa.Function]bool) {
		for _, in := range callsIn(fn, func(cc *ssa.CallCommon) bool { return callsIfaceMethod(cc, pf.recycle) }) {
			sites = append(sites, site{in, chain, owner})
		}
		if depth == 0 {
			return
		}
		allInstrs(fn, func(x ssa.Instruction) {
			cc := callCommon(x)
			if cc == nil {
				return
			}
			h := staticCallee(cc)
			if h == nil || seen[h] || !c.InModule(h) || len(h.Blocks) == 0 || h.Object() == nil || h.Object().Exported() || h.Pkg != fn.Pkg {
				return
			}
			if _, listed := pf.consumers[h]; listed {
				return
			}
			if _, listed := pf.mapConsumers[h]; listed {
				return
			}
			if h == pf.recycleTx || h == pf.clearKs || h == pf.isInTx || h == pf.isKs {
				return
			}
			// only helpers that are handed a connection (or the map of them)
			takes := false
			for _, a := range cc.Args {
				if isPCType(pf, a.Type()) {
					takes = true
				}
				if m, ok := a.Type().Underlying().(*types.Map); ok && isPCType(pf, m.Elem()) {
					takes = true
				}
			}
			if !takes {
				return
			}
			seen[h] = true
			collect(owner, h, append([]ssa.Instruction{x}, chain...), depth-1, seen)
		})
	}
	for _, fn := range fns {
		collect(fn, fn, nil, 2, map[*ssa.Function]bool{fn: true})
	}
	// guardedAt: test holds for the instruction in its own function, or for an enclosing call site
	guardedAt := func(in ssa.Instruction, chain []ssa.Instruction, test func(at ssa.Instruction) bool) bool {
		if test(in) {
			return true
		}
		for _, cs := range chain {
			if test(cs) {
				return true
			}
		}
		return false
	}
	for _, st := range sites {
		in := st.in
		name := c.FuncName(st.owner)
		ord := ordinalOfIface(in, pf.recycle)
		if in.Parent() != st.owner {
			ord = in.Parent().Name() + ":" + ord
		}
		why := "dominated by !isInTransaction()"
		txOK := guardedAt(in, st.chain, func(at ssa.Instruction) bool {
			for _, ci := range callsIn(at.Parent(), func(cc *ssa.CallCommon) bool { return callsFunc(cc, pf.isInTx) }) {
				if dominatedByCond(at, ci.(*ssa.Call), false) {
					return true
				}
			}
			return false
		})
		if !txOK {
			txOK = guardedAt(in, st.chain, func(at ssa.Instruction) bool {
				for _, ci := range callsIn(at.Parent(), func(cc *ssa.CallCommon) bool { return callsFunc(cc, pf.recycleTx) }) {
					if instrDominates(ci, at) {
						return true
					}
				}
				return false
			})
			why = "txConns was replaced (recycleTx) before the release"
		}
		if txOK {
			r.ok(rule, name, "recycle@"+ord+":tx-side", c.Pos(in.Pos()), why)
		} else {
			r.viol(rule, name, "recycle@"+ord+":tx-side", c.Pos(in.Pos()), "the consumer can release a connection that is still pinned in txConns")
		}
		if !ksSide {
			continue
		}
		why = "dominated by !IsKeepSession()"
		ksOK := guardedAt(in, st.chain, func(at ssa.Instruction) bool {
			for _, ci := range callsIn(at.Parent(), func(cc *ssa.CallCommon) bool { return callsFunc(cc, pf.isKs) }) {
				if dominatedByCond(at, ci.(*ssa.Call), false) {
					return true
				}
			}
			return false
		})
		if !ksOK {
			ksOK = guardedAt(in, st.chain, func(at ssa.Instruction) bool {
				found := false
				allInstrs(at.Parent(), func(x ssa.Instruction) {
					if st2, ok := x.(*ssa.Store); ok && fieldOfAddr(st2.Addr) == pf.ksF && instrDominates(x, at) {
						found = true
					}
				})
				return found
			})
			why = "ksConns was replaced before the release"
		}
		if ksOK {
			r.ok(rule, name, "recycle@"+ord+":ks-side", c.Pos(in.Pos()), why)
		} else {
			r.viol(rule, name, "recycle@"+ord+":ks-side", c.Pos(in.Pos()), "the consumer can release a connection that is still pinned in ksConns (keep-session): it stays pinned, is used again and released again after every later statement")
		}
	}
}

// ---------------------------------------------------------------------------------------
// PC2d: transaction-ending entry points always drain

func rulePC2d(c *Ctx, r *Report) {
	const rule = "PC2d"
	r.floor(rule, 3)
	pf := c.pcFacts()
	if pf == nil {
		r.undecided(rule, "proxy/server", "anchor", "-", "anchors not found")
		return
	}
	isReplace := func(in ssa.Instruction) bool {
		st, ok := in.(*ssa.Store)
		return ok && fieldOfAddr(st.Addr) == pf.txF
	}
	for _, nm := range []string{"commit", "rollback"} {
		fn := c.seMethod(nm)
		if fn == nil {
			r.undecided(rule, "(*proxy/server.SessionExecutor)."+nm, "always-drains", "-", "not found")
			continue
		}
		exits := searchExits(fn, nil, fn.Blocks[0], SearchOpts{Stop: isReplace})
		if len(exits) == 0 {
			r.ok(rule, c.FuncName(fn), "always-drains", c.Pos(fn.Pos()), "every path through the function reaches the replacement of txConns (which PC2a requires to be preceded by a full drain)")
		} else {
			r.viol(rule, c.FuncName(fn), "always-drains", c.Pos(fn.Pos()), "the transaction can be ended on a path that keeps its connections pinned", c.pathStrings(exits[0])...)
		}
	}
	fn := c.seMethod("handleSetAutoCommit")
	if fn == nil || len(fn.Params) < 2 {
		r.undecided(rule, "(*proxy/server.SessionExecutor).handleSetAutoCommit", "always-drains", "-", "not found")
		return
	}
	p := fn.Params[1]
	n := 0
	var bad []Exit
	for _, e := range condEdges(p) {
		if !e.Val {
			continue
		}
		n++
		bad = append(bad, searchExits(fn, nil, e.If.Block().Succs[e.Succ], SearchOpts{Stop: isReplace})...)
	}
	if n == 0 {
		r.undecided(rule, c.FuncName(fn), "always-drains(autocommit=1)", c.Pos(fn.Pos()), "the autocommit flag is not branched on")
	} else if len(bad) == 0 {
		r.ok(rule, c.FuncName(fn), "always-drains(autocommit=1)", c.Pos(fn.Pos()), "SET autocommit=1 always reaches the replacement of txConns")
	} else {
		r.viol(rule, c.FuncName(fn), "always-drains(autocommit=1)", c.Pos(fn.Pos()), "SET autocommit=1 ends the transaction on a path that keeps its connections pinned (implicit transaction left open)", c.pathStrings(bad[0])...)
	}
}

// ---------------------------------------------------------------------------------------
// PC3: release is the last use

func rulePC3server(c *Ctx, r *Report) {
	pf := c.pcFacts()
	if pf == nil {
		r.undecided("PC3", "proxy/server", "anchor", "-", "anchors not found")
		return
	}
	r.floor("PC3", 15)
	for _, fn := range pf.serverFuncs() {
		pf.pc3(r, fn)
	}
}

// isPutCall: pool.Put(v) on ConnectionPool / *connectionPoolImpl / *util.ResourcePool with a non-nil argument.
func isPutCall(cc *ssa.CallCommon) ssa.Value {
	if cc == nil {
		return nil
	}
	name := ""
	var recvT types.Type
	var arg ssa.Value
	if cc.IsInvoke() {
		name, recvT = cc.Method.Name(), cc.Value.Type()
		if len(cc.Args) == 1 {
			arg = cc.Args[0]
		}
	} else if f := cc.StaticCallee(); f != nil && f.Signature.Recv() != nil {
		name, recvT = f.Name(), f.Signature.Recv().Type()
		if len(cc.Args) == 2 {
			arg = cc.Args[1]
		}
	}
	if name != "Put" || arg == nil || isNilConst(stripValue(arg)) {
		return nil
	}
	if isNamed(recvT, backendPath, "ConnectionPool") || isNamed(recvT, backendPath, "connectionPoolImpl") || isNamed(recvT, modPath+"/util", "ResourcePool") {
		return arg
	}
	return nil
}

func (pf *pcFacts) pc3(r *Report, fn *ssa.Function) {
	c := pf.c
	name := c.FuncName(fn)
	allInstrs(fn, func(in ssa.Instruction) {
		call, ok := in.(*ssa.Call)
		if !ok {
			return
		}
		var v ssa.Value
		what := ""
		if callsIfaceMethod(&call.Call, pf.recycle) {
			v = recvOf(&call.Call)
			what = "Recycle"
		} else if a := isPutCall(&call.Call); a != nil {
			v = a
			what = "Put"
		}
		if v == nil {
			return
		}
		origin := stripValue(resolveLoad(stripValue(v)))
		a := aliasSet(origin)
		a[stripValue(v)] = true
		cons := "release:" + what + "@" + ordinalRelease(pf, fn, in)
		var use ssa.Instruction
		def, _ := origin.(ssa.Instruction)
		exits := searchExits(fn, in, nil, SearchOpts{
			Stop: func(x ssa.Instruction) bool {
				if def != nil && x == def {
					return true // the value is re-defined (next loop iteration): a new connection
				}
				switch x.(type) {
				case *ssa.DebugRef, *ssa.Phi:
					return false
				}
				if st, ok := x.(*ssa.Store); ok {
					if _, isCell := st.Addr.(*ssa.Alloc); isCell && a.has(st.Val) {
						return false
					}
				}
				for _, op := range x.Operands(nil) {
					if *op != nil && a.has(*op) {
						if _, isRet := x.(*ssa.Return); isRet {
							return false
						}
						if u, ok := x.(*ssa.UnOp); ok && u.Op == token.MUL {
							continue
						}
						if use == nil {
							use = x
						}
						return true
					}
				}
				return false
			},
			ExitOK: func(x ssa.Instruction) bool {
				ret, ok := x.(*ssa.Return)
				if !ok {
					return true
				}
				return !returnsAny(ret, a)
			},
			IgnorePanic: true,
		})
		switch {
		case use != nil:
			r.viol("PC3", name, cons, c.Pos(in.Pos()), fmt.Sprintf("the connection is used after it was handed back (%s at %s): another holder may already own it", use.String(), c.Pos(use.Pos())))
		case len(exits) > 0:
			r.viol("PC3", name, cons, c.Pos(in.Pos()), fmt.Sprintf("the released connection is still returned to the caller (exit at %s): the caller's deferred cleanup releases it a second time", c.Pos(exitPos(exits[0].Instr))), c.pathStrings(exits[0])...)
		default:
			r.ok("PC3", name, cons, c.Pos(in.Pos()), "no use of the connection on any path after the release")
		}
	})
}

func ordinalRelease(pf *pcFacts, fn *ssa.Function, at ssa.Instruction) string {
	n, idx := 0, 0
	allInstrs(fn, func(in ssa.Instruction) {
		call, ok := in.(*ssa.Call)
		if !ok {
			return
		}
		if callsIfaceMethod(&call.Call, pf.recycle) || isPutCall(&call.Call) != nil {
			n++
			if in == at {
				idx = n
			}
		}
	})
	return fmt.Sprint(idx)
}

// ---------------------------------------------------------------------------------------
// C18 a/b/c

func ruleC18a(c *Ctx, r *Report) {
	const rule = "WM-C18a"
	r.floor(rule, 6)
	pf := c.pcFacts()
	if pf == nil {
		r.undecided(rule, "proxy/server", "anchor", "-", "anchors not found")
		return
	}
	allowedSrc := map[*ssa.Function]string{
		c.seMethod("getBackendNoKsConn"): "non-transaction path (read/write split decides the node)",
		c.seMethod("getBackendKsConn"):   "keep-session pinning",
		c.seMethod("getTransactionConn"): "transaction pinning",
	}
	exec := c.pcMethod("Execute")
	fl := c.pcMethod("FieldList")
	allowedExec := map[*ssa.Function]string{
		c.seMethod("executeSingleSQLInSlice"): "the single execution site of client statements",
		c.seMethod("handleFieldList"):         "COM_FIELD_LIST",
		c.seMethod("getTransactionConn"):      "savepoint replay on the new transaction connection",
		c.seMethod("rollbackSavepoint"):       "transaction control on the transaction's own connections",
		c.seMethod("handleSavepoint"):         "transaction control on the transaction's own connections",
	}
	for _, fn := range pf.serverFuncs() {
		name := c.FuncName(fn)
		allInstrs(fn, func(in ssa.Instruction) {
			cc := callCommon(in)
			if cc == nil {
				return
			}
			if pf.sourceKind(cc) == "raw" {
				cons := "source:" + calleeLabel(cc) + "@" + ordinalByLabel(fn, in, calleeLabel(cc))
				if why, ok := allowedVia(c, allowedSrc, fn); ok {
					r.ok(rule, name, cons, c.Pos(in.Pos()), why)
				} else {
					r.viol(rule, name, cons, c.Pos(in.Pos()), "a backend connection is taken straight from a slice/pool outside the acquisition layer: it bypasses transaction and keep-session pinning")
				}
			}
			if callsIfaceMethod(cc, exec) || callsIfaceMethod(cc, fl) {
				cons := "exec:" + calleeLabel(cc) + "@" + ordinalOfIface(in, exec, fl)
				if why, ok := allowedVia(c, allowedExec, fn); ok {
					r.ok(rule, name, cons, c.Pos(in.Pos()), why)
				} else {
					r.viol(rule, name, cons, c.Pos(in.Pos()), "SQL is sent to a pooled connection outside the listed execution sites")
				}
			}
		})
	}
	// executeSingleSQLInSlice's connection always comes from getBackendConn(s): its callers pass a value whose origin
	// is a session source or an element of the map returned by getBackendConns.
	gd := c.Method("backend", "Slice", "GetDirectConn")
	for _, s := range c.callSites(func(cc *ssa.CallCommon) bool { return callsFunc(cc, gd) }) {
		if s.Fn == c.seMethod("killSliceQueries") {
			r.ok(rule, c.FuncName(s.Fn), "source:GetDirectConn", c.Pos(s.In.Pos()), "unpooled connection used only for KILL QUERY")
		} else if s.Fn.Pkg == pf.serverPkg {
			r.viol(rule, c.FuncName(s.Fn), "source:GetDirectConn", c.Pos(s.In.Pos()), "unpooled direct connection outside killSliceQueries")
		}
	}
}

func ruleC18b(c *Ctx, r *Report) {
	const rule = "MP-C18b"
	r.floor(rule, 2)
	pf := c.pcFacts()
	fn := c.seMethod("getBackendNoKsConn")
	gtc := c.seMethod("getTransactionConn")
	if pf == nil || fn == nil || gtc == nil {
		r.undecided(rule, "(*proxy/server.SessionExecutor).getBackendNoKsConn", "anchor", "-", "anchors not found")
		return
	}
	name := c.FuncName(fn)
	inTx := callsIn(fn, func(cc *ssa.CallCommon) bool { return callsFunc(cc, pf.isInTx) })
	n := 0
	allInstrs(fn, func(in ssa.Instruction) {
		cc := callCommon(in)
		if cc == nil || pf.sourceKind(cc) != "raw" {
			return
		}
		n++
		cons := "source:" + calleeLabel(cc) + "@" + ordinalByLabel(fn, in, calleeLabel(cc))
		dom := false
		for _, t := range inTx {
			if dominatedByCond(in, t.(*ssa.Call), false) {
				dom = true
			}
		}
		if dom {
			r.ok(rule, name, cons, c.Pos(in.Pos()), "the replica-capable source is dominated by !isInTransaction()")
		} else {
			r.viol(rule, name, cons, c.Pos(in.Pos()), "inside a transaction a connection can be taken from the read/write-split source (possibly a replica, and not the transaction's connection)")
		}
	})
	if n == 0 {
		r.undecided(rule, name, "source", c.Pos(fn.Pos()), "no raw source in getBackendNoKsConn")
	}
	// true edge of isInTransaction reaches only getTransactionConn
	ne := 0
	for _, t := range inTx {
		for _, e := range condEdges(t.(*ssa.Call)) {
			if !e.Val {
				continue
			}
			ne++
			exits := searchExits(fn, nil, e.If.Block().Succs[e.Succ], SearchOpts{
				Stop: func(in ssa.Instruction) bool { cc := callCommon(in); return cc != nil && callsFunc(cc, gtc) },
				ExitOK: func(in ssa.Instruction) bool {
					ret, ok := in.(*ssa.Return)
					if !ok {
						return true
					}
					isNil, known := returnsNilError(ret)
					return known && !isNil
				},
			})
			if len(exits) == 0 {
				r.ok(rule, name, "in-transaction-edge", c.Pos(t.Pos()), "inside a transaction every path takes the connection from getTransactionConn (or fails)")
			} else {
				r.viol(rule, name, "in-transaction-edge", c.Pos(t.Pos()), "inside a transaction there is a path that returns a connection without going through getTransactionConn", c.pathStrings(exits[0])...)
			}
		}
	}
	if ne == 0 {
		r.undecided(rule, name, "in-transaction-edge", c.Pos(fn.Pos()), "isInTransaction() is not branched on")
	}
}

// pinningFunc checks the acquire-on-miss-and-store-under-same-key structure shared by getTransactionConn (txConns,
// GetMasterConn) and getBackendKsConn (ksConns, GetConn).
func pinningFunc(c *Ctx, r *Report, rule string, fn *ssa.Function, field *types.Var, wantSource string, needLock bool) {
	pf := c.pcFacts()
	name := c.FuncName(fn)
	// lookups of the map
	var lookups []*ssa.Lookup
	allInstrs(fn, func(in ssa.Instruction) {
		if lk, ok := in.(*ssa.Lookup); ok && loadedField(lk.X) == field {
			lookups = append(lookups, lk)
		}
	})
	nsrc := 0
	allInstrs(fn, func(in ssa.Instruction) {
		call, ok := in.(*ssa.Call)
		if !ok || pf.sourceKind(&call.Call) != "raw" {
			return
		}
		nsrc++
		label := calleeLabel(&call.Call)
		cons := "source:" + label + "@" + ordinalByLabel(fn, in, label)
		if label != wantSource {
			r.viol(rule, name, cons+":kind", c.Pos(in.Pos()), "the pinned connection is taken from "+label+" instead of "+wantSource)
		} else {
			r.ok(rule, name, cons+":kind", c.Pos(in.Pos()), "source is "+wantSource)
		}
		// dominated by the miss edge of a comma-ok lookup with the slice-name key
		var key ssa.Value
		dom := false
		for _, lk := range lookups {
			if !lk.CommaOk {
				continue
			}
			for _, e := range commaOkEdges(lk) {
				if !e.Val && instrDominatedByEdge(in, e) {
					dom = true
					key = lk.Index
				}
			}
		}
		if dom {
			r.ok(rule, name, cons+":on-miss", c.Pos(in.Pos()), "a new connection is taken only when the map has none for this slice")
		} else {
			r.viol(rule, name, cons+":on-miss", c.Pos(in.Pos()), "a new connection can be taken although the session already has one pinned for this slice: two connections per slice")
		}
		// every success exit stores it under the same key
		v := resultOf(call, 0)
		a := aliasSet(v)
		errEdges := map[[2]int]bool{}
		for _, e := range errNilEdgesOfCall(call) {
			if !e.Val {
				errEdges[[2]int{e.If.Block().Index, e.Succ}] = true
			}
		}
		var wrongKey ssa.Instruction
		exits := searchExits(fn, in, nil, SearchOpts{
			Stop: func(x ssa.Instruction) bool {
				mu, ok := x.(*ssa.MapUpdate)
				if !ok || loadedField(mu.Map) != field || !a.has(mu.Value) {
					return false
				}
				if key != nil && !sameVal(mu.Key, key) {
					wrongKey = x
				}
				return true
			},
			EdgeOK: func(b *ssa.BasicBlock, i int) bool { return !errEdges[[2]int{b.Index, i}] },
			ExitOK: func(x ssa.Instruction) bool {
				ret, ok := x.(*ssa.Return)
				if !ok {
					return true
				}
				isNil, known := returnsNilError(ret)
				return known && !isNil
			},
		})
		switch {
		case wrongKey != nil:
			r.viol(rule, name, cons+":stored", c.Pos(wrongKey.Pos()), "the connection is stored under a key different from the one that was looked up")
		case len(exits) > 0:
			r.viol(rule, name, cons+":stored", c.Pos(in.Pos()), "a success exit hands out the connection without pinning it in "+field.Name()+": the next statement of the session takes another connection", c.pathStrings(exits[0])...)
		default:
			r.ok(rule, name, cons+":stored", c.Pos(in.Pos()), "every success exit stores the connection in "+field.Name()+" under the looked-up key")
		}
		// after pinning, no error return (a pinned connection must not be reported as a failure)
		allInstrs(fn, func(x ssa.Instruction) {
			mu, ok := x.(*ssa.MapUpdate)
			if !ok || loadedField(mu.Map) != field || !a.has(mu.Value) {
				return
			}
			bad := searchExits(fn, mu, nil, SearchOpts{ExitOK: func(y ssa.Instruction) bool {
				ret, ok := y.(*ssa.Return)
				if !ok {
					return true
				}
				isNil, known := returnsNilError(ret)
				return known && isNil
			}, Stop: func(y ssa.Instruction) bool {
				if cc, ok := y.(*ssa.Call); ok {
					if b, ok := cc.Call.Value.(*ssa.Builtin); ok && b.Name() == "delete" && loadedField(cc.Call.Args[0]) == field {
						return true
					}
				}
				return false
			}})
			if len(bad) == 0 {
				r.ok(rule, name, cons+":pin-is-last", c.Pos(mu.Pos()), "no failure exit after the connection was pinned")
			} else {
				r.viol(rule, name, cons+":pin-is-last", c.Pos(mu.Pos()), "the function can fail after the connection was pinned without unpinning it: a connection that the error path releases stays registered for the slice", c.pathStrings(bad[0])...)
			}
		})
		if needLock {
			lockF := c.Field(serverRel, "SessionExecutor", "txLock")
			if lockF != nil && c.lockHeldAt(fn, in, lockF) {
				r.ok(rule, name, cons+":locked", c.Pos(in.Pos()), "txLock is held")
			} else {
				r.viol(rule, name, cons+":locked", c.Pos(in.Pos()), "the transaction map is consulted and filled without txLock")
			}
		}
	})
	if nsrc == 0 {
		r.undecided(rule, name, "source", c.Pos(fn.Pos()), "no raw source found")
	}
}

func ruleC18c(c *Ctx, r *Report) {
	const rule = "MP-C18c"
	r.floor(rule, 5)
	pf := c.pcFacts()
	fn := c.seMethod("getTransactionConn")
	if pf == nil || fn == nil {
		r.undecided(rule, "(*proxy/server.SessionExecutor).getTransactionConn", "anchor", "-", "anchors not found")
		return
	}
	pinningFunc(c, r, rule, fn, pf.txF, "GetMasterConn", true)
}

func ruleC23a(c *Ctx, r *Report) {
	const rule = "MP-C23a"
	r.floor(rule, 4)
	pf := c.pcFacts()
	fn := c.seMethod("getBackendKsConn")
	if pf == nil || fn == nil {
		r.undecided(rule, "(*proxy/server.SessionExecutor).getBackendKsConn", "anchor", "-", "anchors not found")
		return
	}
	pinningFunc(c, r, rule, fn, pf.ksF, "GetConn", false)
}

func ruleC23b(c *Ctx, r *Report) {
	const rule = "WM-C23b"
	r.floor(rule, 4)
	pf := c.pcFacts()
	if pf == nil {
		r.undecided(rule, "proxy/server", "anchor", "-", "anchors not found")
		return
	}
	allowed := map[*ssa.Function]string{
		c.seMethod("getBackendKsConn"):          "pins on a miss",
		c.seMethod("handleKsQuit"):              "client disconnect",
		c.seMethod("handleKeepSessionPing"):     "ping failure: every pinned connection was just recycled (PC2a/PC2b)",
		pf.clearKs:                              "namespace changed outside a transaction",
		c.Func(serverRel, "newSessionExecutor"): "constructor",
	}
	for _, fn := range c.Funcs {
		if c.IsMockFunc(fn) {
			continue
		}
		allInstrs(fn, func(in ssa.Instruction) {
			what := ""
			switch x := in.(type) {
			case *ssa.Store:
				if fieldOfAddr(x.Addr) == pf.ksF {
					what = "replace"
				}
			case *ssa.MapUpdate:
				if loadedField(x.Map) == pf.ksF {
					what = "insert"
				}
			case *ssa.Call:
				if b, ok := x.Call.Value.(*ssa.Builtin); ok && b.Name() == "delete" && loadedField(x.Call.Args[0]) == pf.ksF {
					what = "delete"
				}
			}
			if what == "" {
				return
			}
			name := c.FuncName(fn)
			if why, ok := allowedVia(c, allowed, fn); ok {
				r.ok(rule, name, "write:ksConns:"+what, c.Pos(in.Pos()), why)
			} else {
				r.viol(rule, name, "write:ksConns:"+what, c.Pos(in.Pos()), "the keep-session map is modified outside the listed functions: a client can lose (or change) its pinned backend connection")
			}
		})
	}
	// clearKsConns is guarded by !isInTransaction()
	if pf.clearKs != nil {
		allInstrs(pf.clearKs, func(in ssa.Instruction) {
			st, ok := in.(*ssa.Store)
			if !ok || fieldOfAddr(st.Addr) != pf.ksF {
				return
			}
			dom := false
			for _, ci := range callsIn(pf.clearKs, func(cc *ssa.CallCommon) bool { return callsFunc(cc, pf.isInTx) }) {
				if dominatedByCond(in, ci.(*ssa.Call), false) {
					dom = true
				}
			}
			if dom {
				r.ok(rule, c.FuncName(pf.clearKs), "guard:!isInTransaction", c.Pos(in.Pos()), "pinned connections are dropped only outside a transaction")
			} else {
				r.viol(rule, c.FuncName(pf.clearKs), "guard:!isInTransaction", c.Pos(in.Pos()), "pinned connections can be dropped in the middle of a transaction")
			}
		})
	}
}

func ruleC23close(c *Ctx, r *Report) {
	const rule = "MP-C23c"
	r.floor(rule, 1)
	cl := c.Method(serverRel, "Session", "Close")
	quit := c.seMethod("handleKsQuit")
	isClosed := c.Method(serverRel, "Session", "IsClosed")
	if cl == nil || quit == nil || isClosed == nil {
		r.undecided(rule, "(*proxy/server.Session).Close", "anchor", "-", "anchors not found")
		return
	}
	name := c.FuncName(cl)
	n := 0
	for _, ci := range callsIn(cl, func(cc *ssa.CallCommon) bool { return callsFunc(cc, isClosed) }) {
		for _, e := range condEdges(ci.(*ssa.Call)) {
			if e.Val {
				continue
			}
			n++
			exits := searchExits(cl, nil, e.If.Block().Succs[e.Succ], SearchOpts{Stop: func(in ssa.Instruction) bool {
				cc := callCommon(in)
				return cc != nil && callsFunc(cc, quit)
			}})
			if len(exits) == 0 {
				r.ok(rule, name, "not-yet-closed->handleKsQuit", c.Pos(ci.Pos()), "every path past the already-closed test releases the pinned connections")
			} else {
				r.viol(rule, name, "not-yet-closed->handleKsQuit", c.Pos(ci.Pos()), "a session can be closed without releasing its keep-session connections", c.pathStrings(exits[0])...)
			}
		}
	}
	if n == 0 {
		r.undecided(rule, name, "not-yet-closed->handleKsQuit", c.Pos(cl.Pos()), "Close does not test IsClosed()")
	}
	_ = strings.TrimSpace
}

func init() { register("C23", "", ruleC23d) }

// ruleC23d: the two reactions to a namespace change use one transaction predicate: clearKsConns drops the pinned
// connections when !isInTransaction(), shouldClearKsAndCloseSession disconnects when isInTransaction(); if the second
// tested anything narrower, a client in between would neither be dropped nor disconnected.
func ruleC23d(c *Ctx, r *Report) {
	const rule = "MP-C23d"
	r.floor(rule, 1)
	pf := c.pcFacts()
	fn := c.Method(serverRel, "Session", "shouldClearKsAndCloseSession")
	statusF := c.Field(serverRel, "SessionExecutor", "status")
	if pf == nil || fn == nil || statusF == nil {
		r.undecided(rule, "(*proxy/server.Session).shouldClearKsAndCloseSession", "anchor", "-", "anchors not found")
		return
	}
	name := c.FuncName(fn)
	direct := false
	allInstrs(fn, func(in ssa.Instruction) {
		if fa, ok := in.(*ssa.FieldAddr); ok && fieldOfAddr(fa) == statusF {
			direct = true
		}
	})
	n := 0
	for _, ret := range returnsOf(fn) {
		vals, _ := retValues(ret, 0)
		maybe := false
		for _, v := range vals {
			if b, ok := constBool(v); !ok || b {
				maybe = true
			}
		}
		if !maybe {
			continue
		}
		n++
		dom := false
		for _, ci := range callsIn(fn, func(cc *ssa.CallCommon) bool { return callsFunc(cc, pf.isInTx) }) {
			// the result may be returned through short-circuit phis: accept domination of the return or of the value's definition
			if dominatedByCond(ret, ci.(*ssa.Call), true) {
				dom = true
			}
			for _, v := range vals {
				if def, ok := v.(ssa.Instruction); ok && dominatedByCond(def, ci.(*ssa.Call), true) {
					dom = true
				}
				if ph, ok := v.(*ssa.Phi); ok {
					// a && b && c: the phi's non-constant edge comes from a block dominated by the earlier tests
					for i, e := range ph.Edges {
						if _, isC := e.(*ssa.Const); isC {
							continue
						}
						pred := ph.Block().Preds[i]
						if dominatedByCond(pred.Instrs[len(pred.Instrs)-1], ci.(*ssa.Call), true) {
							dom = true
						}
					}
				}
			}
		}
		cons := fmt.Sprintf("return-maybe-true#%d", n)
		if dom && !direct {
			r.ok(rule, name, cons, c.Pos(exitPos(ret)), "decided with isInTransaction(), the same predicate clearKsConns negates")
		} else {
			r.viol(rule, name, cons, c.Pos(exitPos(ret)), "the disconnect-on-namespace-change test does not use isInTransaction() (the predicate clearKsConns negates): a keep-session client that is in a transaction by autocommit=0 is neither dropped nor disconnected after a reload")
		}
	}
	if n == 0 {
		r.undecided(rule, name, "return-maybe-true", c.Pos(fn.Pos()), "no possibly-true return")
	}
}

func init() {
	register("C19", "", ruleC19close)
	register("C18", "", ruleC18commit)
}

// ruleC19close: "when the session ends it holds no connections": Session.Close reaches rollback() and handleKsQuit()
// on every path past the already-closed test; in Session.Run every command's response goes through writeResponse
// (whose deferred closure hands the streaming connection to recycleContinueConn) before the next read or the exit.
func ruleC19close(c *Ctx, r *Report) {
	const rule = "MP-C19end"
	r.floor(rule, 3)
	cl := c.Method(serverRel, "Session", "Close")
	isClosed := c.Method(serverRel, "Session", "IsClosed")
	rollback := c.seMethod("rollback")
	run := c.Method(serverRel, "Session", "Run")
	execCmd := c.Method(serverRel, "Session", "execCommand")
	writeResp := c.Method(serverRel, "Session", "writeResponse")
	recCont := c.seMethod("recycleContinueConn")
	if cl == nil || isClosed == nil || rollback == nil || run == nil || execCmd == nil || writeResp == nil || recCont == nil {
		r.undecided(rule, "proxy/server.Session", "anchor", "-", "anchors not found")
		return
	}
	n := 0
	for _, ci := range callsIn(cl, func(cc *ssa.CallCommon) bool { return callsFunc(cc, isClosed) }) {
		for _, e := range condEdges(ci.(*ssa.Call)) {
			if e.Val {
				continue
			}
			n++
			exits := searchExits(cl, nil, e.If.Block().Succs[e.Succ], SearchOpts{Stop: func(in ssa.Instruction) bool {
				cc := callCommon(in)
				return cc != nil && callsFunc(cc, rollback)
			}})
			if len(exits) == 0 {
				r.ok(rule, c.FuncName(cl), "not-yet-closed->rollback", c.Pos(ci.Pos()), "closing a session always rolls back and releases its transaction connections")
			} else {
				r.viol(rule, c.FuncName(cl), "not-yet-closed->rollback", c.Pos(ci.Pos()), "a session can be closed without rolling back and releasing its transaction connections", c.pathStrings(exits[0])...)
			}
		}
	}
	if n == 0 {
		r.undecided(rule, c.FuncName(cl), "not-yet-closed->rollback", c.Pos(cl.Pos()), "Close does not test IsClosed()")
	}
	// Run: execCommand -> writeResponse
	for _, ci := range callsIn(run, func(cc *ssa.CallCommon) bool { return callsFunc(cc, execCmd) }) {
		exits := searchExits(run, ci, nil, SearchOpts{Stop: func(in ssa.Instruction) bool {
			cc := callCommon(in)
			return cc != nil && callsFunc(cc, writeResp)
		}})
		again := false
		searchExits(run, ci, nil, SearchOpts{Stop: func(in ssa.Instruction) bool {
			if in == ci {
				again = true
				return true
			}
			cc := callCommon(in)
			return cc != nil && callsFunc(cc, writeResp)
		}})
		if len(exits) == 0 && !again {
			r.ok(rule, c.FuncName(run), "execCommand->writeResponse", c.Pos(ci.Pos()), "every executed command's response passes writeResponse (which releases the streaming connection) before the loop continues or ends")
		} else {
			r.viol(rule, c.FuncName(run), "execCommand->writeResponse", c.Pos(ci.Pos()), "a command can complete without writeResponse: a connection parked in continueConn is never handed back")
		}
	}
	// writeResponse: a deferred closure that calls recycleContinueConn is registered before anything else
	okDefer := false
	if len(writeResp.Blocks) > 0 {
		for _, in := range writeResp.Blocks[0].Instrs {
			d, ok := in.(*ssa.Defer)
			if !ok {
				if _, isCall := in.(*ssa.Call); isCall {
					break
				}
				continue
			}
			if mc, ok := d.Call.Value.(*ssa.MakeClosure); ok {
				if f, ok := mc.Fn.(*ssa.Function); ok && len(callsIn(f, func(cc *ssa.CallCommon) bool { return callsFunc(cc, recCont) })) > 0 {
					okDefer = true
				}
			}
			break
		}
	}
	if okDefer {
		r.ok(rule, c.FuncName(writeResp), "defer:recycleContinueConn", c.Pos(writeResp.Pos()), "registered first: runs on every exit of writeResponse")
	} else {
		r.viol(rule, c.FuncName(writeResp), "defer:recycleContinueConn", c.Pos(writeResp.Pos()), "writeResponse does not unconditionally release the streaming connection")
	}
}

// ruleC18commit: COMMIT / ROLLBACK are sent to exactly the transaction's connections: in commit() every path through
// the loop over txConns calls Commit() on the element before it is recycled; in rollback() every path calls Rollback()
// unless the element is closed.
func ruleC18commit(c *Ctx, r *Report) {
	const rule = "PC2e"
	r.floor(rule, 2)
	pf := c.pcFacts()
	if pf == nil {
		r.undecided(rule, "proxy/server", "anchor", "-", "anchors not found")
		return
	}
	for _, t := range []struct{ fn, method string }{{"commit", "Commit"}, {"rollback", "Rollback"}} {
		fn := c.seMethod(t.fn)
		m := c.pcMethod(t.method)
		if fn == nil || m == nil {
			r.undecided(rule, "(*proxy/server.SessionExecutor)."+t.fn, "anchor", "-", "not found")
			continue
		}
		name := c.FuncName(fn)
		found := false
		for _, rl := range rangesOver(fn, pf.txF) {
			if rl.elem == nil {
				continue
			}
			found = true
			a := aliasSet(rl.elem)
			// edges on which the element is known closed carry no obligation (nothing can be sent on a closed connection)
			prune := map[[2]int]bool{}
			allInstrs(fn, func(in ssa.Instruction) {
				call, ok := in.(*ssa.Call)
				if !ok || !callsIfaceMethod(&call.Call, pf.isClosedM) || !a.has(recvOf(&call.Call)) {
					return
				}
				for _, e := range condEdges(call) {
					if e.Val {
						prune[[2]int{e.If.Block().Index, e.Succ}] = true
					}
				}
			})
			okv := extractOf(rl.next, 0)
			miss := false
			var exits []Exit
			for _, e := range condEdges(okv) {
				if !e.Val {
					continue
				}
				exits = append(exits, searchExits(fn, nil, e.If.Block().Succs[e.Succ], SearchOpts{
					Stop: func(in ssa.Instruction) bool {
						if in == ssa.Instruction(rl.next) {
							miss = true
							return true
						}
						cc := callCommon(in)
						return cc != nil && callsIfaceMethod(cc, m) && a.has(recvOf(cc))
					},
					EdgeOK: func(b *ssa.BasicBlock, i int) bool { return !prune[[2]int{b.Index, i}] },
				})...)
			}
			if !miss && len(exits) == 0 {
				r.ok(rule, name, "loop:txConns->"+t.method, c.Pos(rl.rng.Pos()), "every open transaction connection receives "+t.method+"() before the loop moves on")
			} else {
				r.viol(rule, name, "loop:txConns->"+t.method, c.Pos(rl.rng.Pos()), "a transaction connection can be released without "+t.method+"() having been sent on it: the backend transaction is left open on a pooled connection")
			}
		}
		if !found {
			r.viol(rule, name, "loop:txConns->"+t.method, c.Pos(fn.Pos()), "no loop over the transaction's connections")
		}
	}
}

func init() { register("C18", "", rulePC2cTx, ruleC18d); register("C22", "", ruleC18d) }

// ruleC18d (MP-C18d): a keep-session connection outlives the statement that created it, so the node it is taken from
// must not depend on that statement's read/write-split decision: in getBackendKsConn the raw source is dominated by a
// SetFromSlave call of this function (the session-level decision), on every path.
func ruleC18d(c *Ctx, r *Report) {
	const rule = "MP-C18d"
	r.floor(rule, 1)
	pf := c.pcFacts()
	fn := c.seMethod("getBackendKsConn")
	setFS := c.Method("util", "RequestContext", "SetFromSlave")
	if pf == nil || fn == nil || setFS == nil {
		r.undecided(rule, "(*proxy/server.SessionExecutor).getBackendKsConn", "anchor", "-", "anchors not found")
		return
	}
	name := c.FuncName(fn)
	n := 0
	allInstrs(fn, func(in ssa.Instruction) {
		call, ok := in.(*ssa.Call)
		if !ok || pf.sourceKind(&call.Call) != "raw" {
			return
		}
		n++
		min, _ := countOnPaths(fn, in, func(x ssa.Instruction) bool {
			cc := callCommon(x)
			return cc != nil && callsFunc(cc, setFS)
		})
		cons := "source@" + ordinalByLabel(fn, in, calleeLabel(&call.Call)) + ":session-level-node-choice"
		if min >= 1 {
			r.ok(rule, name, cons, c.Pos(in.Pos()), "the replica flag is re-decided for the session on every path before the pinned connection is taken")
		} else {
			r.viol(rule, name, cons, c.Pos(in.Pos()), "the pinned connection can be taken with the replica flag left over from the current statement: a plain SELECT pins a replica connection and the session's later transaction runs on the replica")
		}
	})
	if n == 0 {
		r.undecided(rule, name, "source", c.Pos(fn.Pos()), "no raw source")
	}
}

func isPCType(pf *pcFacts, t types.Type) bool {
	return types.Identical(t, pf.pcType) || (namedOf(t) != nil && namedOf(t) == namedOf(pf.pcType))
}
